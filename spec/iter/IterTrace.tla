----------------------------- MODULE IterTrace -----------------------------
(***************************************************************************)
(* C23: sequential specifications of the tuple-iterator adapters as         *)
(* functions from input sequences to an output stream, and validation of    *)
(* observations recorded from the real adapters.                            *)
(*                                                                         *)
(* A source is a sequence of integers: v >= 0 is a value, v <= -2 an error  *)
(* raised at that position (errors are sticky).  -1 stands for "done".      *)
(* A stream is [v |-> values, t |-> terminal] with t = -1 or an error.      *)
(* A line gives the adapter kind, its sources and parameters, the script of *)
(* calls (N = Next, H = Head, S = Stop) and what each N / H returned.       *)
(***************************************************************************)
EXTENDS Integers, Sequences, FiniteSets, TLC, Json, SequencesExt

Trace == ndJsonDeserialize("trace.ndjson")
VARIABLES l, bad, counts, judged
vars == <<l, bad, counts, judged>>
Ev1 == Trace[l]
Bump(c, cls) == [x \in DOMAIN c \cup {cls} |-> IF x = cls THEN (IF x \in DOMAIN c THEN c[x] ELSE 0) + 1 ELSE c[x]]
SeqToSet(s) == {s[i] : i \in DOMAIN s}
Init == l = 1 /\ bad = <<>> /\ counts = [x \in {"OK"} |-> 0] /\ judged = 0

DONE == -1
IsErr(x) == x <= -2
FirstErrIdx(s) == IF \E i \in 1..Len(s) : IsErr(s[i]) THEN CHOOSE i \in 1..Len(s) : IsErr(s[i]) /\ \A j \in 1..(i - 1) : ~IsErr(s[j]) ELSE 0
Clean(s) == IF FirstErrIdx(s) = 0 THEN s ELSE SubSeq(s, 1, FirstErrIdx(s) - 1)
Term(s)  == IF FirstErrIdx(s) = 0 THEN DONE ELSE s[FirstErrIdx(s)]
Stream(v, t) == [v |-> v, t |-> t]
FilterErr(x) == -(100 + x)      \* the error a filter / validator function raises on value x

\* ---- static source
StaticS(s) == Stream(Clean(s), Term(s))

\* ---- sequential combination (storage.NewCombinedIterator, iterator.Concat): sources one after the other
RECURSIVE CatS(_)
CatS(srcs) ==
  IF srcs = <<>> THEN Stream(<<>>, DONE)
  ELSE IF Term(Head(srcs)) # DONE THEN StaticS(Head(srcs))
  ELSE LET r == CatS(Tail(srcs)) IN Stream(Clean(Head(srcs)) \o r.v, r.t)

\* ---- filters that remember errors (iterator.NewFilteredIterator, ConditionsFilteredTupleKeyIterator):
\* values failing the predicate or making it fail are skipped; a source error ends the stream; if
\* nothing passed and the predicate failed at least once, the last such error is reported at the end
FilterS(s, drop, ferr) ==
  LET c    == Clean(s)
      vals == SelectSeq(c, LAMBDA x : x \notin drop /\ x \notin ferr)
      errs == SelectSeq(c, LAMBDA x : x \in ferr /\ x \notin drop)
  IN IF Term(s) # DONE THEN Stream(vals, Term(s))
     ELSE IF vals = <<>> /\ errs # <<>> THEN Stream(<<>>, FilterErr(errs[Len(errs)]))
     ELSE Stream(vals, DONE)

\* ---- plain predicate filter (storage.NewFilteredTupleKeyIterator)
KeepS(s, drop) == Stream(SelectSeq(Clean(s), LAMBDA x : x \notin drop), Term(s))

\* ---- validating iterator (iterator.Validate): invalid values skipped, a validator error ends the stream
ValidateS(s, drop, ferr) ==
  LET c == Clean(s)
      k == IF \E i \in 1..Len(c) : c[i] \in ferr
           THEN CHOOSE i \in 1..Len(c) : c[i] \in ferr /\ \A j \in 1..(i - 1) : c[j] \notin ferr ELSE 0
      pre == IF k = 0 THEN c ELSE SubSeq(c, 1, k - 1)
  IN Stream(SelectSeq(pre, LAMBDA x : x \notin drop), IF k # 0 THEN FilterErr(c[k]) ELSE Term(s))

\* ---- two-way ordered merge (iterator.Merge): equal heads are emitted once
RECURSIVE Mrg(_, _)
Mrg(a, c) ==
  IF a = <<>> THEN c ELSE IF c = <<>> THEN a
  ELSE IF a[1] < c[1] THEN <<a[1]>> \o Mrg(Tail(a), c)
  ELSE IF a[1] > c[1] THEN <<c[1]>> \o Mrg(a, Tail(c))
  ELSE <<a[1]>> \o Mrg(Tail(a), Tail(c))

\* ---- n-way ordered combination (storage.NewOrderedCombinedIterator): ascending, each key once
AllVals(srcs) == UNION {SeqToSet(Clean(srcs[i])) : i \in DOMAIN srcs}
OrderedS(srcs) == SetToSortSeq(AllVals(srcs), <)

\* ---- SkipTo(target) then drain: everything from the first value >= target on
SkipS(s, target) ==
  LET idx == {i \in 1..Len(s) : IsErr(s[i]) \/ s[i] >= target} IN
  IF idx = {} THEN Stream(<<>>, DONE)
  ELSE LET i == CHOOSE x \in idx : \A y \in idx : x <= y IN StaticS(SubSeq(s, i, Len(s)))

\* ---- what a script of calls observes on a stream
RECURSIVE Observe(_, _, _)
Observe(v, t, ops) ==
  IF ops = <<>> THEN <<>>
  ELSE LET cur == IF v = <<>> THEN t ELSE v[1] IN
       IF Head(ops) = "S" THEN Observe(<<>>, DONE, Tail(ops))
       ELSE IF Head(ops) = "H" THEN <<cur>> \o Observe(v, t, Tail(ops))
       ELSE <<cur>> \o Observe(IF v = <<>> THEN v ELSE Tail(v), t, Tail(ops))

Sorted(s) == \A i \in 1..(Len(s) - 1) : s[i] <= s[i + 1]
NoErrs(srcs) == \A i \in DOMAIN srcs : Term(srcs[i]) = DONE
IsPrefixOf(p, s) == Len(p) <= Len(s) /\ \A i \in 1..Len(p) : p[i] = s[i]

ExactStream(ev) ==
  CASE ev.kind \in {"combined", "concat"} -> CatS(ev.srcs)
    [] ev.kind = "static" -> StaticS(ev.srcs[1])
    [] ev.kind \in {"filter", "condfilter"} -> FilterS(ev.srcs[1], SeqToSet(ev.drop), SeqToSet(ev.ferr))
    [] ev.kind = "keyfilter" -> KeepS(ev.srcs[1], SeqToSet(ev.drop))
    [] ev.kind = "validate" -> ValidateS(ev.srcs[1], SeqToSet(ev.drop), SeqToSet(ev.ferr))
    [] ev.kind = "skipto" -> SkipS(ev.srcs[1], ev.target)
    [] ev.kind = "merge" -> Stream(Mrg(ev.srcs[1], ev.srcs[2]), DONE)
    [] ev.kind = "ordered" -> Stream(OrderedS(ev.srcs), DONE)

\* the results of the Next calls of a script (ops without S, aligned with obs)
RECURSIVE NextResults(_, _)
NextResults(ops, obs) ==
  IF ops = <<>> \/ obs = <<>> THEN <<>>
  ELSE IF Head(ops) = "N" THEN <<Head(obs)>> \o NextResults(Tail(ops), Tail(obs)) ELSE NextResults(Tail(ops), Tail(obs))

\* merge / ordered with an erroring source: look-ahead makes the position of the error depend on
\* the interleaving, so the requirement is: the values are a prefix of the error-free output, in
\* order, and the run ends with an error of some source (it is never swallowed)
LooseOK(ev) ==
  LET full == IF ev.kind = "merge" THEN Mrg(Clean(ev.srcs[1]), Clean(ev.srcs[2])) ELSE OrderedS(ev.srcs)
      hasS == \E i \in DOMAIN ev.ops : ev.ops[i] = "S"
      kS   == IF hasS THEN (CHOOSE i \in DOMAIN ev.ops : ev.ops[i] = "S" /\ \A j \in 1..(i - 1) : ev.ops[j] # "S") - 1 ELSE Len(ev.obs)
      o    == SubSeq(ev.obs, 1, kS)                       \* results before Stop
      rest == SubSeq(ev.obs, kS + 1, Len(ev.obs))         \* results after Stop: done
      vals == SelectSeq(NextResults(SelectSeq(ev.ops, LAMBDA x : x # "S"), o), LAMBDA x : x >= 0)
  IN /\ IsPrefixOf(vals, full)
     /\ \A i \in DOMAIN rest : rest[i] = DONE
     /\ \A i \in 1..(Len(o) - 1) : o[i] >= 0
     /\ IF hasS /\ (o = <<>> \/ o[Len(o)] >= 0) THEN TRUE
        ELSE o # <<>> /\ IsErr(o[Len(o)]) /\ \E i \in DOMAIN ev.srcs : o[Len(o)] = Term(ev.srcs[i])

RECURSIVE SumLen(_)
SumLen(ss) == IF ss = <<>> THEN 0 ELSE Len(Head(ss)) + SumLen(Tail(ss))
\* fan-in of channels: every message exactly once, per-channel order kept
FanInOK(ev) ==
  /\ \A i \in DOMAIN ev.srcs : SelectSeq(ev.obs, LAMBDA x : x \in SeqToSet(ev.srcs[i])) = ev.srcs[i]
  /\ Len(ev.obs) = SumLen(ev.srcs)

Class(ev) ==
  IF ev.kind = "fanin" THEN (IF FanInOK(ev) THEN "OK_ITER_FANIN" ELSE "BAD_ITER_FANIN")
  ELSE IF ev.kind \in {"merge", "ordered"} /\ ~NoErrs(ev.srcs) THEN (IF LooseOK(ev) THEN "OK_ITER_ERR_PREFIX" ELSE "BAD_ITER_ERR_SEQUENCE")
  ELSE LET st == ExactStream(ev)
           want == Observe(st.v, st.t, ev.ops)
       IN IF ev.obs = want
          THEN (IF ev.kind \in {"merge", "ordered"} /\ ~Sorted(SelectSeq(ev.obs, LAMBDA x : x >= 0)) /\ \A o \in SeqToSet(ev.ops) : o = "N"
                THEN "BAD_ITER_UNSORTED" ELSE "OK_ITER_EXACT")
          ELSE "BAD_ITER_SEQUENCE"

Want(ev) == IF ev.kind = "fanin" \/ (ev.kind \in {"merge", "ordered"} /\ ~NoErrs(ev.srcs)) THEN "" ELSE LET st == ExactStream(ev) IN ToString(Observe(st.v, st.t, ev.ops))

TrCase ==
  /\ l <= Len(Trace) /\ Ev1.e = "Adapter" /\ l' = l + 1
  /\ LET c == Class(Ev1) IN
     /\ counts' = Bump(counts, c) /\ judged' = judged + 1
     /\ bad' = IF c \in {"OK_ITER_FANIN", "OK_ITER_ERR_PREFIX", "OK_ITER_EXACT"} THEN bad ELSE Append(bad, [l |-> l, cls |-> c, ref |-> Want(Ev1), note |-> ""])
TrEnd ==
  /\ l <= Len(Trace) /\ Ev1.e = "End" /\ l' = l + 1
  /\ PrintT(<<"VERIF", "END", ToJson([l |-> l, judged |-> judged, skipped |-> 0, bad |-> bad, counts |-> counts])>>)
  /\ UNCHANGED <<bad, counts, judged>>
Spec == Init /\ [][TrCase \/ TrEnd]_vars
TraceAccepted == TLCGet("stats").diameter - 1 = Len(Trace)
=============================================================================
