SPECIFICATION Spec
CONSTANTS
  U <- U4
  TermU <- TErr
  B = 2
  CS = {c1, c2}
INVARIANTS MCTypeOK MCObsIsPrefix MCCompleteAtEnd RefCount NoUseAfterStop
PROPERTIES BufferAppendOnly
CHECK_DEADLOCK FALSE
CONSTRAINT MCObsBound
