----------------------------- MODULE SharedIter -----------------------------
(***************************************************************************)
(* Shared iterator (pkg/storage/storagewrappers/sharediterator): one        *)
(* underlying tuple iterator is read once into a shared, append-only buffer *)
(* in chunks of B; every consumer gets a clone with a private position.     *)
(* The storage item keeps the original instance (one reference) until the   *)
(* admission / idle timer stops it; afterwards new consumers bypass the     *)
(* shared iterator and read the datastore themselves.                       *)
(*                                                                         *)
(*  U        values of the underlying sequence                              *)
(*  TermU    how it ends: -1 (done) or -2 (an error after the values)        *)
(***************************************************************************)
EXTENDS Integers, Sequences, FiniteSets, TLC

VARIABLES fetched,     \* number of underlying items appended to the shared buffer
          term,        \* 0 until a fetch hit the end / the error of the underlying iterator
          refs,        \* reference count shared by all instances
          origStopped, \* the storage item's own instance has been stopped by a timer
          uStopped,    \* Stop has been called on the underlying iterator
          cst,         \* clone state: "absent", "active", "stopped", "bypass"
          head,        \* private position of each clone
          obs          \* what each clone has returned from Next so far (values, then terminal)
vars == <<fetched, term, refs, origStopped, uStopped, cst, head, obs>>

\* The actions take the scenario (underlying values U, its terminal TermU, chunk size B) as
\* parameters so that the design configuration (SharedIterMC, constants) and the trace
\* specification (SharedIterTrace, scenario read from the trace) share them.
Clones == DOMAIN cst

InitFor(CS) == /\ fetched = 0 /\ term = 0 /\ refs = 1 /\ origStopped = FALSE /\ uStopped = FALSE
        /\ cst = [c \in CS |-> "absent"] /\ head = [c \in CS |-> 0] /\ obs = [c \in CS |-> <<>>]

Min(a, b) == IF a < b THEN a ELSE b

\* a consumer arrives: shares the buffer unless the original instance was stopped
Clone(c) ==
  /\ cst[c] = "absent"
  /\ IF origStopped
     THEN cst' = [cst EXCEPT ![c] = "bypass"] /\ UNCHANGED refs
     ELSE cst' = [cst EXCEPT ![c] = "active"] /\ refs' = refs + 1
  /\ UNCHANGED <<fetched, term, origStopped, uStopped, head, obs>>

\* one chunk is read from the underlying iterator (await.Do(fetchMore): one fetch at a time)
Fetch(U, TermU, B) ==
  /\ term = 0 /\ ~uStopped
  /\ \E c \in Clones : cst[c] = "active" /\ head[c] >= fetched
  /\ LET n == Min(B, Len(U) - fetched) IN
     /\ fetched' = fetched + n
     /\ term' = IF n < B THEN TermU ELSE 0
  /\ UNCHANGED <<refs, origStopped, uStopped, cst, head, obs>>

Next(U, c) ==
  /\ cst[c] = "active"
  /\ \/ /\ head[c] < fetched
        /\ obs' = [obs EXCEPT ![c] = Append(@, U[head[c] + 1])]
        /\ head' = [head EXCEPT ![c] = @ + 1]
     \/ /\ head[c] >= fetched /\ term # 0
        /\ obs' = [obs EXCEPT ![c] = Append(@, term)]
        /\ UNCHANGED head
  /\ UNCHANGED <<fetched, term, refs, origStopped, uStopped, cst>>

Stop(c) ==
  /\ cst[c] = "active"
  /\ cst' = [cst EXCEPT ![c] = "stopped"]
  /\ refs' = refs - 1
  /\ uStopped' = (uStopped \/ refs' = 0)
  /\ UNCHANGED <<fetched, term, origStopped, head, obs>>

\* admission or idle timer: the storage item's instance is stopped and the item removed
TimerStop ==
  /\ ~origStopped
  /\ origStopped' = TRUE
  /\ refs' = refs - 1
  /\ uStopped' = (uStopped \/ refs' = 0)
  /\ UNCHANGED <<fetched, term, cst, head, obs>>

NextStep(U, TermU, B) == Fetch(U, TermU, B) \/ TimerStop \/ \E c \in Clones : Clone(c) \/ Next(U, c) \/ Stop(c)

----------------------------------------------------------------------------
Active == {c \in Clones : cst[c] = "active"}
TypeOK(U) == /\ fetched \in 0..Len(U) /\ term \in {0, -1, -2} /\ refs \in 0..(Cardinality(Clones) + 1)
          /\ \A c \in Clones : head[c] \in 0..fetched
\* every consumer sees the underlying sequence from the start, in order, with nothing skipped or repeated
ObsIsPrefix(U, TermU) == \A c \in Clones :
  LET o == obs[c] IN
  \A i \in 1..Len(o) : IF i <= Len(U) /\ i <= head[c] THEN o[i] = U[i] ELSE (o[i] = TermU /\ head[c] = Len(U))
\* a consumer is told "done" (or the error) only after it has seen every value
CompleteAtEnd(U) == \A c \in Clones : \A i \in 1..Len(obs[c]) : obs[c][i] < 0 => head[c] = Len(U) /\ i > Len(U)
RefCount == refs = Cardinality(Active) + (IF origStopped THEN 0 ELSE 1)
\* the underlying iterator is stopped exactly when the last reference goes, never while a clone can still read
NoUseAfterStop == uStopped <=> refs = 0
BufferAppendOnly == [][fetched' >= fetched /\ (term # 0 => term' = term /\ fetched' = fetched)]_vars
\* bound for exhaustive checking: a clone polls the terminal at most twice
ObsBound(U) == \A c \in Clones : Len(obs[c]) <= Len(U) + 2
=============================================================================
