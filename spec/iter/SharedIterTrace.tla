-------------------------- MODULE SharedIterTrace --------------------------
(***************************************************************************)
(* Trace validation of the real shared-iterator datastore against the       *)
(* SharedIter design.  A run uses one underlying sequence (u, termu) and    *)
(* the real chunk size b; consumers are numbered.  Because the storage item *)
(* is replaced after its timer fired, a run can go through several          *)
(* generations of shared iterators; each generation is one instance of the  *)
(* SharedIter state (fetched, term, refs, origStopped) and every clone      *)
(* belongs to one generation (or bypasses: generation 0).  Timer steps are  *)
(* not observable; they are inferred: a Clone that created a new underlying *)
(* iterator implies that the previous generation's item was stopped.        *)
(*                                                                         *)
(* Lines:  Reset(u, termu, b)                                               *)
(*         Clone(c, kind in {shared, bypass}, under = index of the          *)
(*               underlying iterator this call created, 0 if none)          *)
(*         Next(c, res) / Head(c, res) / Stop(c), each with                 *)
(*               calls = Next calls seen so far by the clone's underlying   *)
(*               iterator, stopped = indices of stopped underlying iterators*)
(*         CNext(c, res, fired): a Next whose caller is cancelled while the   *)
(*               underlying iterator is being read for it                    *)
(*         Consumer(obs, full): a goroutine's complete observation in a     *)
(*               concurrent run (full = it drained until the terminal)      *)
(***************************************************************************)
EXTENDS Integers, Sequences, FiniteSets, TLC, Json

Trace == ndJsonDeserialize("trace.ndjson")
VARIABLES l, u, termu, b,
          gens,   \* generation id (= index of its underlying iterator) -> [fetched, term, refs, origStopped]
          cur,    \* id of the generation new consumers join (0 = none yet)
          cg,     \* clone -> generation (0 = bypass)
          cst, head, bad, counts, judged
vars == <<l, u, termu, b, gens, cur, cg, cst, head, bad, counts, judged>>
Ev1 == Trace[l]
IsEvent(e) == l <= Len(Trace) /\ Trace[l].e = e /\ l' = l + 1
Bump(c, cls) == [x \in DOMAIN c \cup {cls} |-> IF x = cls THEN (IF x \in DOMAIN c THEN c[x] ELSE 0) + 1 ELSE c[x]]
Min(a, c) == IF a < c THEN a ELSE c
SeqToSet(s) == {s[i] : i \in DOMAIN s}
Upd(f, k, v) == [x \in DOMAIN f \cup {k} |-> IF x = k THEN v ELSE f[x]]

Init == /\ l = 1 /\ u = <<>> /\ termu = -1 /\ b = 1 /\ gens = <<>> /\ cur = 0 /\ cg = <<>> /\ cst = <<>> /\ head = <<>>
        /\ bad = <<>> /\ counts = [x \in {"OK"} |-> 0] /\ judged = 0

Judge(cls, ref) ==
  /\ counts' = Bump(counts, cls) /\ judged' = judged + 1
  /\ bad' = IF cls \in {"OK_SHARED_OP", "OK_SHARED_CLONE", "OK_CONSUMER"} THEN bad ELSE Append(bad, [l |-> l, cls |-> cls, ref |-> ref, note |-> ""])

\* SharedIter!Fetch repeated until the clone at position h can be served (deterministic)
RECURSIVE FetchClosure(_, _, _)
FetchClosure(f, t, h) ==
  IF h < f \/ t # 0 THEN <<f, t>>
  ELSE LET n == Min(b, Len(u) - f) IN FetchClosure(f + n, IF n < b THEN termu ELSE 0, h)

Active(g) == {c \in DOMAIN cst : cst[c] = "active" /\ cg[c] = g}

\* release checks shared by all operation lines: an underlying iterator is stopped only when no
\* clone of its generation can still read, and it is stopped once the last reference is gone
StoppedOK(G, S, ev) ==
  LET st == SeqToSet(ev.stopped) IN
  \A g \in DOMAIN G :
     /\ (g \in st => {c \in DOMAIN S : S[c] = "active" /\ cg[c] = g} = {})
     /\ (G[g].refs = 0 => g \in st)

TrReset ==
  /\ IsEvent("Reset")
  /\ u' = Ev1.u /\ termu' = Ev1.termu /\ b' = Ev1.b
  /\ gens' = <<>> /\ cur' = 0 /\ cg' = <<>> /\ cst' = <<>> /\ head' = <<>>
  /\ UNCHANGED <<bad, counts, judged>>

NewGen == [fetched |-> 0, term |-> 0, refs |-> 2, origStopped |-> FALSE]   \* the item's instance + the first clone
\* SharedIter!TimerStop on generation g (inferred)
TimerStopped(G, g) == IF g = 0 \/ G[g].origStopped THEN G ELSE Upd(G, g, [G[g] EXCEPT !.origStopped = TRUE, !.refs = @ - 1])

TrClone ==
  /\ IsEvent("Clone")
  /\ LET c == Ev1.c IN
     /\ cst' = Upd(cst, c, "active") /\ head' = Upd(head, c, 0)
     /\ IF Ev1.kind = "shared" /\ Ev1.under # 0 THEN          \* a new storage item: the previous one was removed by its timer
             /\ gens' = Upd(TimerStopped(gens, cur), Ev1.under, NewGen)
             /\ cur' = Ev1.under /\ cg' = Upd(cg, c, Ev1.under)
             /\ Judge("OK_SHARED_CLONE", "")
        ELSE IF Ev1.kind = "shared" THEN                        \* SharedIter!Clone on the current generation
             /\ cg' = Upd(cg, c, cur) /\ UNCHANGED cur
             /\ IF cur = 0 \/ gens[cur].origStopped
                THEN /\ Judge("BAD_SHARED_CLONE_OF_STOPPED", "") /\ UNCHANGED gens
                ELSE /\ gens' = Upd(gens, cur, [gens[cur] EXCEPT !.refs = @ + 1]) /\ Judge("OK_SHARED_CLONE", "")
        ELSE                                                    \* bypass: the item was stopped, the consumer reads the datastore itself
             /\ gens' = TimerStopped(gens, cur) /\ UNCHANGED cur
             /\ cg' = Upd(cg, c, 0)
             /\ IF Ev1.under = 0 THEN Judge("BAD_SHARED_BYPASS_WITHOUT_READ", "") ELSE Judge("OK_SHARED_CLONE", "")
  /\ UNCHANGED <<u, termu, b>>

\* Next / Head of clone c: fetch as needed (SharedIter!Fetch), then SharedIter!Next
TrOp(advance) ==
  LET c == Ev1.c
      g == cg[c]
      ft == IF g = 0 THEN <<Len(u), termu>> ELSE FetchClosure(gens[g].fetched, gens[g].term, head[c])
      want == IF cst[c] # "active" THEN -1
              ELSE IF head[c] < ft[1] THEN u[head[c] + 1] ELSE ft[2]
      G2 == IF g = 0 \/ cst[c] # "active" THEN gens ELSE Upd(gens, g, [gens[g] EXCEPT !.fetched = ft[1], !.term = ft[2]])
      wantCalls == IF g = 0 THEN Ev1.calls ELSE G2[g].fetched + (IF G2[g].term # 0 THEN 1 ELSE 0)
  IN
  /\ gens' = G2
  /\ head' = IF advance /\ cst[c] = "active" /\ want >= 0 THEN Upd(head, c, head[c] + 1) ELSE head
  /\ IF Ev1.res # want THEN Judge("BAD_SHARED_RESULT", ToString(want))
     ELSE IF Ev1.calls # wantCalls THEN Judge("BAD_SHARED_FETCH_COUNT", ToString(wantCalls))
     ELSE IF ~StoppedOK(G2, cst, Ev1) THEN Judge("BAD_SHARED_RELEASE", "")
     ELSE Judge("OK_SHARED_OP", "")
  /\ UNCHANGED <<u, termu, b, cur, cg, cst>>
TrNext == IsEvent("Next") /\ TrOp(TRUE)
TrHead == IsEvent("Head") /\ TrOp(FALSE)

\* CNext: a Next whose caller's context is cancelled at the moment the underlying iterator is read on
\* its behalf (fired = the underlying iterator was read during the call).  When the clone can be served
\* from what is already fetched nothing is read and the call is an ordinary Next.  Otherwise the fetch
\* belongs to the shared stream, not to the caller (SharedIter!Fetch has no consumer parameter): it
\* completes, the caller alone gets the cancellation (-98) and does not advance.
TrCNext ==
  /\ IsEvent("CNext")
  /\ LET c == Ev1.c
         g == cg[c]
         needs == g # 0 /\ cst[c] = "active" /\ ~(head[c] < gens[g].fetched \/ gens[g].term # 0)
     IN IF g = 0 \/ cst[c] # "active" THEN      \* a bypassing consumer reads its own iterator: its cancellation is its own
             /\ Judge("OK_SHARED_OP", "") /\ UNCHANGED <<gens, head, u, termu, b, cur, cg, cst>>
        ELSE IF ~needs THEN
             IF Ev1.fired THEN /\ Judge("BAD_SHARED_UNNEEDED_FETCH", "") /\ UNCHANGED <<gens, head, u, termu, b, cur, cg, cst>>
             ELSE TrOp(TRUE)
        ELSE LET ft == FetchClosure(gens[g].fetched, gens[g].term, head[c])
                 G2 == Upd(gens, g, [gens[g] EXCEPT !.fetched = ft[1], !.term = ft[2]])
                 wantCalls == G2[g].fetched + (IF G2[g].term # 0 THEN 1 ELSE 0)
             IN /\ gens' = G2 /\ UNCHANGED <<head, u, termu, b, cur, cg, cst>>
                /\ IF ~Ev1.fired THEN Judge("BAD_SHARED_FETCH_MISSING", "")
                   ELSE IF Ev1.res # -98 THEN Judge("BAD_SHARED_RESULT", "-98")
                   ELSE IF Ev1.calls # wantCalls THEN Judge("BAD_SHARED_CANCELLED_FETCH_ABORTED", ToString(wantCalls))
                   ELSE IF ~StoppedOK(G2, cst, Ev1) THEN Judge("BAD_SHARED_RELEASE", "")
                   ELSE Judge("OK_SHARED_OP", "")

\* SharedIter!Stop
TrStop ==
  /\ IsEvent("Stop")
  /\ LET c == Ev1.c
         g == cg[c]
         G2 == IF g = 0 \/ cst[c] # "active" THEN gens ELSE Upd(gens, g, [gens[g] EXCEPT !.refs = @ - 1])
         S2 == Upd(cst, c, "stopped")
     IN /\ gens' = G2 /\ cst' = S2
        /\ IF ~StoppedOK(G2, S2, Ev1) THEN Judge("BAD_SHARED_RELEASE", "") ELSE Judge("OK_SHARED_OP", "")
  /\ UNCHANGED <<u, termu, b, cur, cg, head>>

\* a goroutine's whole observation in a concurrent run: the values are a prefix of u in order; a
\* terminal is seen only after all of u; a consumer that drained saw everything
ConsumerOK(o, full) ==
  LET vals == SelectSeq(o, LAMBDA x : x >= 0) IN
  /\ Len(vals) <= Len(u) /\ \A i \in 1..Len(vals) : vals[i] = u[i]
  /\ \A i \in 1..Len(o) : o[i] < 0 => (o[i] = termu /\ Len(vals) = Len(u) /\ \A j \in i..Len(o) : o[j] < 0)
  /\ full => Len(vals) = Len(u)
TrConsumer ==
  /\ IsEvent("Consumer")
  /\ IF ConsumerOK(Ev1.obs, Ev1.full) THEN Judge("OK_CONSUMER", "") ELSE Judge("BAD_SHARED_CONSUMER_SEQUENCE", "")
  /\ UNCHANGED <<u, termu, b, gens, cur, cg, cst, head>>

TrEnd ==
  /\ IsEvent("End")
  /\ PrintT(<<"VERIF", "END", ToJson([l |-> l, judged |-> judged, skipped |-> 0, bad |-> bad, counts |-> counts])>>)
  /\ UNCHANGED <<u, termu, b, gens, cur, cg, cst, head, bad, counts, judged>>

Spec == Init /\ [][TrReset \/ TrClone \/ TrNext \/ TrHead \/ TrCNext \/ TrStop \/ TrConsumer \/ TrEnd]_vars
TraceAccepted == TLCGet("stats").diameter - 1 = Len(Trace)
=============================================================================
