SPECIFICATION Spec
CONSTANTS
  U <- U3
  TermU <- TDone
  B = 2
  CS = {c1, c2, c3}
INVARIANTS MCTypeOK MCObsIsPrefix MCCompleteAtEnd RefCount NoUseAfterStop
PROPERTIES BufferAppendOnly
CHECK_DEADLOCK FALSE
CONSTRAINT MCObsBound
