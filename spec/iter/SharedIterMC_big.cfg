SPECIFICATION Spec
CONSTANTS
  U <- U5
  TermU <- TDone
  B = 3
  CS = {c1, c2, c3}
INVARIANTS MCTypeOK MCObsIsPrefix MCCompleteAtEnd RefCount NoUseAfterStop
PROPERTIES BufferAppendOnly
CHECK_DEADLOCK FALSE
CONSTRAINT MCObsBound
