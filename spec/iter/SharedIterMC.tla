---------------------------- MODULE SharedIterMC ----------------------------
(* Design-level configuration of SharedIter: constants for exhaustive checking. *)
EXTENDS SharedIter
CONSTANTS U, TermU, B, CS
U3 == <<10, 11, 12>>
U4 == <<10, 11, 12, 13>>
U5 == <<10, 11, 12, 13, 14>>
TDone == -1
TErr == -2
Init == InitFor(CS)
Spec == Init /\ [][NextStep(U, TermU, B)]_vars
MCTypeOK == TypeOK(U)
MCObsIsPrefix == ObsIsPrefix(U, TermU)
MCCompleteAtEnd == CompleteAtEnd(U)
MCObsBound == ObsBound(U)
=============================================================================
