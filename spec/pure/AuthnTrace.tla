------------------------------ MODULE AuthnTrace ------------------------------
(***************************************************************************)
(* C27: authentication accepts exactly valid credentials.  Each line is a  *)
(* credential described by its attributes and the real authenticator's     *)
(* verdict.                                                                *)
(*  preshared: how the presented bearer relates to the configured keys      *)
(*  oidc: alg, signing key, exp, iat, aud, iss, sub, whether subjects are   *)
(*        configured                                                        *)
(***************************************************************************)
EXTENDS Integers, Sequences, FiniteSets, TLC, Json

Trace == ndJsonDeserialize("trace.ndjson")
VARIABLES l, bad, counts, judged
vars == <<l, bad, counts, judged>>
Ev1 == Trace[l]
Bump(c, cls) == [x \in DOMAIN c \cup {cls} |-> IF x = cls THEN (IF x \in DOMAIN c THEN c[x] ELSE 0) + 1 ELSE c[x]]
Init == l = 1 /\ bad = <<>> /\ counts = [x \in {"OK"} |-> 0] /\ judged = 0

\* a bearer token authenticates iff it equals one of the configured keys
PresharedOK(ev) == ev.rel = "equal"

\* RS256-signed by a key of the issuer's key set, unexpired expiry present, not issued in
\* the future, configured audience, configured issuer or alias, allowed subject if configured
OidcOK(ev) ==
  /\ ev.alg = "RS256" /\ ev.key = "jwks"
  /\ ev.exp = "future"
  /\ ev.iat \in {"absent", "past"}
  /\ ev.aud \in {"match", "list"}
  /\ ev.iss \in {"main", "alias"}
  /\ ev.subjects => ev.sub = "allowed"

TrCase ==
  /\ l <= Len(Trace) /\ Ev1.e \in {"Preshared", "Oidc"} /\ l' = l + 1
  /\ LET want == IF Ev1.e = "Preshared" THEN PresharedOK(Ev1) ELSE OidcOK(Ev1)
         c == IF want = Ev1.accepted THEN (IF want THEN "OK_ACCEPT" ELSE "OK_REJECT")
              ELSE IF Ev1.accepted THEN "BAD_AUTHN_ACCEPTED" ELSE "BAD_AUTHN_REJECTED"
     IN /\ counts' = Bump(counts, c) /\ judged' = judged + 1
        /\ bad' = IF want = Ev1.accepted THEN bad ELSE Append(bad, [l |-> l, cls |-> c, ref |-> ToString(Ev1), note |-> ""])
TrEnd ==
  /\ l <= Len(Trace) /\ Ev1.e = "End" /\ l' = l + 1
  /\ PrintT(<<"VERIF", "END", ToJson([l |-> l, judged |-> judged, skipped |-> 0, bad |-> bad, counts |-> counts])>>)
  /\ UNCHANGED <<bad, counts, judged>>
Spec == Init /\ [][TrCase \/ TrEnd]_vars
TraceAccepted == TLCGet("stats").diameter - 1 = Len(Trace)
=============================================================================
