------------------------------- MODULE Grammar -------------------------------
(***************************************************************************)
(* The documented string grammar of objects, relations, users and usersets *)
(* (C29): "one type prefix, at most one relation, no spaces or control     *)
(* characters".  Strings are sequences of character classes:               *)
(*   "a" ordinary character   "m" multi-byte (non-control) character       *)
(*   ":" "#" "@" " " "*"      the separators, the space, the wildcard star  *)
(*   "c" a control character                                               *)
(***************************************************************************)
EXTENDS Integers, Sequences, FiniteSets

Count(s, ch)    == Cardinality({i \in DOMAIN s : s[i] = ch})
Has(s, ch)      == \E i \in DOMAIN s : s[i] = ch
Pos(s, ch)      == CHOOSE i \in DOMAIN s : s[i] = ch /\ \A j \in DOMAIN s : s[j] = ch => i <= j   \* first occurrence
LastPos(s, ch)  == CHOOSE i \in DOMAIN s : s[i] = ch /\ \A j \in DOMAIN s : s[j] = ch => j <= i
Clean(s)        == ~Has(s, "c") /\ ~Has(s, " ")

\* type:id      exactly one ':' after a non-empty type, a non-empty id, no '#'
ValidObject(s) ==
  /\ Clean(s) /\ ~Has(s, "#")
  /\ Count(s, ":") = 1 /\ Pos(s, ":") > 1 /\ Pos(s, ":") < Len(s)

\* a relation name: non-empty, none of the separators
ValidRelation(s) == Len(s) > 0 /\ Clean(s) /\ ~Has(s, "#") /\ ~Has(s, ":") /\ ~Has(s, "@")

\* a bare user id (schema 1.0 style): non-empty, no separators
ValidUserID(s) == Len(s) > 0 /\ Clean(s) /\ ~Has(s, "#") /\ ~Has(s, ":")

\* type:id#relation   one ':' then one '#', all three parts non-empty, no '*' in id or relation
ValidUserset(s) ==
  /\ Clean(s)
  /\ Count(s, ":") = 1 /\ Count(s, "#") = 1
  /\ Pos(s, ":") > 1 /\ Pos(s, "#") > Pos(s, ":") + 1 /\ Pos(s, "#") < Len(s)
  /\ \A i \in DOMAIN s : i > Pos(s, ":") => s[i] # "*"

ValidUser(s) == s = <<"*">> \/ ValidUserID(s) \/ ValidObject(s) \/ ValidUserset(s)

TypedWildcard(s) == Has(s, ":") /\ Pos(s, ":") > 1 /\ SubSeq(s, Pos(s, ":") + 1, Len(s)) = <<"*">>

\* Parsing positions: lengths of (type, id) of an object string and of (object, relation) of a userset string
ObjTypeLen(s) == IF Has(s, ":") THEN Pos(s, ":") - 1 ELSE 0
ObjIdLen(s)   == IF Has(s, ":") THEN Len(s) - Pos(s, ":") ELSE Len(s)
\* SplitObjectRelation: at the LAST '#'; a trailing '#' yields an empty relation
UsObjLen(s)   == IF Has(s, "#") THEN LastPos(s, "#") - 1 ELSE Len(s)
UsRelLen(s)   == IF Has(s, "#") THEN Len(s) - LastPos(s, "#") ELSE 0
=============================================================================
