---------------------------- MODULE HostileTrace ----------------------------
(***************************************************************************)
(* C19: malformed or hostile input never crashes the server.  One line per *)
(* request issued against a real server in a child process with a hostile  *)
(* payload (model, request, stored tuple or context):                      *)
(*   kind     what was sent                                                *)
(*   outcome  "ok" (a normal answer), "rejected" (a validation / not-found *)
(*            / precondition error), "internal" (an internal error code),  *)
(*            "panic" (a panic surfaced on the calling goroutine), "died"  *)
(*            (the process ended: a panic escaped the request), "hang"     *)
(*   wall, deadline, slack (ms), heapgrowth (MiB retained after the call)  *)
(***************************************************************************)
EXTENDS Integers, Sequences, FiniteSets, TLC, Json

Trace == ndJsonDeserialize("trace.ndjson")
VARIABLES l, bad, counts, judged
vars == <<l, bad, counts, judged>>
Ev1 == Trace[l]
Bump(c, cls) == [x \in DOMAIN c \cup {cls} |-> IF x = cls THEN (IF x \in DOMAIN c THEN c[x] ELSE 0) + 1 ELSE c[x]]
Init == l = 1 /\ bad = <<>> /\ counts = [x \in {"OK"} |-> 0] /\ judged = 0

HeapLimit == 512
Class(ev) ==
  IF ev.outcome = "died" THEN "BAD_HOSTILE_PROCESS_DIED"
  ELSE IF ev.outcome = "panic" THEN "BAD_HOSTILE_PANIC"
  \* a ListObjects that never returns on the streaming pipeline is known finding KF-6 (decided precisely,
  \* from the recorded topology, by C21); here it is attributed to it whenever the pipeline served the request
  ELSE IF ev.outcome = "hang" /\ ev.pipelinecond THEN "KF_PipelineCycleHang"
  ELSE IF ev.outcome = "hang" \/ ev.wall > ev.deadline + ev.slack THEN "BAD_HOSTILE_HANG"
  ELSE IF ev.heapgrowth > HeapLimit THEN "BAD_HOSTILE_MEMORY"
  ELSE IF ev.outcome = "internal" THEN
         \* known finding: the streaming pipeline reports a condition that cannot be evaluated as an internal error
         (IF ev.pipelinecond THEN "KF_PipelineCondInternal"
          \* known finding KF-23: a tuple with malformed fields that reached the store behind the API's back
          \* makes later ListObjects / Read requests on that store fail with an internal error
          ELSE IF ev.hostilestore THEN "KF_MalformedStoredTupleInternalError"
          ELSE "BAD_HOSTILE_INTERNAL_ERROR")
  ELSE IF ev.outcome = "ok" THEN "OK_ANSWERED" ELSE "OK_REJECTED"

TrCase ==
  /\ l <= Len(Trace) /\ Ev1.e = "Hostile" /\ l' = l + 1
  /\ LET c == Class(Ev1) IN
     /\ counts' = Bump(counts, c) /\ judged' = judged + 1
     /\ bad' = IF c \in {"OK_ANSWERED", "OK_REJECTED"} THEN bad ELSE Append(bad, [l |-> l, cls |-> c, ref |-> Ev1.kind, note |-> Ev1.outcome])
TrEnd ==
  /\ l <= Len(Trace) /\ Ev1.e = "End" /\ l' = l + 1
  /\ PrintT(<<"VERIF", "END", ToJson([l |-> l, judged |-> judged, skipped |-> 0, bad |-> bad, counts |-> counts])>>)
  /\ UNCHANGED <<bad, counts, judged>>
Spec == Init /\ [][TrCase \/ TrEnd]_vars
TraceAccepted == TLCGet("stats").diameter - 1 = Len(Trace)
=============================================================================
