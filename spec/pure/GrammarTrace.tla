---------------------------- MODULE GrammarTrace ----------------------------
(* Each line: a class string s and what the real pkg/tuple functions said about its
   instantiation: validity vector, split positions, round trips (C29). *)
EXTENDS Grammar, Json, TLC

Trace == ndJsonDeserialize("trace.ndjson")
VARIABLES l, bad, counts, judged
vars == <<l, bad, counts, judged>>
Ev1 == Trace[l]
Bump(c, cls) == [x \in DOMAIN c \cup {cls} |-> IF x = cls THEN (IF x \in DOMAIN c THEN c[x] ELSE 0) + 1 ELSE c[x]]

Init == l = 1 /\ bad = <<>> /\ counts = [x \in {"OK"} |-> 0] /\ judged = 0

Class(ev) ==
  LET s == ev.s IN
  IF ev.obj # ValidObject(s) THEN "BAD_VALID_OBJECT"
  ELSE IF ev.rel # ValidRelation(s) THEN "BAD_VALID_RELATION"
  ELSE IF ev.uid # ValidUserID(s) THEN "BAD_VALID_USERID"
  ELSE IF ev.uset # ValidUserset(s) THEN "BAD_VALID_USERSET"
  ELSE IF ev.user # ValidUser(s) THEN "BAD_VALID_USER"
  ELSE IF ev.twild # (TypedWildcard(s)) THEN "BAD_TYPED_WILDCARD"
  ELSE IF ev.tlen # ObjTypeLen(s) \/ ev.idlen # ObjIdLen(s) THEN "BAD_SPLIT_OBJECT"
  ELSE IF ev.olen # UsObjLen(s) \/ ev.rlen # UsRelLen(s) THEN "BAD_SPLIT_OBJECT_RELATION"
  \* rendering the parsed parts gives the string back for every valid object / userset
  ELSE IF ValidObject(s) /\ ~ev.rtobj THEN "BAD_ROUNDTRIP_OBJECT"
  ELSE IF ValidUserset(s) /\ ~ev.rtuset THEN "BAD_ROUNDTRIP_USERSET"
  \* structured <-> string user conversion is lossless for typed users
  ELSE IF (ValidObject(s) \/ ValidUserset(s)) /\ ~ev.rtuser THEN "BAD_ROUNDTRIP_USER"
  \* a tuple string object#relation@user parses back to its parts when the parts are valid
  ELSE IF ev.tupleok # ValidUser(s) THEN "BAD_TUPLE_PARSE"
  ELSE "OK"

TrCase ==
  /\ l <= Len(Trace) /\ Ev1.e = "Str" /\ l' = l + 1
  /\ LET c == Class(Ev1) IN
     /\ counts' = Bump(counts, c) /\ judged' = judged + 1
     /\ bad' = IF c = "OK" THEN bad ELSE Append(bad, [l |-> l, cls |-> c, ref |-> ToString(Ev1.s), note |-> ""])
TrEnd ==
  /\ l <= Len(Trace) /\ Ev1.e = "End" /\ l' = l + 1
  /\ PrintT(<<"VERIF", "END", ToJson([l |-> l, judged |-> judged, skipped |-> 0, bad |-> bad, counts |-> counts])>>)
  /\ UNCHANGED <<bad, counts, judged>>
Spec == Init /\ [][TrCase \/ TrEnd]_vars
TraceAccepted == TLCGet("stats").diameter - 1 = Len(Trace)
=============================================================================
