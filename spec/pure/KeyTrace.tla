------------------------------- MODULE KeyTrace -------------------------------
(***************************************************************************)
(* C24: cache keys distinguish exactly the answer-relevant inputs.          *)
(* Each line carries two abstract key inputs x, y of one kind and whether   *)
(* the real key functions produced equal keys.  Semantic equality is        *)
(* equality after forgetting the order of the collections that are sets by  *)
(* meaning (contextual tuples, filter lists, condition lists); context      *)
(* structs are records (field order does not exist), lists inside context   *)
(* values keep their order.                                                 *)
(***************************************************************************)
EXTENDS Integers, Sequences, FiniteSets, TLC, Json

Trace == ndJsonDeserialize("trace.ndjson")
VARIABLES l, bad, counts, judged
vars == <<l, bad, counts, judged>>
Ev1 == Trace[l]
Bump(c, cls) == [x \in DOMAIN c \cup {cls} |-> IF x = cls THEN (IF x \in DOMAIN c THEN c[x] ELSE 0) + 1 ELSE c[x]]
SetOf(s) == {s[i] : i \in DOMAIN s}

\* equality of tagged JSON values (TLC cannot compare values of different shapes, so the
\* kind tags are compared first)
RECURSIVE VEq(_, _)
VEq(a, b) ==
  /\ a.k = b.k
  /\ CASE a.k \in {"num", "str", "bool"} -> a.v = b.v
       [] a.k = "list" -> Len(a.v) = Len(b.v) /\ \A i \in DOMAIN a.v : VEq(a.v[i], b.v[i])
       [] a.k = "map"  -> DOMAIN a.v = DOMAIN b.v /\ \A f \in DOMAIN a.v : VEq(a.v[f], b.v[f])
       [] OTHER -> TRUE
CtxEq(c, d) == DOMAIN c = DOMAIN d /\ \A f \in DOMAIN c : VEq(c[f], d[f])
TupEq(t, w) == t.o = w.o /\ t.r = w.r /\ t.u = w.u /\ t.c = w.c /\ CtxEq(t.cctx, w.cctx)
TupSetEq(X, Y) == (\A t \in X : \E w \in Y : TupEq(t, w)) /\ (\A w \in Y : \E t \in X : TupEq(t, w))

SemEq(kind, x, y) ==
  CASE kind = "check" -> /\ x.store = y.store /\ x.model = y.model /\ x.o = y.o /\ x.r = y.r /\ x.u = y.u
                         /\ CtxEq(x.ctx, y.ctx) /\ TupSetEq(SetOf(x.ctxt), SetOf(y.ctxt))
    [] kind = "read"  -> /\ x.store = y.store /\ x.o = y.o /\ x.r = y.r /\ x.u = y.u /\ SetOf(x.conds) = SetOf(y.conds)
    [] kind = "rswu"  -> /\ x.store = y.store /\ x.ot = y.ot /\ x.r = y.r /\ SetOf(x.users) = SetOf(y.users)
                         /\ x.hasoids = y.hasoids /\ (x.hasoids => SetOf(x.oids) = SetOf(y.oids))
                         /\ SetOf(x.conds) = SetOf(y.conds)
    [] kind = "rut"   -> /\ x.store = y.store /\ x.o = y.o /\ x.r = y.r /\ SetOf(x.restr) = SetOf(y.restr)
                         /\ SetOf(x.conds) = SetOf(y.conds)

Init == l = 1 /\ bad = <<>> /\ counts = [x \in {"OK"} |-> 0] /\ judged = 0
TrCase ==
  /\ l <= Len(Trace) /\ Ev1.e = "Key" /\ l' = l + 1
  /\ LET sem == SemEq(Ev1.kind, Ev1.x, Ev1.y)
         c == IF sem = Ev1.keyeq THEN (IF sem THEN "OK_EQUAL" ELSE "OK_DISTINCT")
              \* known finding KF-11: an empty but present object-id set (= "intersect with nothing")
              \* and an absent one (= no restriction) get the same ReadStartingWithUser key
              ELSE IF Ev1.keyeq /\ Ev1.kind = "rswu" /\ Ev1.x.hasoids # Ev1.y.hasoids
                      /\ SetOf(Ev1.x.oids) = {} /\ SetOf(Ev1.y.oids) = {}
                      /\ SemEq("rswu", [Ev1.x EXCEPT !.hasoids = FALSE], [Ev1.y EXCEPT !.hasoids = FALSE])
                   THEN "KF_RswuEmptyObjectIDsKey"
              ELSE IF Ev1.keyeq THEN "BAD_KEY_COLLISION" ELSE "BAD_KEY_SPLIT"
     IN /\ counts' = Bump(counts, c) /\ judged' = judged + 1
        /\ bad' = IF sem = Ev1.keyeq THEN bad ELSE Append(bad, [l |-> l, cls |-> c, ref |-> Ev1.kind, note |-> Ev1.how])
TrEnd ==
  /\ l <= Len(Trace) /\ Ev1.e = "End" /\ l' = l + 1
  /\ PrintT(<<"VERIF", "END", ToJson([l |-> l, judged |-> judged, skipped |-> 0, bad |-> bad, counts |-> counts])>>)
  /\ UNCHANGED <<bad, counts, judged>>
Spec == Init /\ [][TrCase \/ TrEnd]_vars
TraceAccepted == TLCGet("stats").diameter - 1 = Len(Trace)
=============================================================================
