------------------------------ MODULE TokenTrace ------------------------------
(***************************************************************************)
(* C28: continuation tokens.  State: the tokens issued so far, each with   *)
(* the position (ulid, object type) it encodes and the key it was issued   *)
(* under ("" = no encryption key configured).  A presented token - an      *)
(* issued one, a byte-level mutation of one, or one presented under        *)
(* another key - must decode to exactly the position of the token it was   *)
(* derived from, or be rejected; under a key, anything else is a forgery.  *)
(* The cipher itself is not modelled (set-membership abstraction).         *)
(***************************************************************************)
EXTENDS Integers, Sequences, FiniteSets, TLC, Json

Trace == ndJsonDeserialize("trace.ndjson")
VARIABLES l, issued, bad, counts, judged
vars == <<l, issued, bad, counts, judged>>
Ev1 == Trace[l]
Bump(c, cls) == [x \in DOMAIN c \cup {cls} |-> IF x = cls THEN (IF x \in DOMAIN c THEN c[x] ELSE 0) + 1 ELSE c[x]]
Init == l = 1 /\ issued = [x \in {} |-> 0] /\ bad = <<>> /\ counts = [x \in {"OK"} |-> 0] /\ judged = 0

Judge(c, note) ==
  /\ counts' = Bump(counts, c) /\ judged' = judged + 1
  /\ bad' = IF c \in {"OK", "OK_REJECTED", "OK_SAME_POSITION", "OK_UNKEYED"} THEN bad
            ELSE Append(bad, [l |-> l, cls |-> c, ref |-> note, note |-> ""])

TrIssue ==
  /\ l <= Len(Trace) /\ Ev1.e = "Issue" /\ l' = l + 1
  /\ issued' = [x \in DOMAIN issued \cup {Ev1.id} |-> IF x = Ev1.id THEN [ulid |-> Ev1.ulid, typ |-> Ev1.typ, key |-> Ev1.key] ELSE issued[x]]
  /\ Judge(IF Ev1.rt THEN "OK" ELSE "BAD_ROUNDTRIP", Ev1.ulid)

TrPresent ==
  /\ l <= Len(Trace) /\ Ev1.e = "Present" /\ l' = l + 1
  /\ UNCHANGED issued
  /\ LET tok == issued[Ev1.id]
         same == Ev1.ulid = tok.ulid /\ Ev1.typ = tok.typ
         c == IF ~Ev1.accepted THEN (IF ~Ev1.mutated /\ Ev1.key = tok.key THEN "BAD_GENUINE_REJECTED" ELSE "OK_REJECTED")
              ELSE IF Ev1.key = "" /\ (Ev1.mutated \/ tok.key # "") THEN "OK_UNKEYED"   \* no key configured: no integrity claim
              ELSE IF Ev1.key # tok.key THEN "BAD_FOREIGN_KEY_ACCEPTED"
              ELSE IF same THEN (IF Ev1.mutated THEN "OK_SAME_POSITION" ELSE "OK")
              ELSE IF Ev1.key = "" THEN "OK_UNKEYED"
              ELSE "BAD_TAMPERED_DECODES_ELSEWHERE"
     IN Judge(c, Ev1.how)

TrEnd ==
  /\ l <= Len(Trace) /\ Ev1.e = "End" /\ l' = l + 1
  /\ PrintT(<<"VERIF", "END", ToJson([l |-> l, judged |-> judged, skipped |-> 0, bad |-> bad, counts |-> counts])>>)
  /\ UNCHANGED <<issued, bad, counts, judged>>
Spec == Init /\ [][TrIssue \/ TrPresent \/ TrEnd]_vars
TraceAccepted == TLCGet("stats").diameter - 1 = Len(Trace)
=============================================================================
