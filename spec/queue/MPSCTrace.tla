------------------------------ MODULE MPSCTrace ------------------------------
(***************************************************************************)
(* Conformance of the real mpsc.Accumulator to MPSC.tla (C22): gated runs  *)
(* of the real code, one Step event per scheduling point with the          *)
(* accumulator's state after the step (values linked after the consumer's  *)
(* position, end sentinel linked, head nil, closed, signal tokens).        *)
(***************************************************************************)
EXTENDS MPSC, Json

Trace == ndJsonDeserialize("trace.ndjson")

VARIABLES l, mode, bad, counts, judged
tvars == <<l, mode, bad, counts, judged>>
Ev1 == Trace[l]

Bump(c, cls) == [x \in DOMAIN c \cup {cls} |-> IF x = cls THEN (IF x \in DOMAIN c THEN c[x] ELSE 0) + 1 ELSE c[x]]
Note(cls, note) ==
  /\ counts' = Bump(counts, cls) /\ judged' = judged + 1
  /\ bad' = IF cls \in {"OK_RUN", "OK_STEP"} THEN bad ELSE Append(bad, [l |-> l, cls |-> cls, ref |-> note, note |-> ""])

TInit == Init /\ l = 1 /\ mode = "ok" /\ bad = <<>> /\ counts = [x \in {"OK_RUN"} |-> 0] /\ judged = 0

StepOf(p, lab) ==
  /\ pc[p] = lab
  /\ IF p \in Producers THEN prod(p) ELSE IF p = Consumer THEN cons ELSE closer(p)

Matches(st) ==
  /\ ChainFrom(tailN)' = [i \in DOMAIN st.chain |-> <<st.chain[i].p, st.chain[i].k>>]
  /\ EndLinked' = st.endLinked
  /\ (headN' = Nil) = st.headNil
  /\ closed' = st.closed
  /\ sigB' = st.sig

Outcome(ev) ==
  /\ ev.l = "B_park" => (ev.blocked <=> pc'[ev.p] = "B_parked")
  /\ ev.l = "B_ret" => (IF ev.ok THEN ok' /\ val' = <<ev.ret.p, ev.ret.k>> ELSE ~ok')
  /\ ev.l = "A_ret" => (sent[ev.p] = ev.ok)

Good(ev) == StepOf(ev.p, ev.l) /\ Matches(ev.st) /\ Outcome(ev)

ResetState ==
  /\ next' = [n \in Nodes |-> Nil] /\ headN' = S0 /\ tailN' = S0 /\ closed' = FALSE /\ doneCh' = FALSE
  /\ sigB' = 0 /\ waiting' = FALSE /\ delivered' = <<>> /\ okSent' = {}
  /\ k' = [self \in Producers |-> 0] /\ cur' = [self \in Producers |-> Nil] /\ sent' = [self \in Producers |-> FALSE]
  /\ got' = 0 /\ nn' = Nil /\ val' = Nil /\ ok' = FALSE
  /\ old' = [self \in Closers |-> Nil]
  /\ pc' = [self \in ProcSet |-> CASE self \in Producers -> "ALoop" [] self = Consumer -> "BLoop" [] self \in Closers -> "K_wait"]

TrReset == /\ l <= Len(Trace) /\ Ev1.e = "Reset" /\ l' = l + 1 /\ ResetState /\ mode' = "ok" /\ UNCHANGED <<bad, counts, judged>>
TrStepOK == /\ l <= Len(Trace) /\ Ev1.e = "Step" /\ mode = "ok" /\ l' = l + 1 /\ Good(Ev1) /\ mode' = "ok" /\ UNCHANGED <<bad, counts, judged>>
TrStepDiverge ==
  /\ l <= Len(Trace) /\ Ev1.e = "Step" /\ mode = "ok" /\ l' = l + 1
  /\ ~ENABLED Good(Ev1)
  /\ mode' = "skip" /\ UNCHANGED vars /\ Note("DIVERGED", ToString(<<Ev1.p, Ev1.l, pc[Ev1.p]>>))
TrStepSkip == /\ l <= Len(Trace) /\ Ev1.e = "Step" /\ mode = "skip" /\ l' = l + 1 /\ UNCHANGED vars /\ UNCHANGED <<mode, bad, counts, judged>>

AllDone == \A p \in ProcSet : pc[p] = "Done"
TrEnd ==
  /\ l <= Len(Trace) /\ Ev1.e = "RunEnd" /\ l' = l + 1 /\ UNCHANGED vars /\ mode' = mode
  /\ IF mode = "skip" THEN UNCHANGED <<bad, counts, judged>>
     ELSE IF Ev1.finished THEN Note(IF AllDone /\ PerProducerFifo /\ NoLoss THEN "OK_RUN" ELSE "BAD_END_MISMATCH", "")
     ELSE IF Stuck THEN Note("BAD_LOST_WAKEUP", "")
     ELSE Note("BAD_DEADLOCK", ToString(pc))

TrFinal ==
  /\ l <= Len(Trace) /\ Ev1.e = "End" /\ l' = l + 1
  /\ PrintT(<<"VERIF", "END", ToJson([l |-> l, judged |-> judged, skipped |-> 0, bad |-> bad, counts |-> counts])>>)
  /\ UNCHANGED vars /\ UNCHANGED <<mode, bad, counts, judged>>

TNext == TrReset \/ TrStepOK \/ TrStepDiverge \/ TrStepSkip \/ TrEnd \/ TrFinal
TSpec == TInit /\ [][TNext]_<<vars, tvars>>
TraceAccepted == TLCGet("stats").diameter - 1 = Len(Trace)
=============================================================================
