SPECIFICATION Spec
CONSTANTS
  Producers = {p1, p2}
  Consumers = {c1, c2}
  Closers = {}
  Cap0 = 2
  Extensions = 0
  ItemsPer = 1
  RecvPer = 1
INVARIANTS FifoData DrainBeforeClosed RingOK NoSendAfterClose NoLostWakeup
