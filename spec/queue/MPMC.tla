-------------------------------- MODULE MPMC --------------------------------
(***************************************************************************)
(* internal/containers/mpmc/queue.go: Vyukov bounded MPMC ring under a     *)
(* read/write mutex with two single-token wake-up channels, buffer         *)
(* doubling and Close (C22).                                               *)
(*                                                                         *)
(* One PlusCal label per scheduling point of the instrumented code: label  *)
(* X is the code executed from verifhook.Yield("X") up to the next Yield,  *)
(* so a behaviour of this spec is a schedule the Go driver can replay      *)
(* step by step on the real queue (Binding B), comparing head, tail,       *)
(* capacity, the slot sequence numbers, the channel tokens and done after  *)
(* every step.                                                             *)
(*                                                                         *)
(* Go channel semantics of the buffered(1) token channels: a non-blocking  *)
(* send hands the token to a receiver already blocked on the channel,      *)
(* otherwise fills the buffer, otherwise is dropped; a receive takes a     *)
(* buffered token, returns at once on a closed channel, otherwise blocks.  *)
(***************************************************************************)
EXTENDS Integers, Sequences, FiniteSets, TLC

CONSTANTS Producers, Consumers, Closers,
          Cap0,        \* initial capacity (power of two >= 2)
          Extensions,  \* how many times Send may double the buffer
          ItemsPer,    \* Send calls per producer
          RecvPer      \* Recv calls per consumer

(* --algorithm mpmc
variables
  capacity = Cap0, extended = 0,
  seq = [i \in 0..Cap0-1 |-> i],
  dat = [i \in 0..Cap0-1 |-> <<>>],
  head = 0, tail = 0,
  done = FALSE,
  readers = 0, writer = FALSE,
  fullB = 0, emptyB = 0,          \* tokens buffered in the full / empty channels
  waitF = {}, waitE = {},          \* goroutines blocked receiving from full / empty
  chClosed = FALSE,
  chanq = <<>>,                    \* ghost: items claimed by senders (head CAS order) not yet claimed by a receiver
  results = <<>>;                  \* ghost: outcome of every finished call, in completion order

define
  Mask(x) == x % capacity
end define;

macro RLock()   begin await ~writer; readers := readers + 1; end macro;
macro RUnlock() begin readers := readers - 1; end macro;
macro WLock()   begin await ~writer /\ readers = 0; writer := TRUE; end macro;
macro WUnlock() begin writer := FALSE; end macro;

\* the body of extend(n) (caller holds the write lock)
macro Extend(n) begin
  seq := [i \in 0..n-1 |-> IF i < head - tail THEN i + 1 ELSE i];
  dat := [i \in 0..n-1 |-> IF i < head - tail THEN dat[(tail + i) % capacity] ELSE <<>>];
  head := head - tail;
  tail := 0;
  extended := extended + 1;
  capacity := n;
end macro;

process prod \in Producers
variables pos = 0, s = 0, k = 0, item = <<>>, capSnap = 0, extSnap = 0;
begin
PLoop:  while k < ItemsPer do
          item := <<self, k + 1>>;
S_rl:     RLock();
S_chk:    if done then goto S_fail; end if;
S_ld:     pos := head;
          if done then goto S_fail; end if;
S_seq:    s := seq[Mask(pos)];
          if s - pos = 0 then
S_cas:      if head = pos then
              head := pos + 1;
              chanq := Append(chanq, item);
S_wr:         dat[Mask(pos)] := item;
S_pub:        seq[Mask(pos)] := pos + 1;
S_sig:        if waitE # {} then
                with r \in waitE do waitE := waitE \ {r}; end with;
              elsif emptyB = 0 then emptyB := 1;
              end if;
S_ok:         RUnlock(); results := Append(results, <<"send", self, TRUE>>); k := k + 1; goto PLoop;
            else
              if done then goto S_fail; else goto S_seq; end if;
            end if;
          elsif s - pos < 0 then
            capSnap := capacity; extSnap := extended;
S_ru:       RUnlock();
            if extSnap < Extensions then
S_xl:         WLock();
S_ext:        if capSnap = capacity /\ ~done then
                Extend(capacity * 2);
              end if;
S_xu:         WUnlock();
            else
S_park:       if fullB > 0 then fullB := 0;
              elsif ~chClosed then
                waitF := waitF \cup {self};
S_parked:       await self \notin waitF;
              end if;
            end if;
S_rl2:      RLock();
S_ld2:      pos := head;
            if done then goto S_fail; else goto S_seq; end if;
          else
S_re:       pos := head;
            if done then goto S_fail; else goto S_seq; end if;
          end if;
S_fail:   RUnlock(); results := Append(results, <<"send", self, FALSE>>); k := k + 1;
        end while;
end process;

process cons \in Consumers
variables cpos = 0, cs = 0, got = 0, v = <<>>, expect = <<>>;
begin
CLoop:  while got < RecvPer do
R_rl:     RLock();
R_ld:     cpos := tail;
R_seq:    cs := seq[Mask(cpos)];
          if cs - (cpos + 1) = 0 then
R_cas:      if tail = cpos then
              tail := cpos + 1;
              expect := Head(chanq); chanq := Tail(chanq);
R_rd:         v := dat[Mask(cpos)]; dat[Mask(cpos)] := <<>>;
R_rec:        seq[Mask(cpos)] := cpos + capacity;
R_sig:        if ~done then
                if waitF # {} then
                  with r \in waitF do waitF := waitF \ {r}; end with;
                elsif fullB = 0 then fullB := 1;
                end if;
              end if;
R_ok:         RUnlock(); results := Append(results, <<"recv", self, v>>); got := got + 1; goto CLoop;
            else
              goto R_seq;
            end if;
          elsif cs - (cpos + 1) < 0 then
R_dn:       if done then
R_fail:       RUnlock(); results := Append(results, <<"recv", self, "closed">>); got := got + 1; goto CLoop;
            end if;
R_ru:       RUnlock();
R_park:     if emptyB > 0 then emptyB := 0;
            elsif ~chClosed then
              waitE := waitE \cup {self};
R_parked:     await self \notin waitE;
            end if;
R_rl2:      RLock();
R_ld2:      cpos := tail; goto R_seq;
          else
R_re:       cpos := tail; goto R_seq;
          end if;
        end while;
end process;

process closer \in Closers
begin
C_l:    WLock();
C_cl:   if ~done then
          done := TRUE; chClosed := TRUE; waitE := {}; waitF := {};
        end if;
C_ok:   WUnlock();
end process;
end algorithm; *)
\* BEGIN TRANSLATION
VARIABLES pc, capacity, extended, seq, dat, head, tail, done, readers, writer, 
          fullB, emptyB, waitF, waitE, chClosed, chanq, results

(* define statement *)
Mask(x) == x % capacity

VARIABLES pos, s, k, item, capSnap, extSnap, cpos, cs, got, v, expect

vars == << pc, capacity, extended, seq, dat, head, tail, done, readers, 
           writer, fullB, emptyB, waitF, waitE, chClosed, chanq, results, pos, 
           s, k, item, capSnap, extSnap, cpos, cs, got, v, expect >>

ProcSet == (Producers) \cup (Consumers) \cup (Closers)

Init == (* Global variables *)
        /\ capacity = Cap0
        /\ extended = 0
        /\ seq = [i \in 0..Cap0-1 |-> i]
        /\ dat = [i \in 0..Cap0-1 |-> <<>>]
        /\ head = 0
        /\ tail = 0
        /\ done = FALSE
        /\ readers = 0
        /\ writer = FALSE
        /\ fullB = 0
        /\ emptyB = 0
        /\ waitF = {}
        /\ waitE = {}
        /\ chClosed = FALSE
        /\ chanq = <<>>
        /\ results = <<>>
        (* Process prod *)
        /\ pos = [self \in Producers |-> 0]
        /\ s = [self \in Producers |-> 0]
        /\ k = [self \in Producers |-> 0]
        /\ item = [self \in Producers |-> <<>>]
        /\ capSnap = [self \in Producers |-> 0]
        /\ extSnap = [self \in Producers |-> 0]
        (* Process cons *)
        /\ cpos = [self \in Consumers |-> 0]
        /\ cs = [self \in Consumers |-> 0]
        /\ got = [self \in Consumers |-> 0]
        /\ v = [self \in Consumers |-> <<>>]
        /\ expect = [self \in Consumers |-> <<>>]
        /\ pc = [self \in ProcSet |-> CASE self \in Producers -> "PLoop"
                                        [] self \in Consumers -> "CLoop"
                                        [] self \in Closers -> "C_l"]

PLoop(self) == /\ pc[self] = "PLoop"
               /\ IF k[self] < ItemsPer
                     THEN /\ item' = [item EXCEPT ![self] = <<self, k[self] + 1>>]
                          /\ pc' = [pc EXCEPT ![self] = "S_rl"]
                     ELSE /\ pc' = [pc EXCEPT ![self] = "Done"]
                          /\ item' = item
               /\ UNCHANGED << capacity, extended, seq, dat, head, tail, done, 
                               readers, writer, fullB, emptyB, waitF, waitE, 
                               chClosed, chanq, results, pos, s, k, capSnap, 
                               extSnap, cpos, cs, got, v, expect >>

S_rl(self) == /\ pc[self] = "S_rl"
              /\ ~writer
              /\ readers' = readers + 1
              /\ pc' = [pc EXCEPT ![self] = "S_chk"]
              /\ UNCHANGED << capacity, extended, seq, dat, head, tail, done, 
                              writer, fullB, emptyB, waitF, waitE, chClosed, 
                              chanq, results, pos, s, k, item, capSnap, 
                              extSnap, cpos, cs, got, v, expect >>

S_chk(self) == /\ pc[self] = "S_chk"
               /\ IF done
                     THEN /\ pc' = [pc EXCEPT ![self] = "S_fail"]
                     ELSE /\ pc' = [pc EXCEPT ![self] = "S_ld"]
               /\ UNCHANGED << capacity, extended, seq, dat, head, tail, done, 
                               readers, writer, fullB, emptyB, waitF, waitE, 
                               chClosed, chanq, results, pos, s, k, item, 
                               capSnap, extSnap, cpos, cs, got, v, expect >>

S_ld(self) == /\ pc[self] = "S_ld"
              /\ pos' = [pos EXCEPT ![self] = head]
              /\ IF done
                    THEN /\ pc' = [pc EXCEPT ![self] = "S_fail"]
                    ELSE /\ pc' = [pc EXCEPT ![self] = "S_seq"]
              /\ UNCHANGED << capacity, extended, seq, dat, head, tail, done, 
                              readers, writer, fullB, emptyB, waitF, waitE, 
                              chClosed, chanq, results, s, k, item, capSnap, 
                              extSnap, cpos, cs, got, v, expect >>

S_seq(self) == /\ pc[self] = "S_seq"
               /\ s' = [s EXCEPT ![self] = seq[Mask(pos[self])]]
               /\ IF s'[self] - pos[self] = 0
                     THEN /\ pc' = [pc EXCEPT ![self] = "S_cas"]
                          /\ UNCHANGED << capSnap, extSnap >>
                     ELSE /\ IF s'[self] - pos[self] < 0
                                THEN /\ capSnap' = [capSnap EXCEPT ![self] = capacity]
                                     /\ extSnap' = [extSnap EXCEPT ![self] = extended]
                                     /\ pc' = [pc EXCEPT ![self] = "S_ru"]
                                ELSE /\ pc' = [pc EXCEPT ![self] = "S_re"]
                                     /\ UNCHANGED << capSnap, extSnap >>
               /\ UNCHANGED << capacity, extended, seq, dat, head, tail, done, 
                               readers, writer, fullB, emptyB, waitF, waitE, 
                               chClosed, chanq, results, pos, k, item, cpos, 
                               cs, got, v, expect >>

S_cas(self) == /\ pc[self] = "S_cas"
               /\ IF head = pos[self]
                     THEN /\ head' = pos[self] + 1
                          /\ chanq' = Append(chanq, item[self])
                          /\ pc' = [pc EXCEPT ![self] = "S_wr"]
                     ELSE /\ IF done
                                THEN /\ pc' = [pc EXCEPT ![self] = "S_fail"]
                                ELSE /\ pc' = [pc EXCEPT ![self] = "S_seq"]
                          /\ UNCHANGED << head, chanq >>
               /\ UNCHANGED << capacity, extended, seq, dat, tail, done, 
                               readers, writer, fullB, emptyB, waitF, waitE, 
                               chClosed, results, pos, s, k, item, capSnap, 
                               extSnap, cpos, cs, got, v, expect >>

S_wr(self) == /\ pc[self] = "S_wr"
              /\ dat' = [dat EXCEPT ![Mask(pos[self])] = item[self]]
              /\ pc' = [pc EXCEPT ![self] = "S_pub"]
              /\ UNCHANGED << capacity, extended, seq, head, tail, done, 
                              readers, writer, fullB, emptyB, waitF, waitE, 
                              chClosed, chanq, results, pos, s, k, item, 
                              capSnap, extSnap, cpos, cs, got, v, expect >>

S_pub(self) == /\ pc[self] = "S_pub"
               /\ seq' = [seq EXCEPT ![Mask(pos[self])] = pos[self] + 1]
               /\ pc' = [pc EXCEPT ![self] = "S_sig"]
               /\ UNCHANGED << capacity, extended, dat, head, tail, done, 
                               readers, writer, fullB, emptyB, waitF, waitE, 
                               chClosed, chanq, results, pos, s, k, item, 
                               capSnap, extSnap, cpos, cs, got, v, expect >>

S_sig(self) == /\ pc[self] = "S_sig"
               /\ IF waitE # {}
                     THEN /\ \E r \in waitE:
                               waitE' = waitE \ {r}
                          /\ UNCHANGED emptyB
                     ELSE /\ IF emptyB = 0
                                THEN /\ emptyB' = 1
                                ELSE /\ TRUE
                                     /\ UNCHANGED emptyB
                          /\ waitE' = waitE
               /\ pc' = [pc EXCEPT ![self] = "S_ok"]
               /\ UNCHANGED << capacity, extended, seq, dat, head, tail, done, 
                               readers, writer, fullB, waitF, chClosed, chanq, 
                               results, pos, s, k, item, capSnap, extSnap, 
                               cpos, cs, got, v, expect >>

S_ok(self) == /\ pc[self] = "S_ok"
              /\ readers' = readers - 1
              /\ results' = Append(results, <<"send", self, TRUE>>)
              /\ k' = [k EXCEPT ![self] = k[self] + 1]
              /\ pc' = [pc EXCEPT ![self] = "PLoop"]
              /\ UNCHANGED << capacity, extended, seq, dat, head, tail, done, 
                              writer, fullB, emptyB, waitF, waitE, chClosed, 
                              chanq, pos, s, item, capSnap, extSnap, cpos, cs, 
                              got, v, expect >>

S_ru(self) == /\ pc[self] = "S_ru"
              /\ readers' = readers - 1
              /\ IF extSnap[self] < Extensions
                    THEN /\ pc' = [pc EXCEPT ![self] = "S_xl"]
                    ELSE /\ pc' = [pc EXCEPT ![self] = "S_park"]
              /\ UNCHANGED << capacity, extended, seq, dat, head, tail, done, 
                              writer, fullB, emptyB, waitF, waitE, chClosed, 
                              chanq, results, pos, s, k, item, capSnap, 
                              extSnap, cpos, cs, got, v, expect >>

S_xl(self) == /\ pc[self] = "S_xl"
              /\ ~writer /\ readers = 0
              /\ writer' = TRUE
              /\ pc' = [pc EXCEPT ![self] = "S_ext"]
              /\ UNCHANGED << capacity, extended, seq, dat, head, tail, done, 
                              readers, fullB, emptyB, waitF, waitE, chClosed, 
                              chanq, results, pos, s, k, item, capSnap, 
                              extSnap, cpos, cs, got, v, expect >>

S_ext(self) == /\ pc[self] = "S_ext"
               /\ IF capSnap[self] = capacity /\ ~done
                     THEN /\ seq' = [i \in 0..(capacity * 2)-1 |-> IF i < head - tail THEN i + 1 ELSE i]
                          /\ dat' = [i \in 0..(capacity * 2)-1 |-> IF i < head - tail THEN dat[(tail + i) % capacity] ELSE <<>>]
                          /\ head' = head - tail
                          /\ tail' = 0
                          /\ extended' = extended + 1
                          /\ capacity' = capacity * 2
                     ELSE /\ TRUE
                          /\ UNCHANGED << capacity, extended, seq, dat, head, 
                                          tail >>
               /\ pc' = [pc EXCEPT ![self] = "S_xu"]
               /\ UNCHANGED << done, readers, writer, fullB, emptyB, waitF, 
                               waitE, chClosed, chanq, results, pos, s, k, 
                               item, capSnap, extSnap, cpos, cs, got, v, 
                               expect >>

S_xu(self) == /\ pc[self] = "S_xu"
              /\ writer' = FALSE
              /\ pc' = [pc EXCEPT ![self] = "S_rl2"]
              /\ UNCHANGED << capacity, extended, seq, dat, head, tail, done, 
                              readers, fullB, emptyB, waitF, waitE, chClosed, 
                              chanq, results, pos, s, k, item, capSnap, 
                              extSnap, cpos, cs, got, v, expect >>

S_park(self) == /\ pc[self] = "S_park"
                /\ IF fullB > 0
                      THEN /\ fullB' = 0
                           /\ pc' = [pc EXCEPT ![self] = "S_rl2"]
                           /\ waitF' = waitF
                      ELSE /\ IF ~chClosed
                                 THEN /\ waitF' = (waitF \cup {self})
                                      /\ pc' = [pc EXCEPT ![self] = "S_parked"]
                                 ELSE /\ pc' = [pc EXCEPT ![self] = "S_rl2"]
                                      /\ waitF' = waitF
                           /\ fullB' = fullB
                /\ UNCHANGED << capacity, extended, seq, dat, head, tail, done, 
                                readers, writer, emptyB, waitE, chClosed, 
                                chanq, results, pos, s, k, item, capSnap, 
                                extSnap, cpos, cs, got, v, expect >>

S_parked(self) == /\ pc[self] = "S_parked"
                  /\ self \notin waitF
                  /\ pc' = [pc EXCEPT ![self] = "S_rl2"]
                  /\ UNCHANGED << capacity, extended, seq, dat, head, tail, 
                                  done, readers, writer, fullB, emptyB, waitF, 
                                  waitE, chClosed, chanq, results, pos, s, k, 
                                  item, capSnap, extSnap, cpos, cs, got, v, 
                                  expect >>

S_rl2(self) == /\ pc[self] = "S_rl2"
               /\ ~writer
               /\ readers' = readers + 1
               /\ pc' = [pc EXCEPT ![self] = "S_ld2"]
               /\ UNCHANGED << capacity, extended, seq, dat, head, tail, done, 
                               writer, fullB, emptyB, waitF, waitE, chClosed, 
                               chanq, results, pos, s, k, item, capSnap, 
                               extSnap, cpos, cs, got, v, expect >>

S_ld2(self) == /\ pc[self] = "S_ld2"
               /\ pos' = [pos EXCEPT ![self] = head]
               /\ IF done
                     THEN /\ pc' = [pc EXCEPT ![self] = "S_fail"]
                     ELSE /\ pc' = [pc EXCEPT ![self] = "S_seq"]
               /\ UNCHANGED << capacity, extended, seq, dat, head, tail, done, 
                               readers, writer, fullB, emptyB, waitF, waitE, 
                               chClosed, chanq, results, s, k, item, capSnap, 
                               extSnap, cpos, cs, got, v, expect >>

S_re(self) == /\ pc[self] = "S_re"
              /\ pos' = [pos EXCEPT ![self] = head]
              /\ IF done
                    THEN /\ pc' = [pc EXCEPT ![self] = "S_fail"]
                    ELSE /\ pc' = [pc EXCEPT ![self] = "S_seq"]
              /\ UNCHANGED << capacity, extended, seq, dat, head, tail, done, 
                              readers, writer, fullB, emptyB, waitF, waitE, 
                              chClosed, chanq, results, s, k, item, capSnap, 
                              extSnap, cpos, cs, got, v, expect >>

S_fail(self) == /\ pc[self] = "S_fail"
                /\ readers' = readers - 1
                /\ results' = Append(results, <<"send", self, FALSE>>)
                /\ k' = [k EXCEPT ![self] = k[self] + 1]
                /\ pc' = [pc EXCEPT ![self] = "PLoop"]
                /\ UNCHANGED << capacity, extended, seq, dat, head, tail, done, 
                                writer, fullB, emptyB, waitF, waitE, chClosed, 
                                chanq, pos, s, item, capSnap, extSnap, cpos, 
                                cs, got, v, expect >>

prod(self) == PLoop(self) \/ S_rl(self) \/ S_chk(self) \/ S_ld(self)
                 \/ S_seq(self) \/ S_cas(self) \/ S_wr(self) \/ S_pub(self)
                 \/ S_sig(self) \/ S_ok(self) \/ S_ru(self) \/ S_xl(self)
                 \/ S_ext(self) \/ S_xu(self) \/ S_park(self)
                 \/ S_parked(self) \/ S_rl2(self) \/ S_ld2(self)
                 \/ S_re(self) \/ S_fail(self)

CLoop(self) == /\ pc[self] = "CLoop"
               /\ IF got[self] < RecvPer
                     THEN /\ pc' = [pc EXCEPT ![self] = "R_rl"]
                     ELSE /\ pc' = [pc EXCEPT ![self] = "Done"]
               /\ UNCHANGED << capacity, extended, seq, dat, head, tail, done, 
                               readers, writer, fullB, emptyB, waitF, waitE, 
                               chClosed, chanq, results, pos, s, k, item, 
                               capSnap, extSnap, cpos, cs, got, v, expect >>

R_rl(self) == /\ pc[self] = "R_rl"
              /\ ~writer
              /\ readers' = readers + 1
              /\ pc' = [pc EXCEPT ![self] = "R_ld"]
              /\ UNCHANGED << capacity, extended, seq, dat, head, tail, done, 
                              writer, fullB, emptyB, waitF, waitE, chClosed, 
                              chanq, results, pos, s, k, item, capSnap, 
                              extSnap, cpos, cs, got, v, expect >>

R_ld(self) == /\ pc[self] = "R_ld"
              /\ cpos' = [cpos EXCEPT ![self] = tail]
              /\ pc' = [pc EXCEPT ![self] = "R_seq"]
              /\ UNCHANGED << capacity, extended, seq, dat, head, tail, done, 
                              readers, writer, fullB, emptyB, waitF, waitE, 
                              chClosed, chanq, results, pos, s, k, item, 
                              capSnap, extSnap, cs, got, v, expect >>

R_seq(self) == /\ pc[self] = "R_seq"
               /\ cs' = [cs EXCEPT ![self] = seq[Mask(cpos[self])]]
               /\ IF cs'[self] - (cpos[self] + 1) = 0
                     THEN /\ pc' = [pc EXCEPT ![self] = "R_cas"]
                     ELSE /\ IF cs'[self] - (cpos[self] + 1) < 0
                                THEN /\ pc' = [pc EXCEPT ![self] = "R_dn"]
                                ELSE /\ pc' = [pc EXCEPT ![self] = "R_re"]
               /\ UNCHANGED << capacity, extended, seq, dat, head, tail, done, 
                               readers, writer, fullB, emptyB, waitF, waitE, 
                               chClosed, chanq, results, pos, s, k, item, 
                               capSnap, extSnap, cpos, got, v, expect >>

R_cas(self) == /\ pc[self] = "R_cas"
               /\ IF tail = cpos[self]
                     THEN /\ tail' = cpos[self] + 1
                          /\ expect' = [expect EXCEPT ![self] = Head(chanq)]
                          /\ chanq' = Tail(chanq)
                          /\ pc' = [pc EXCEPT ![self] = "R_rd"]
                     ELSE /\ pc' = [pc EXCEPT ![self] = "R_seq"]
                          /\ UNCHANGED << tail, chanq, expect >>
               /\ UNCHANGED << capacity, extended, seq, dat, head, done, 
                               readers, writer, fullB, emptyB, waitF, waitE, 
                               chClosed, results, pos, s, k, item, capSnap, 
                               extSnap, cpos, cs, got, v >>

R_rd(self) == /\ pc[self] = "R_rd"
              /\ v' = [v EXCEPT ![self] = dat[Mask(cpos[self])]]
              /\ dat' = [dat EXCEPT ![Mask(cpos[self])] = <<>>]
              /\ pc' = [pc EXCEPT ![self] = "R_rec"]
              /\ UNCHANGED << capacity, extended, seq, head, tail, done, 
                              readers, writer, fullB, emptyB, waitF, waitE, 
                              chClosed, chanq, results, pos, s, k, item, 
                              capSnap, extSnap, cpos, cs, got, expect >>

R_rec(self) == /\ pc[self] = "R_rec"
               /\ seq' = [seq EXCEPT ![Mask(cpos[self])] = cpos[self] + capacity]
               /\ pc' = [pc EXCEPT ![self] = "R_sig"]
               /\ UNCHANGED << capacity, extended, dat, head, tail, done, 
                               readers, writer, fullB, emptyB, waitF, waitE, 
                               chClosed, chanq, results, pos, s, k, item, 
                               capSnap, extSnap, cpos, cs, got, v, expect >>

R_sig(self) == /\ pc[self] = "R_sig"
               /\ IF ~done
                     THEN /\ IF waitF # {}
                                THEN /\ \E r \in waitF:
                                          waitF' = waitF \ {r}
                                     /\ fullB' = fullB
                                ELSE /\ IF fullB = 0
                                           THEN /\ fullB' = 1
                                           ELSE /\ TRUE
                                                /\ fullB' = fullB
                                     /\ waitF' = waitF
                     ELSE /\ TRUE
                          /\ UNCHANGED << fullB, waitF >>
               /\ pc' = [pc EXCEPT ![self] = "R_ok"]
               /\ UNCHANGED << capacity, extended, seq, dat, head, tail, done, 
                               readers, writer, emptyB, waitE, chClosed, chanq, 
                               results, pos, s, k, item, capSnap, extSnap, 
                               cpos, cs, got, v, expect >>

R_ok(self) == /\ pc[self] = "R_ok"
              /\ readers' = readers - 1
              /\ results' = Append(results, <<"recv", self, v[self]>>)
              /\ got' = [got EXCEPT ![self] = got[self] + 1]
              /\ pc' = [pc EXCEPT ![self] = "CLoop"]
              /\ UNCHANGED << capacity, extended, seq, dat, head, tail, done, 
                              writer, fullB, emptyB, waitF, waitE, chClosed, 
                              chanq, pos, s, k, item, capSnap, extSnap, cpos, 
                              cs, v, expect >>

R_dn(self) == /\ pc[self] = "R_dn"
              /\ IF done
                    THEN /\ pc' = [pc EXCEPT ![self] = "R_fail"]
                    ELSE /\ pc' = [pc EXCEPT ![self] = "R_ru"]
              /\ UNCHANGED << capacity, extended, seq, dat, head, tail, done, 
                              readers, writer, fullB, emptyB, waitF, waitE, 
                              chClosed, chanq, results, pos, s, k, item, 
                              capSnap, extSnap, cpos, cs, got, v, expect >>

R_fail(self) == /\ pc[self] = "R_fail"
                /\ readers' = readers - 1
                /\ results' = Append(results, <<"recv", self, "closed">>)
                /\ got' = [got EXCEPT ![self] = got[self] + 1]
                /\ pc' = [pc EXCEPT ![self] = "CLoop"]
                /\ UNCHANGED << capacity, extended, seq, dat, head, tail, done, 
                                writer, fullB, emptyB, waitF, waitE, chClosed, 
                                chanq, pos, s, k, item, capSnap, extSnap, cpos, 
                                cs, v, expect >>

R_ru(self) == /\ pc[self] = "R_ru"
              /\ readers' = readers - 1
              /\ pc' = [pc EXCEPT ![self] = "R_park"]
              /\ UNCHANGED << capacity, extended, seq, dat, head, tail, done, 
                              writer, fullB, emptyB, waitF, waitE, chClosed, 
                              chanq, results, pos, s, k, item, capSnap, 
                              extSnap, cpos, cs, got, v, expect >>

R_park(self) == /\ pc[self] = "R_park"
                /\ IF emptyB > 0
                      THEN /\ emptyB' = 0
                           /\ pc' = [pc EXCEPT ![self] = "R_rl2"]
                           /\ waitE' = waitE
                      ELSE /\ IF ~chClosed
                                 THEN /\ waitE' = (waitE \cup {self})
                                      /\ pc' = [pc EXCEPT ![self] = "R_parked"]
                                 ELSE /\ pc' = [pc EXCEPT ![self] = "R_rl2"]
                                      /\ waitE' = waitE
                           /\ UNCHANGED emptyB
                /\ UNCHANGED << capacity, extended, seq, dat, head, tail, done, 
                                readers, writer, fullB, waitF, chClosed, chanq, 
                                results, pos, s, k, item, capSnap, extSnap, 
                                cpos, cs, got, v, expect >>

R_parked(self) == /\ pc[self] = "R_parked"
                  /\ self \notin waitE
                  /\ pc' = [pc EXCEPT ![self] = "R_rl2"]
                  /\ UNCHANGED << capacity, extended, seq, dat, head, tail, 
                                  done, readers, writer, fullB, emptyB, waitF, 
                                  waitE, chClosed, chanq, results, pos, s, k, 
                                  item, capSnap, extSnap, cpos, cs, got, v, 
                                  expect >>

R_rl2(self) == /\ pc[self] = "R_rl2"
               /\ ~writer
               /\ readers' = readers + 1
               /\ pc' = [pc EXCEPT ![self] = "R_ld2"]
               /\ UNCHANGED << capacity, extended, seq, dat, head, tail, done, 
                               writer, fullB, emptyB, waitF, waitE, chClosed, 
                               chanq, results, pos, s, k, item, capSnap, 
                               extSnap, cpos, cs, got, v, expect >>

R_ld2(self) == /\ pc[self] = "R_ld2"
               /\ cpos' = [cpos EXCEPT ![self] = tail]
               /\ pc' = [pc EXCEPT ![self] = "R_seq"]
               /\ UNCHANGED << capacity, extended, seq, dat, head, tail, done, 
                               readers, writer, fullB, emptyB, waitF, waitE, 
                               chClosed, chanq, results, pos, s, k, item, 
                               capSnap, extSnap, cs, got, v, expect >>

R_re(self) == /\ pc[self] = "R_re"
              /\ cpos' = [cpos EXCEPT ![self] = tail]
              /\ pc' = [pc EXCEPT ![self] = "R_seq"]
              /\ UNCHANGED << capacity, extended, seq, dat, head, tail, done, 
                              readers, writer, fullB, emptyB, waitF, waitE, 
                              chClosed, chanq, results, pos, s, k, item, 
                              capSnap, extSnap, cs, got, v, expect >>

cons(self) == CLoop(self) \/ R_rl(self) \/ R_ld(self) \/ R_seq(self)
                 \/ R_cas(self) \/ R_rd(self) \/ R_rec(self) \/ R_sig(self)
                 \/ R_ok(self) \/ R_dn(self) \/ R_fail(self) \/ R_ru(self)
                 \/ R_park(self) \/ R_parked(self) \/ R_rl2(self)
                 \/ R_ld2(self) \/ R_re(self)

C_l(self) == /\ pc[self] = "C_l"
             /\ ~writer /\ readers = 0
             /\ writer' = TRUE
             /\ pc' = [pc EXCEPT ![self] = "C_cl"]
             /\ UNCHANGED << capacity, extended, seq, dat, head, tail, done, 
                             readers, fullB, emptyB, waitF, waitE, chClosed, 
                             chanq, results, pos, s, k, item, capSnap, extSnap, 
                             cpos, cs, got, v, expect >>

C_cl(self) == /\ pc[self] = "C_cl"
              /\ IF ~done
                    THEN /\ done' = TRUE
                         /\ chClosed' = TRUE
                         /\ waitE' = {}
                         /\ waitF' = {}
                    ELSE /\ TRUE
                         /\ UNCHANGED << done, waitF, waitE, chClosed >>
              /\ pc' = [pc EXCEPT ![self] = "C_ok"]
              /\ UNCHANGED << capacity, extended, seq, dat, head, tail, 
                              readers, writer, fullB, emptyB, chanq, results, 
                              pos, s, k, item, capSnap, extSnap, cpos, cs, got, 
                              v, expect >>

C_ok(self) == /\ pc[self] = "C_ok"
              /\ writer' = FALSE
              /\ pc' = [pc EXCEPT ![self] = "Done"]
              /\ UNCHANGED << capacity, extended, seq, dat, head, tail, done, 
                              readers, fullB, emptyB, waitF, waitE, chClosed, 
                              chanq, results, pos, s, k, item, capSnap, 
                              extSnap, cpos, cs, got, v, expect >>

closer(self) == C_l(self) \/ C_cl(self) \/ C_ok(self)

(* Allow infinite stuttering to prevent deadlock on termination. *)
Terminating == /\ \A self \in ProcSet: pc[self] = "Done"
               /\ UNCHANGED vars

Next == (\E self \in Producers: prod(self))
           \/ (\E self \in Consumers: cons(self))
           \/ (\E self \in Closers: closer(self))
           \/ Terminating

Spec == Init /\ [][Next]_vars

Termination == <>(\A self \in ProcSet: pc[self] = "Done")

\* END TRANSLATION

---------------------------------------------------------------------------
\* Properties (C22)

\* a receiver reads exactly the item its tail-CAS linearised on: FIFO, no loss,
\* no duplication, no torn slot across extend
FifoData == \A c \in Consumers : pc[c] \in {"R_rec", "R_sig", "R_ok"} => v[c] = expect[c]

\* Recv reports "closed" only when nothing sent before Close is left
DrainBeforeClosed == \A c \in Consumers : pc[c] = "R_fail" => chanq = <<>>

\* structural sanity of the ring
RingOK == /\ head - tail >= 0 /\ head - tail <= capacity
          /\ DOMAIN seq = 0..capacity-1

\* a successful Send never happens after Close took effect (done is set under the write lock)
NoSendAfterClose == \A p \in Producers : pc[p] \in {"S_wr", "S_pub", "S_sig", "S_ok"} => ~done

\* No lost wake-up, as a state predicate: a receiver is blocked on the empty
\* channel although an item is buffered, no token is pending and nobody who could
\* still signal is running (every other process is finished or blocked too).
Blocked(p) == \/ pc[p] = "Done" \/ (p \in Consumers /\ pc[p] = "R_parked" /\ p \in waitE)
              \/ (p \in Producers /\ pc[p] = "S_parked" /\ p \in waitF)
LostWakeup == /\ \A p \in ProcSet : Blocked(p)
              /\ \E c \in Consumers : pc[c] = "R_parked" /\ c \in waitE /\ head - tail > 0
NoLostWakeup == ~LostWakeup

\* every process finishes (used as the deadlock / termination check)
AllDone == \A p \in ProcSet : pc[p] = "Done"
=============================================================================
