------------------------------ MODULE MPMCTrace ------------------------------
(***************************************************************************)
(* Conformance of the real mpmc.Queue to MPMC.tla (C22).                   *)
(*                                                                         *)
(* trace.ndjson holds many runs separated by Reset events.  A run is a     *)
(* schedule executed on the real queue through the verifhook gates: each   *)
(* Step event says which goroutine was released from which scheduling      *)
(* point (= PlusCal label) and carries the queue's internal state after    *)
(* the step (head, tail, capacity, extension count, slot sequence numbers, *)
(* tokens in the two wake-up channels, done) and the call's return value.  *)
(* A step is accepted iff the spec action of that process at that label is *)
(* enabled and produces exactly the logged state.  A run that cannot be    *)
(* followed is marked DIVERGED (the remainder is skipped); the End event   *)
(* classifies runs that did not terminate.                                 *)
(***************************************************************************)
EXTENDS MPMC, Json

Trace == ndJsonDeserialize("trace.ndjson")

VARIABLES l, mode, bad, counts, judged
tvars == <<l, mode, bad, counts, judged>>

Ev1 == Trace[l]

Bump(c, cls) == [x \in DOMAIN c \cup {cls} |-> IF x = cls THEN (IF x \in DOMAIN c THEN c[x] ELSE 0) + 1 ELSE c[x]]
Note(cls, note) ==
  /\ counts' = Bump(counts, cls) /\ judged' = judged + 1
  /\ bad' = IF cls \in {"OK_RUN", "OK_STEP"} THEN bad ELSE Append(bad, [l |-> l, cls |-> cls, ref |-> note, note |-> ""])

TInit == Init /\ l = 1 /\ mode = "ok" /\ bad = <<>> /\ counts = [x \in {"OK_RUN"} |-> 0] /\ judged = 0

\* the spec step of process p at label lab
StepOf(p, lab) ==
  /\ pc[p] = lab
  /\ IF p \in Producers THEN prod(p) ELSE IF p \in Consumers THEN cons(p) ELSE closer(p)

\* the logged state after the step
Matches(st) ==
  /\ head' = st.head /\ tail' = st.tail /\ capacity' = st.cap /\ extended' = st.ext
  /\ seq' = [i \in 0..st.cap-1 |-> st.seq[i + 1]]
  /\ fullB' = st.full /\ emptyB' = st.empty /\ done' = st.done

\* the logged outcome of the step: whether a park blocked, and the value a Recv returned
Outcome(ev) ==
  /\ ev.l \in {"S_park", "R_park"} => (ev.blocked <=> pc'[ev.p] \in {"S_parked", "R_parked"})
  /\ ev.l = "R_ok" => v[ev.p] = <<ev.ret.p, ev.ret.k>>
  \* which blocked goroutine (if any) received the token handed over by this step
  /\ ev.l \in {"S_sig", "R_sig"} =>
       IF ev.woke = "" THEN waitE' = waitE /\ waitF' = waitF
       ELSE ev.woke \notin waitE' /\ ev.woke \notin waitF' /\ ev.woke \in (waitE \cup waitF)

Good(ev) == StepOf(ev.p, ev.l) /\ Matches(ev.st) /\ Outcome(ev)

\* Init, primed (TLC cannot prime a defined state predicate)
ResetState ==
  /\ capacity' = Cap0 /\ extended' = 0
  /\ seq' = [i \in 0..Cap0-1 |-> i] /\ dat' = [i \in 0..Cap0-1 |-> <<>>]
  /\ head' = 0 /\ tail' = 0 /\ done' = FALSE /\ readers' = 0 /\ writer' = FALSE
  /\ fullB' = 0 /\ emptyB' = 0 /\ waitF' = {} /\ waitE' = {} /\ chClosed' = FALSE
  /\ chanq' = <<>> /\ results' = <<>>
  /\ pos' = [self \in Producers |-> 0] /\ s' = [self \in Producers |-> 0] /\ k' = [self \in Producers |-> 0]
  /\ item' = [self \in Producers |-> <<>>] /\ capSnap' = [self \in Producers |-> 0] /\ extSnap' = [self \in Producers |-> 0]
  /\ cpos' = [self \in Consumers |-> 0] /\ cs' = [self \in Consumers |-> 0] /\ got' = [self \in Consumers |-> 0]
  /\ v' = [self \in Consumers |-> <<>>] /\ expect' = [self \in Consumers |-> <<>>]
  /\ pc' = [self \in ProcSet |-> CASE self \in Producers -> "PLoop" [] self \in Consumers -> "CLoop" [] self \in Closers -> "C_l"]

TrReset ==
  /\ l <= Len(Trace) /\ Ev1.e = "Reset" /\ l' = l + 1
  /\ ResetState /\ mode' = "ok" /\ UNCHANGED <<bad, counts, judged>>

TrStepOK ==
  /\ l <= Len(Trace) /\ Ev1.e = "Step" /\ mode = "ok" /\ l' = l + 1
  /\ Good(Ev1)
  /\ mode' = "ok" /\ UNCHANGED <<bad, counts, judged>>

TrStepDiverge ==
  /\ l <= Len(Trace) /\ Ev1.e = "Step" /\ mode = "ok" /\ l' = l + 1
  /\ ~ENABLED Good(Ev1)
  /\ mode' = "skip" /\ UNCHANGED vars
  /\ Note("DIVERGED", ToString(<<Ev1.p, Ev1.l, pc[Ev1.p]>>))

TrStepSkip ==
  /\ l <= Len(Trace) /\ Ev1.e = "Step" /\ mode = "skip" /\ l' = l + 1
  /\ UNCHANGED vars /\ UNCHANGED <<mode, bad, counts, judged>>

\* End of a run.  finished: every goroutine returned.  Otherwise the run stopped
\* because no goroutine could be scheduled (all finished or parked).
TrEnd ==
  /\ l <= Len(Trace) /\ Ev1.e = "RunEnd" /\ l' = l + 1
  /\ UNCHANGED vars /\ mode' = mode
  /\ IF mode = "skip" THEN UNCHANGED <<bad, counts, judged>>
     ELSE IF Ev1.finished THEN Note(IF AllDone THEN "OK_RUN" ELSE "BAD_END_MISMATCH", "")
     ELSE IF LostWakeup THEN Note(IF Cardinality(Consumers) >= 2 THEN "KF_LostWakeupTwoReceivers" ELSE "BAD_LOST_WAKEUP", "")
     ELSE Note("BAD_DEADLOCK", ToString(pc))

TrFinal ==
  /\ l <= Len(Trace) /\ Ev1.e = "End" /\ l' = l + 1
  /\ PrintT(<<"VERIF", "END", ToJson([l |-> l, judged |-> judged, skipped |-> 0, bad |-> bad, counts |-> counts])>>)
  /\ UNCHANGED vars /\ UNCHANGED <<mode, bad, counts, judged>>

TNext == TrReset \/ TrStepOK \/ TrStepDiverge \/ TrStepSkip \/ TrEnd \/ TrFinal
TSpec == TInit /\ [][TNext]_<<vars, tvars>>
TraceAccepted == TLCGet("stats").diameter - 1 = Len(Trace)
=============================================================================
