-------------------------------- MODULE MPMC --------------------------------
(***************************************************************************)
(* internal/containers/mpmc/queue.go: Vyukov bounded MPMC ring under a     *)
(* read/write mutex with two single-token wake-up channels, buffer         *)
(* doubling and Close (C22).                                               *)
(*                                                                         *)
(* One PlusCal label per scheduling point of the instrumented code: label  *)
(* X is the code executed from verifhook.Yield("X") up to the next Yield,  *)
(* so a behaviour of this spec is a schedule the Go driver can replay      *)
(* step by step on the real queue (Binding B), comparing head, tail,       *)
(* capacity, the slot sequence numbers, the channel tokens and done after  *)
(* every step.                                                             *)
(*                                                                         *)
(* Go channel semantics of the buffered(1) token channels: a non-blocking  *)
(* send hands the token to a receiver already blocked on the channel,      *)
(* otherwise fills the buffer, otherwise is dropped; a receive takes a     *)
(* buffered token, returns at once on a closed channel, otherwise blocks.  *)
(***************************************************************************)
EXTENDS Integers, Sequences, FiniteSets, TLC

CONSTANTS Producers, Consumers, Closers,
          Cap0,        \* initial capacity (power of two >= 2)
          Extensions,  \* how many times Send may double the buffer
          ItemsPer,    \* Send calls per producer
          RecvPer      \* Recv calls per consumer

(* --algorithm mpmc
variables
  capacity = Cap0, extended = 0,
  seq = [i \in 0..Cap0-1 |-> i],
  dat = [i \in 0..Cap0-1 |-> <<>>],
  head = 0, tail = 0,
  done = FALSE,
  readers = 0, writer = FALSE,
  fullB = 0, emptyB = 0,          \* tokens buffered in the full / empty channels
  waitF = {}, waitE = {},          \* goroutines blocked receiving from full / empty
  chClosed = FALSE,
  chanq = <<>>,                    \* ghost: items claimed by senders (head CAS order) not yet claimed by a receiver
  results = <<>>;                  \* ghost: outcome of every finished call, in completion order

define
  Mask(x) == x % capacity
end define;

macro RLock()   begin await ~writer; readers := readers + 1; end macro;
macro RUnlock() begin readers := readers - 1; end macro;
macro WLock()   begin await ~writer /\ readers = 0; writer := TRUE; end macro;
macro WUnlock() begin writer := FALSE; end macro;

\* the body of extend(n) (caller holds the write lock)
macro Extend(n) begin
  seq := [i \in 0..n-1 |-> IF i < head - tail THEN i + 1 ELSE i];
  dat := [i \in 0..n-1 |-> IF i < head - tail THEN dat[(tail + i) % capacity] ELSE <<>>];
  head := head - tail;
  tail := 0;
  extended := extended + 1;
  capacity := n;
end macro;

process prod \in Producers
variables pos = 0, s = 0, k = 0, item = <<>>, capSnap = 0, extSnap = 0;
begin
PLoop:  while k < ItemsPer do
          item := <<self, k + 1>>;
S_rl:     RLock();
S_chk:    if done then goto S_fail; end if;
S_ld:     pos := head;
          if done then goto S_fail; end if;
S_seq:    s := seq[Mask(pos)];
          if s - pos = 0 then
S_cas:      if head = pos then
              head := pos + 1;
              chanq := Append(chanq, item);
S_wr:         dat[Mask(pos)] := item;
S_pub:        seq[Mask(pos)] := pos + 1;
S_sig:        if waitE # {} then
                with r \in waitE do waitE := waitE \ {r}; end with;
              elsif emptyB = 0 then emptyB := 1;
              end if;
S_ok:         RUnlock(); results := Append(results, <<"send", self, TRUE>>); k := k + 1; goto PLoop;
            else
              if done then goto S_fail; else goto S_seq; end if;
            end if;
          elsif s - pos < 0 then
            capSnap := capacity; extSnap := extended;
S_ru:       RUnlock();
            if extSnap < Extensions then
S_xl:         WLock();
S_ext:        if capSnap = capacity /\ ~done then
                Extend(capacity * 2);
              end if;
S_xu:         WUnlock();
            else
S_park:       if fullB > 0 then fullB := 0;
              elsif ~chClosed then
                waitF := waitF \cup {self};
S_parked:       await self \notin waitF;
              end if;
            end if;
S_rl2:      RLock();
S_ld2:      pos := head;
            if done then goto S_fail; else goto S_seq; end if;
          else
S_re:       pos := head;
            if done then goto S_fail; else goto S_seq; end if;
          end if;
S_fail:   RUnlock(); results := Append(results, <<"send", self, FALSE>>); k := k + 1;
        end while;
end process;

process cons \in Consumers
variables cpos = 0, cs = 0, got = 0, v = <<>>, expect = <<>>;
begin
CLoop:  while got < RecvPer do
R_rl:     RLock();
R_ld:     cpos := tail;
R_seq:    cs := seq[Mask(cpos)];
          if cs - (cpos + 1) = 0 then
R_cas:      if tail = cpos then
              tail := cpos + 1;
              expect := Head(chanq); chanq := Tail(chanq);
R_rd:         v := dat[Mask(cpos)]; dat[Mask(cpos)] := <<>>;
R_rec:        seq[Mask(cpos)] := cpos + capacity;
R_sig:        if ~done then
                if waitF # {} then
                  with r \in waitF do waitF := waitF \ {r}; end with;
                elsif fullB = 0 then fullB := 1;
                end if;
              end if;
R_ok:         RUnlock(); results := Append(results, <<"recv", self, v>>); got := got + 1; goto CLoop;
            else
              goto R_seq;
            end if;
          elsif cs - (cpos + 1) < 0 then
R_dn:       if done then
R_fail:       RUnlock(); results := Append(results, <<"recv", self, "closed">>); got := got + 1; goto CLoop;
            end if;
R_ru:       RUnlock();
R_park:     if emptyB > 0 then emptyB := 0;
            elsif ~chClosed then
              waitE := waitE \cup {self};
R_parked:     await self \notin waitE;
            end if;
R_rl2:      RLock();
R_ld2:      cpos := tail; goto R_seq;
          else
R_re:       cpos := tail; goto R_seq;
          end if;
        end while;
end process;

process closer \in Closers
begin
C_l:    WLock();
C_cl:   if ~done then
          done := TRUE; chClosed := TRUE; waitE := {}; waitF := {};
        end if;
C_ok:   WUnlock();
end process;
end algorithm; *)
\* BEGIN TRANSLATION
\* END TRANSLATION

---------------------------------------------------------------------------
\* Properties (C22)

\* a receiver reads exactly the item its tail-CAS linearised on: FIFO, no loss,
\* no duplication, no torn slot across extend
FifoData == \A c \in Consumers : pc[c] \in {"R_rec", "R_sig", "R_ok"} => v[c] = expect[c]

\* Recv reports "closed" only when nothing sent before Close is left
DrainBeforeClosed == \A c \in Consumers : pc[c] = "R_fail" => chanq = <<>>

\* structural sanity of the ring
RingOK == /\ head - tail >= 0 /\ head - tail <= capacity
          /\ DOMAIN seq = 0..capacity-1

\* a successful Send never happens after Close took effect (done is set under the write lock)
NoSendAfterClose == \A p \in Producers : pc[p] \in {"S_wr", "S_pub", "S_sig", "S_ok"} => ~done

\* No lost wake-up, as a state predicate: a receiver is blocked on the empty
\* channel although an item is buffered, no token is pending and nobody who could
\* still signal is running (every other process is finished or blocked too).
Blocked(p) == \/ pc[p] = "Done" \/ (p \in Consumers /\ pc[p] = "R_parked" /\ p \in waitE)
              \/ (p \in Producers /\ pc[p] = "S_parked" /\ p \in waitF)
LostWakeup == /\ \A p \in ProcSet : Blocked(p)
              /\ \E c \in Consumers : pc[c] = "R_parked" /\ c \in waitE /\ head - tail > 0
NoLostWakeup == ~LostWakeup

\* every process finishes (used as the deadlock / termination check)
AllDone == \A p \in ProcSet : pc[p] = "Done"
=============================================================================
