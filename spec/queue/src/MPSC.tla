-------------------------------- MODULE MPSC --------------------------------
(***************************************************************************)
(* internal/containers/mpsc/accumulator.go: lock-free multi-producer /     *)
(* single-consumer list (CAS the head, then link), a buffered(1) signal    *)
(* channel, and Close inserting an end sentinel (C22).  One label per      *)
(* verifhook.Yield of the instrumented code.                               *)
(*                                                                         *)
(* Nodes: S0 (initial sentinel), <<p, k>> (k-th Send of producer p), END   *)
(* (sentinel of Close).  next is the Next pointer of each node.            *)
(***************************************************************************)
EXTENDS Integers, Sequences, FiniteSets, TLC

CONSTANTS Producers, Consumer, Closers, ItemsPer, RecvPer

Nil == <<"nil", 0>>
S0  == <<"S0", 0>>
END == <<"END", 0>>
Nodes == {S0, END} \cup {<<p, k>> : p \in Producers, k \in 1..ItemsPer}

(* --algorithm mpsc
variables
  next = [n \in Nodes |-> Nil],
  headN = S0,                 \* a.head (Nil after Close)
  tailN = S0,                 \* a.tail (owned by the consumer)
  closed = FALSE,               \* a.closed
  doneCh = FALSE,               \* close(a.done) happened
  sigB = 0,                     \* tokens buffered in a.signal
  waiting = FALSE,              \* the consumer is blocked in the select
  delivered = <<>>,             \* ghost: values returned by Recv, in order
  okSent = {};                  \* ghost: items whose Send reported success

define
  RECURSIVE ChainFrom(_)
  ChainFrom(n) == IF next[n] = Nil \/ next[n] = END THEN <<>> ELSE <<next[n]>> \o ChainFrom(next[n])
  EndLinked == LET RECURSIVE Reaches(_)
                   Reaches(n) == IF next[n] = Nil THEN FALSE ELSE IF next[n] = END THEN TRUE ELSE Reaches(next[n])
               IN Reaches(tailN)
end define;

process prod \in Producers
variables k = 0, cur = Nil, sent = FALSE;
begin
ALoop:  while k < ItemsPer do
          sent := FALSE;
A_ld:     cur := headN;
          if cur = Nil then goto A_ret; end if;
A_cas:    if headN = cur then
            headN := <<self, k + 1>>;
A_lnk:      next[cur] := <<self, k + 1>>;
A_sig:      if waiting then waiting := FALSE;
            elsif sigB = 0 then sigB := 1;
            end if;
            sent := TRUE;
            okSent := okSent \cup {<<self, k + 1>>};
          else
            goto A_ld;
          end if;
A_ret:    k := k + 1;
        end while;
end process;

process cons = Consumer
variables got = 0, nn = Nil, val = Nil, ok = FALSE;
begin
BLoop:  while got < RecvPer do
          ok := FALSE; val := Nil;
B_ld:     nn := next[tailN];
          if nn = Nil then
B_park:     either await sigB > 0; sigB := 0; goto B_ld;      \* a select with several ready cases picks any of them
            or     await doneCh; goto B_ld;
            or     await sigB = 0 /\ ~doneCh; waiting := TRUE;
B_parked:          await ~waiting; goto B_ld;
            end either;
          elsif nn # END then
            val := nn; ok := TRUE; tailN := nn;
          end if;
B_ret:    if ok then delivered := Append(delivered, val); end if;
          got := got + 1;
        end while;
end process;

process closer \in Closers
variables old = Nil;
begin
K_wait: skip;                                           \* Close may run at any moment, also between the steps of a Send
K_swp:  if closed then goto Done; else closed := TRUE; end if;
K_hd:   old := headN; headN := Nil;
K_lnk:  next[old] := END;
K_cl:   doneCh := TRUE; waiting := FALSE;
end process;
end algorithm; *)
\* BEGIN TRANSLATION
\* END TRANSLATION

---------------------------------------------------------------------------
\* delivery is exactly-once and FIFO per producer
PerProducerFifo ==
  \A i, j \in DOMAIN delivered : i < j =>
     /\ delivered[i] # delivered[j]
     /\ delivered[i][1] = delivered[j][1] => delivered[i][2] < delivered[j][2]
\* the consumer is never left blocked while a linked item is available and nobody will signal
Stuck == /\ pc[Consumer] = "B_parked" /\ waiting /\ next[tailN] # Nil
         /\ \A p \in Producers \cup Closers : pc[p] = "Done"
NoLostWakeup == ~Stuck
\* no item is lost: when everything has finished (the consumer polls often enough to drain), every item
\* whose Send reported success has been delivered; and nothing is delivered that was not sent successfully
NoLoss == (\A p \in ProcSet : pc[p] = "Done") => okSent = {delivered[i] : i \in DOMAIN delivered}
\* a Send that starts after Close has returned fails
SendAfterCloseFails == \A p \in Producers : (pc[p] = "A_ret" /\ sent[p]) => TRUE
=============================================================================
