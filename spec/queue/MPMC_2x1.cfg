SPECIFICATION Spec
CONSTANTS
  Producers = {p1, p2}
  Consumers = {c1}
  Closers = {}
  Cap0 = 2
  Extensions = 0
  ItemsPer = 2
  RecvPer = 4
INVARIANTS FifoData DrainBeforeClosed RingOK NoSendAfterClose NoLostWakeup
