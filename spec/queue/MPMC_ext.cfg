SPECIFICATION Spec
CONSTANTS
  Producers = {p1, p2}
  Consumers = {c1}
  Closers = {x1}
  Cap0 = 2
  Extensions = 1
  ItemsPer = 2
  RecvPer = 3
INVARIANTS FifoData DrainBeforeClosed RingOK NoSendAfterClose NoLostWakeup
