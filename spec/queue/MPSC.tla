-------------------------------- MODULE MPSC --------------------------------
(***************************************************************************)
(* internal/containers/mpsc/accumulator.go: lock-free multi-producer /     *)
(* single-consumer list (CAS the head, then link), a buffered(1) signal    *)
(* channel, and Close inserting an end sentinel (C22).  One label per      *)
(* verifhook.Yield of the instrumented code.                               *)
(*                                                                         *)
(* Nodes: S0 (initial sentinel), <<p, k>> (k-th Send of producer p), END   *)
(* (sentinel of Close).  next is the Next pointer of each node.            *)
(***************************************************************************)
EXTENDS Integers, Sequences, FiniteSets, TLC

CONSTANTS Producers, Consumer, Closers, ItemsPer, RecvPer

Nil == <<"nil", 0>>
S0  == <<"S0", 0>>
END == <<"END", 0>>
Nodes == {S0, END} \cup {<<p, k>> : p \in Producers, k \in 1..ItemsPer}

(* --algorithm mpsc
variables
  next = [n \in Nodes |-> Nil],
  headN = S0,                 \* a.head (Nil after Close)
  tailN = S0,                 \* a.tail (owned by the consumer)
  closed = FALSE,               \* a.closed
  doneCh = FALSE,               \* close(a.done) happened
  sigB = 0,                     \* tokens buffered in a.signal
  waiting = FALSE,              \* the consumer is blocked in the select
  delivered = <<>>,             \* ghost: values returned by Recv, in order
  okSent = {};                  \* ghost: items whose Send reported success

define
  RECURSIVE ChainFrom(_)
  ChainFrom(n) == IF next[n] = Nil \/ next[n] = END THEN <<>> ELSE <<next[n]>> \o ChainFrom(next[n])
  EndLinked == LET RECURSIVE Reaches(_)
                   Reaches(n) == IF next[n] = Nil THEN FALSE ELSE IF next[n] = END THEN TRUE ELSE Reaches(next[n])
               IN Reaches(tailN)
end define;

process prod \in Producers
variables k = 0, cur = Nil, sent = FALSE;
begin
ALoop:  while k < ItemsPer do
          sent := FALSE;
A_ld:     cur := headN;
          if cur = Nil then goto A_ret; end if;
A_cas:    if headN = cur then
            headN := <<self, k + 1>>;
A_lnk:      next[cur] := <<self, k + 1>>;
A_sig:      if waiting then waiting := FALSE;
            elsif sigB = 0 then sigB := 1;
            end if;
            sent := TRUE;
            okSent := okSent \cup {<<self, k + 1>>};
          else
            goto A_ld;
          end if;
A_ret:    k := k + 1;
        end while;
end process;

process cons = Consumer
variables got = 0, nn = Nil, val = Nil, ok = FALSE;
begin
BLoop:  while got < RecvPer do
          ok := FALSE; val := Nil;
B_ld:     nn := next[tailN];
          if nn = Nil then
B_park:     either await sigB > 0; sigB := 0; goto B_ld;      \* a select with several ready cases picks any of them
            or     await doneCh; goto B_ld;
            or     await sigB = 0 /\ ~doneCh; waiting := TRUE;
B_parked:          await ~waiting; goto B_ld;
            end either;
          elsif nn # END then
            val := nn; ok := TRUE; tailN := nn;
          end if;
B_ret:    if ok then delivered := Append(delivered, val); end if;
          got := got + 1;
        end while;
end process;

process closer \in Closers
variables old = Nil;
begin
K_wait: skip;                                           \* Close may run at any moment, also between the steps of a Send
K_swp:  if closed then goto Done; else closed := TRUE; end if;
K_hd:   old := headN; headN := Nil;
K_lnk:  next[old] := END;
K_cl:   doneCh := TRUE; waiting := FALSE;
end process;
end algorithm; *)
\* BEGIN TRANSLATION
VARIABLES pc, next, headN, tailN, closed, doneCh, sigB, waiting, delivered, 
          okSent

(* define statement *)
RECURSIVE ChainFrom(_)
ChainFrom(n) == IF next[n] = Nil \/ next[n] = END THEN <<>> ELSE <<next[n]>> \o ChainFrom(next[n])
EndLinked == LET RECURSIVE Reaches(_)
                 Reaches(n) == IF next[n] = Nil THEN FALSE ELSE IF next[n] = END THEN TRUE ELSE Reaches(next[n])
             IN Reaches(tailN)

VARIABLES k, cur, sent, got, nn, val, ok, old

vars == << pc, next, headN, tailN, closed, doneCh, sigB, waiting, delivered, 
           okSent, k, cur, sent, got, nn, val, ok, old >>

ProcSet == (Producers) \cup {Consumer} \cup (Closers)

Init == (* Global variables *)
        /\ next = [n \in Nodes |-> Nil]
        /\ headN = S0
        /\ tailN = S0
        /\ closed = FALSE
        /\ doneCh = FALSE
        /\ sigB = 0
        /\ waiting = FALSE
        /\ delivered = <<>>
        /\ okSent = {}
        (* Process prod *)
        /\ k = [self \in Producers |-> 0]
        /\ cur = [self \in Producers |-> Nil]
        /\ sent = [self \in Producers |-> FALSE]
        (* Process cons *)
        /\ got = 0
        /\ nn = Nil
        /\ val = Nil
        /\ ok = FALSE
        (* Process closer *)
        /\ old = [self \in Closers |-> Nil]
        /\ pc = [self \in ProcSet |-> CASE self \in Producers -> "ALoop"
                                        [] self = Consumer -> "BLoop"
                                        [] self \in Closers -> "K_wait"]

ALoop(self) == /\ pc[self] = "ALoop"
               /\ IF k[self] < ItemsPer
                     THEN /\ sent' = [sent EXCEPT ![self] = FALSE]
                          /\ pc' = [pc EXCEPT ![self] = "A_ld"]
                     ELSE /\ pc' = [pc EXCEPT ![self] = "Done"]
                          /\ sent' = sent
               /\ UNCHANGED << next, headN, tailN, closed, doneCh, sigB, 
                               waiting, delivered, okSent, k, cur, got, nn, 
                               val, ok, old >>

A_ld(self) == /\ pc[self] = "A_ld"
              /\ cur' = [cur EXCEPT ![self] = headN]
              /\ IF cur'[self] = Nil
                    THEN /\ pc' = [pc EXCEPT ![self] = "A_ret"]
                    ELSE /\ pc' = [pc EXCEPT ![self] = "A_cas"]
              /\ UNCHANGED << next, headN, tailN, closed, doneCh, sigB, 
                              waiting, delivered, okSent, k, sent, got, nn, 
                              val, ok, old >>

A_cas(self) == /\ pc[self] = "A_cas"
               /\ IF headN = cur[self]
                     THEN /\ headN' = <<self, k[self] + 1>>
                          /\ pc' = [pc EXCEPT ![self] = "A_lnk"]
                     ELSE /\ pc' = [pc EXCEPT ![self] = "A_ld"]
                          /\ headN' = headN
               /\ UNCHANGED << next, tailN, closed, doneCh, sigB, waiting, 
                               delivered, okSent, k, cur, sent, got, nn, val, 
                               ok, old >>

A_lnk(self) == /\ pc[self] = "A_lnk"
               /\ next' = [next EXCEPT ![cur[self]] = <<self, k[self] + 1>>]
               /\ pc' = [pc EXCEPT ![self] = "A_sig"]
               /\ UNCHANGED << headN, tailN, closed, doneCh, sigB, waiting, 
                               delivered, okSent, k, cur, sent, got, nn, val, 
                               ok, old >>

A_sig(self) == /\ pc[self] = "A_sig"
               /\ IF waiting
                     THEN /\ waiting' = FALSE
                          /\ sigB' = sigB
                     ELSE /\ IF sigB = 0
                                THEN /\ sigB' = 1
                                ELSE /\ TRUE
                                     /\ sigB' = sigB
                          /\ UNCHANGED waiting
               /\ sent' = [sent EXCEPT ![self] = TRUE]
               /\ okSent' = (okSent \cup {<<self, k[self] + 1>>})
               /\ pc' = [pc EXCEPT ![self] = "A_ret"]
               /\ UNCHANGED << next, headN, tailN, closed, doneCh, delivered, 
                               k, cur, got, nn, val, ok, old >>

A_ret(self) == /\ pc[self] = "A_ret"
               /\ k' = [k EXCEPT ![self] = k[self] + 1]
               /\ pc' = [pc EXCEPT ![self] = "ALoop"]
               /\ UNCHANGED << next, headN, tailN, closed, doneCh, sigB, 
                               waiting, delivered, okSent, cur, sent, got, nn, 
                               val, ok, old >>

prod(self) == ALoop(self) \/ A_ld(self) \/ A_cas(self) \/ A_lnk(self)
                 \/ A_sig(self) \/ A_ret(self)

BLoop == /\ pc[Consumer] = "BLoop"
         /\ IF got < RecvPer
               THEN /\ ok' = FALSE
                    /\ val' = Nil
                    /\ pc' = [pc EXCEPT ![Consumer] = "B_ld"]
               ELSE /\ pc' = [pc EXCEPT ![Consumer] = "Done"]
                    /\ UNCHANGED << val, ok >>
         /\ UNCHANGED << next, headN, tailN, closed, doneCh, sigB, waiting, 
                         delivered, okSent, k, cur, sent, got, nn, old >>

B_ld == /\ pc[Consumer] = "B_ld"
        /\ nn' = next[tailN]
        /\ IF nn' = Nil
              THEN /\ pc' = [pc EXCEPT ![Consumer] = "B_park"]
                   /\ UNCHANGED << tailN, val, ok >>
              ELSE /\ IF nn' # END
                         THEN /\ val' = nn'
                              /\ ok' = TRUE
                              /\ tailN' = nn'
                         ELSE /\ TRUE
                              /\ UNCHANGED << tailN, val, ok >>
                   /\ pc' = [pc EXCEPT ![Consumer] = "B_ret"]
        /\ UNCHANGED << next, headN, closed, doneCh, sigB, waiting, delivered, 
                        okSent, k, cur, sent, got, old >>

B_park == /\ pc[Consumer] = "B_park"
          /\ \/ /\ sigB > 0
                /\ sigB' = 0
                /\ pc' = [pc EXCEPT ![Consumer] = "B_ld"]
                /\ UNCHANGED waiting
             \/ /\ doneCh
                /\ pc' = [pc EXCEPT ![Consumer] = "B_ld"]
                /\ UNCHANGED <<sigB, waiting>>
             \/ /\ sigB = 0 /\ ~doneCh
                /\ waiting' = TRUE
                /\ pc' = [pc EXCEPT ![Consumer] = "B_parked"]
                /\ sigB' = sigB
          /\ UNCHANGED << next, headN, tailN, closed, doneCh, delivered, 
                          okSent, k, cur, sent, got, nn, val, ok, old >>

B_parked == /\ pc[Consumer] = "B_parked"
            /\ ~waiting
            /\ pc' = [pc EXCEPT ![Consumer] = "B_ld"]
            /\ UNCHANGED << next, headN, tailN, closed, doneCh, sigB, waiting, 
                            delivered, okSent, k, cur, sent, got, nn, val, ok, 
                            old >>

B_ret == /\ pc[Consumer] = "B_ret"
         /\ IF ok
               THEN /\ delivered' = Append(delivered, val)
               ELSE /\ TRUE
                    /\ UNCHANGED delivered
         /\ got' = got + 1
         /\ pc' = [pc EXCEPT ![Consumer] = "BLoop"]
         /\ UNCHANGED << next, headN, tailN, closed, doneCh, sigB, waiting, 
                         okSent, k, cur, sent, nn, val, ok, old >>

cons == BLoop \/ B_ld \/ B_park \/ B_parked \/ B_ret

K_wait(self) == /\ pc[self] = "K_wait"
                /\ TRUE
                /\ pc' = [pc EXCEPT ![self] = "K_swp"]
                /\ UNCHANGED << next, headN, tailN, closed, doneCh, sigB, 
                                waiting, delivered, okSent, k, cur, sent, got, 
                                nn, val, ok, old >>

K_swp(self) == /\ pc[self] = "K_swp"
               /\ IF closed
                     THEN /\ pc' = [pc EXCEPT ![self] = "Done"]
                          /\ UNCHANGED closed
                     ELSE /\ closed' = TRUE
                          /\ pc' = [pc EXCEPT ![self] = "K_hd"]
               /\ UNCHANGED << next, headN, tailN, doneCh, sigB, waiting, 
                               delivered, okSent, k, cur, sent, got, nn, val, 
                               ok, old >>

K_hd(self) == /\ pc[self] = "K_hd"
              /\ old' = [old EXCEPT ![self] = headN]
              /\ headN' = Nil
              /\ pc' = [pc EXCEPT ![self] = "K_lnk"]
              /\ UNCHANGED << next, tailN, closed, doneCh, sigB, waiting, 
                              delivered, okSent, k, cur, sent, got, nn, val, 
                              ok >>

K_lnk(self) == /\ pc[self] = "K_lnk"
               /\ next' = [next EXCEPT ![old[self]] = END]
               /\ pc' = [pc EXCEPT ![self] = "K_cl"]
               /\ UNCHANGED << headN, tailN, closed, doneCh, sigB, waiting, 
                               delivered, okSent, k, cur, sent, got, nn, val, 
                               ok, old >>

K_cl(self) == /\ pc[self] = "K_cl"
              /\ doneCh' = TRUE
              /\ waiting' = FALSE
              /\ pc' = [pc EXCEPT ![self] = "Done"]
              /\ UNCHANGED << next, headN, tailN, closed, sigB, delivered, 
                              okSent, k, cur, sent, got, nn, val, ok, old >>

closer(self) == K_wait(self) \/ K_swp(self) \/ K_hd(self) \/ K_lnk(self)
                   \/ K_cl(self)

(* Allow infinite stuttering to prevent deadlock on termination. *)
Terminating == /\ \A self \in ProcSet: pc[self] = "Done"
               /\ UNCHANGED vars

Next == cons
           \/ (\E self \in Producers: prod(self))
           \/ (\E self \in Closers: closer(self))
           \/ Terminating

Spec == Init /\ [][Next]_vars

Termination == <>(\A self \in ProcSet: pc[self] = "Done")

\* END TRANSLATION

---------------------------------------------------------------------------
\* delivery is exactly-once and FIFO per producer
PerProducerFifo ==
  \A i, j \in DOMAIN delivered : i < j =>
     /\ delivered[i] # delivered[j]
     /\ delivered[i][1] = delivered[j][1] => delivered[i][2] < delivered[j][2]
\* the consumer is never left blocked while a linked item is available and nobody will signal
Stuck == /\ pc[Consumer] = "B_parked" /\ waiting /\ next[tailN] # Nil
         /\ \A p \in Producers \cup Closers : pc[p] = "Done"
NoLostWakeup == ~Stuck
\* no item is lost: when everything has finished (the consumer polls often enough to drain), every item
\* whose Send reported success has been delivered; and nothing is delivered that was not sent successfully
NoLoss == (\A p \in ProcSet : pc[p] = "Done") => okSent = {delivered[i] : i \in DOMAIN delivered}
\* a Send that starts after Close has returned fails
SendAfterCloseFails == \A p \in Producers : (pc[p] = "A_ret" /\ sent[p]) => TRUE
=============================================================================
