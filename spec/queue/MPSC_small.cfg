SPECIFICATION Spec
CONSTANTS
  Producers = {"p1", "p2"}
  Consumer = "c1"
  Closers = {"x1"}
  ItemsPer = 2
  RecvPer = 5
INVARIANTS PerProducerFifo NoLostWakeup NoLoss
