SPECIFICATION Spec
CONSTANTS FirstMarkerDecides = FALSE
          Q <- MCQ
          E <- MCE
          Ents <- MCEnts
          Big <- MCBig
          MaxT = 8
          MaxVer = 2
CONSTRAINT Bound
INVARIANTS NoStaleAfterInvalidation EntrySane
CHECK_DEADLOCK FALSE
