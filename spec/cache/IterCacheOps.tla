---------------------------- MODULE IterCacheOps ----------------------------
(***************************************************************************)
(* The iterator cache (pkg/storage/storagewrappers CachedDatastore) with   *)
(* its invalidation markers, as a sequential object.                       *)
(*                                                                         *)
(* A query q has a list Ents(q) of invalidation entities it depends on (in *)
(* the order the implementation consults them): Read / ReadUsersetTuples   *)
(* depend on <<object#relation>>, ReadStartingWithUser on one (user,       *)
(* object type) entity per subject of its user filter.  Besides there is   *)
(* one store-wide marker.  A marker carries a time; an entry carries the   *)
(* time at which the query that produced it was started.  Times are        *)
(* logical: one tick per operation.                                        *)
(*                                                                         *)
(*   entry valid  <=>  no marker it depends on is newer than the entry     *)
(***************************************************************************)
EXTENDS Integers, Sequences, FiniteSets

CONSTANT FirstMarkerDecides   \* TRUE models the defect "the first marker that exists decides" (must violate the design property)

None == 0
NoEntry == [ver |-> 0, at |-> 0]      \* versions start at 1
Before(at, m) == m # None /\ at < m

MinOf(S) == CHOOSE x \in S : \A y \in S : x <= y

\* is an entry (or a query) started at `at` invalidated by the markers?
Invalid(at, storeM, entM, ents) ==
  \/ Before(at, storeM)
  \/ IF FirstMarkerDecides
     THEN LET present == {i \in DOMAIN ents : entM[ents[i]] # None}
          IN present # {} /\ Before(at, entM[ents[MinOf(present)]])
     ELSE \E i \in DOMAIN ents : Before(at, entM[ents[i]])

\* A non-HIGHER_CONSISTENCY read of a query at time now:
\*   hit  = the entry exists and is valid: its content is served, nothing changes
\*   miss = the datastore is read; the result is stored with the query's start time unless the query is
\*          too big to be cached; an entry found invalid is removed
Hit(entry, storeM, entM, ents) == entry.ver # 0 /\ ~Invalid(entry.at, storeM, entM, ents)
ReadResult(entry, cur, storeM, entM, ents) == IF Hit(entry, storeM, entM, ents) THEN entry.ver ELSE cur
EntryAfterRead(entry, cur, now, big, storeM, entM, ents) ==
  IF Hit(entry, storeM, entM, ents) THEN entry
  ELSE IF big THEN NoEntry ELSE [ver |-> cur, at |-> now]
=============================================================================
