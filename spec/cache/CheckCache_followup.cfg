SPECIFICATION Spec
CONSTANTS
  MaxClock = 9
  Dispatch = FALSE
  FollowUpZero = TRUE
INVARIANT NoStaleAfterRun
CHECK_DEADLOCK FALSE
