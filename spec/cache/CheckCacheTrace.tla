-------------------------- MODULE CheckCacheTrace --------------------------
(***************************************************************************)
(* Conformance of the real resolver chain  CachedCheckResolver ->          *)
(* LocalChecker (whose dispatches go back through the cache)  to the       *)
(* design model CheckCache, reusing its actions.  The driver plays the     *)
(* cache controller itself: CRunBegin snapshots the time of the last       *)
(* change, CRunEnd publishes it; a "check" request is given the published  *)
(* invalidation time, a "followup" request the zero time, an "hc" request  *)
(* asks with HIGHER_CONSISTENCY (no lookup, result stored).  One operation *)
(* = one tick of the model's clock; wall-clock stamps are taken at the     *)
(* start of every operation, so "stored after" coincides in both worlds.   *)
(*   parent = doc:1#viewer@user:a  (viewer from parent -> dispatches child)*)
(*   child  = folder:1#viewer@user:a (flipped by every CWrite)             *)
(***************************************************************************)
EXTENDS CheckCache, Sequences, Json

Trace == ndJsonDeserialize("trace.ndjson")
VARIABLES l, bad, counts, judged
tvars == <<vars, l, bad, counts, judged>>
Ev1 == Trace[l]
IsEvent(e) == l <= Len(Trace) /\ Trace[l].e = e /\ l' = l + 1
Bump(c, cls) == [x \in DOMAIN c \cup {cls} |-> IF x = cls THEN (IF x \in DOMAIN c THEN c[x] ELSE 0) + 1 ELSE c[x]]
Quiet == UNCHANGED <<bad, counts, judged>>

TInit == Init /\ l = 1 /\ bad = <<>> /\ counts = [x \in {"OK"} |-> 0] /\ judged = 0

TrReset == /\ IsEvent("CReset")
           /\ clock' = 1 /\ ver' = 0 /\ lastChange' = 0 /\ inv' = -1 /\ running' = FALSE /\ snap' = 0
           /\ freshSince' = FALSE /\ cache' = [k \in Keys |-> None] /\ stale' = FALSE /\ Quiet
TrWrite == IsEvent("CWrite") /\ Write /\ Quiet
TrRunBegin == IsEvent("CRunBegin") /\ RunBegin /\ Quiet
TrRunEnd == IsEvent("CRunEnd") /\ RunEnd /\ Quiet

\* HIGHER_CONSISTENCY: no lookup; the fresh results are stored (for the parent: child and parent)
ResolveHC(k) ==
  LET c1 == IF k = "parent" THEN [cache EXCEPT !["child"] = [val |-> Truth(ver), at |-> clock]] ELSE cache
  IN [ans |-> Truth(ver), c |-> [c1 EXCEPT ![k] = [val |-> Truth(ver), at |-> clock]]]

TrRequest ==
  /\ IsEvent("CRequest") /\ Step
  /\ LET r == IF Ev1.kind = "hc" THEN ResolveHC(Ev1.k) ELSE Resolve(Ev1.k, Ev1.kind)
         hit == Ev1.kind # "hc" /\ Valid(cache[Ev1.k], InvFor(Ev1.kind))
         c == IF Ev1.got # r.ans THEN (IF hit THEN "BAD_CHECKCACHE_ENTRY_CONTENT" ELSE IF Ev1.got = cache[Ev1.k].val THEN "BAD_CHECKCACHE_INVALID_ENTRY_SERVED" ELSE "BAD_CHECKCACHE_RESULT")
              \* the code does what the design does - including the design's hazard (CheckCache_dispatch.cfg violates
              \* NoStaleAfterRun): a "check" request served stale although a run that began after the last write has
              \* ended, because a parent entry was computed from a stale child inside the window.  Known finding KF-27.
              ELSE IF Ev1.kind = "check" /\ freshSince /\ r.ans # Truth(ver) THEN "KF_CheckCacheParentFromStaleChild"
              ELSE IF Ev1.kind = "hc" THEN "OK_CHECKCACHE_BYPASS" ELSE IF hit THEN "OK_CHECKCACHE_HIT" ELSE "OK_CHECKCACHE_MISS"
     IN /\ cache' = r.c
        /\ stale' = (stale \/ (freshSince /\ r.ans # Truth(ver)))
        /\ counts' = Bump(counts, c) /\ judged' = judged + 1
        /\ bad' = IF c \in {"OK_CHECKCACHE_BYPASS", "OK_CHECKCACHE_HIT", "OK_CHECKCACHE_MISS"} THEN bad
                  ELSE Append(bad, [l |-> l, cls |-> c, ref |-> ToString(r.ans), note |-> Ev1.kind])
  /\ UNCHANGED <<ver, lastChange, inv, running, snap, freshSince>>
TrEnd ==
  /\ IsEvent("End")
  /\ PrintT(<<"VERIF", "END", ToJson([l |-> l, judged |-> judged, skipped |-> 0, bad |-> bad, counts |-> counts])>>)
  /\ UNCHANGED vars /\ Quiet
TSpec == TInit /\ [][TrReset \/ TrWrite \/ TrRunBegin \/ TrRunEnd \/ TrRequest \/ TrEnd]_tvars
TraceAccepted == TLCGet("stats").diameter - 1 = Len(Trace)
=============================================================================
