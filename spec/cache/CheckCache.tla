------------------------------ MODULE CheckCache ------------------------------
(***************************************************************************)
(* Check query cache + cache controller (internal/graph/cached_resolver.go, *)
(* internal/cachecontroller): design-level model of how staleness is        *)
(* bounded after a write (C11, C08).                                        *)
(*                                                                         *)
(* Two cache keys: a child sub-problem whose truth is flipped by every      *)
(* write, and a parent whose truth equals the child's.  A cached entry      *)
(* carries the time it was stored.  The controller's run reads the time of  *)
(* the last change (RunBegin) and publishes it as the invalidation time     *)
(* (RunEnd); a request accepts an entry only if it was stored after the     *)
(* invalidation time it was given.                                          *)
(*   - a Check request is given the published invalidation time;            *)
(*   - a ListObjects follow-up check is given the zero time (FollowUpZero), *)
(*     as list_objects.go builds it without the cache controller;           *)
(*   - with Dispatch the parent is resolved through the (cached) child,     *)
(*     otherwise from the store.                                            *)
(* Every step advances the clock, so time stamps are distinct.              *)
(***************************************************************************)
EXTENDS Integers, TLC

CONSTANTS MaxClock,      \* bound of the exploration
          Dispatch,      \* BOOLEAN: the parent is computed from the child's (possibly cached) answer
          FollowUpZero   \* BOOLEAN: "followup" requests ignore the invalidation time

VARIABLES clock, ver, lastChange, inv, running, snap, freshSince, cache, stale
vars == <<clock, ver, lastChange, inv, running, snap, freshSince, cache, stale>>

Keys == {"child", "parent"}
None == [val |-> FALSE, at |-> -1]          \* no entry
Truth(v) == v % 2 = 0                        \* truth of both keys at store version v

Init == /\ clock = 1 /\ ver = 0 /\ lastChange = 0 /\ inv = -1 /\ running = FALSE /\ snap = 0
        /\ freshSince = FALSE /\ cache = [k \in Keys |-> None] /\ stale = FALSE

Step == clock < MaxClock /\ clock' = clock + 1

Write ==
  /\ Step
  /\ ver' = ver + 1 /\ lastChange' = clock
  /\ freshSince' = FALSE                     \* answers may be stale until a run that begins from now on has ended
  /\ UNCHANGED <<inv, running, snap, cache, stale>>

RunBegin ==
  /\ Step /\ ~running
  /\ running' = TRUE /\ snap' = lastChange
  /\ UNCHANGED <<ver, lastChange, inv, freshSince, cache, stale>>
RunEnd ==
  /\ Step /\ running
  /\ running' = FALSE /\ inv' = snap
  /\ freshSince' = (freshSince \/ snap = lastChange)   \* the run began after the last write
  /\ UNCHANGED <<ver, lastChange, snap, cache, stale>>

Valid(e, t) == e.at > t
InvFor(kind) == IF kind = "followup" /\ FollowUpZero THEN -1 ELSE inv

\* the answer to key k and the cache after the request
Resolve(k, kind) ==
  LET t == InvFor(kind) IN
  IF Valid(cache[k], t) THEN [ans |-> cache[k].val, c |-> cache]
  ELSE IF k = "parent" /\ Dispatch THEN
         LET childAns == IF Valid(cache["child"], t) THEN cache["child"].val ELSE Truth(ver)
             c1 == IF Valid(cache["child"], t) THEN cache ELSE [cache EXCEPT !["child"] = [val |-> Truth(ver), at |-> clock]]
         IN [ans |-> childAns, c |-> [c1 EXCEPT !["parent"] = [val |-> childAns, at |-> clock]]]
  ELSE [ans |-> Truth(ver), c |-> [cache EXCEPT ![k] = [val |-> Truth(ver), at |-> clock]]]

Request(k, kind) ==
  /\ Step
  /\ LET r == Resolve(k, kind) IN
     /\ cache' = r.c
     /\ stale' = (stale \/ (freshSince /\ r.ans # Truth(ver)))
  /\ UNCHANGED <<ver, lastChange, inv, running, snap, freshSince>>

Next == Write \/ RunBegin \/ RunEnd \/ \E k \in Keys, kind \in {"check", "followup"} : Request(k, kind)
Spec == Init /\ [][Next]_vars

\* once a run that began after the last write has ended, no answer is computed from entries
\* populated before that write
NoStaleAfterRun == ~stale
=============================================================================
