SPECIFICATION Spec
CONSTANTS FirstMarkerDecides = FALSE
POSTCONDITION TraceAccepted
CHECK_DEADLOCK FALSE
