--------------------------- MODULE IterCacheTrace ---------------------------
(***************************************************************************)
(* Conformance of the real CachedDatastore (with a real in-memory cache)   *)
(* to IterCacheOps.  The driver runs one operation at a time and waits for *)
(* the background fill after every read, so the object is sequential.      *)
(* Operation t of a run happens at logical time t; a marker "at j" carries *)
(* the wall-clock time taken at the start of operation j (j <= t), an      *)
(* entry produced by a read at operation t carries a time inside t.        *)
(*                                                                         *)
(*  Reset(queries : Seq([ents, big]))                                      *)
(*  Write(q)         the datastore's answer to q changes (version + 1)     *)
(*  MarkStore(at) / MarkEntity(ent, at) / DropStore / DropEntity(ent)      *)
(*  DropEntry(q)                                                           *)
(*  Read(q, hc, ver, n, wantn): ver = version of the content returned,     *)
(*         n = tuples returned, wantn = size of that version's full answer *)
(*         (n < wantn only for reads the driver stopped early: part = TRUE)*)
(***************************************************************************)
EXTENDS IterCacheOps, TLC, Json

Trace == ndJsonDeserialize("trace.ndjson")
VARIABLES l, t, qs, data, entry, storeM, entM, bad, counts, judged
vars == <<l, t, qs, data, entry, storeM, entM, bad, counts, judged>>
Ev1 == Trace[l]
IsEvent(e) == l <= Len(Trace) /\ Trace[l].e = e /\ l' = l + 1
Bump(c, cls) == [x \in DOMAIN c \cup {cls} |-> IF x = cls THEN (IF x \in DOMAIN c THEN c[x] ELSE 0) + 1 ELSE c[x]]
Upd(f, k, v) == [x \in DOMAIN f \cup {k} |-> IF x = k THEN v ELSE f[x]]
Mk(f, k) == IF k \in DOMAIN f THEN f[k] ELSE None
Init == l = 1 /\ t = 1 /\ qs = <<>> /\ data = <<>> /\ entry = <<>> /\ storeM = None /\ entM = <<>>
        /\ bad = <<>> /\ counts = [x \in {"OK"} |-> 0] /\ judged = 0
Quiet == UNCHANGED <<bad, counts, judged>>

TrReset == /\ IsEvent("Reset") /\ t' = 1 /\ qs' = Ev1.queries
           /\ data' = [q \in DOMAIN Ev1.queries |-> 1] /\ entry' = [q \in DOMAIN Ev1.queries |-> NoEntry]
           /\ storeM' = None /\ entM' = <<>> /\ Quiet
TrWrite == /\ IsEvent("Write") /\ data' = [data EXCEPT ![Ev1.q] = @ + 1] /\ t' = t + 1 /\ UNCHANGED <<qs, entry, storeM, entM>> /\ Quiet
TrMarkStore == /\ IsEvent("MarkStore") /\ storeM' = Ev1.at /\ t' = t + 1 /\ UNCHANGED <<qs, data, entry, entM>> /\ Quiet
TrMarkEntity == /\ IsEvent("MarkEntity") /\ entM' = Upd(entM, Ev1.ent, Ev1.at) /\ t' = t + 1 /\ UNCHANGED <<qs, data, entry, storeM>> /\ Quiet
TrDropStore == /\ IsEvent("DropStore") /\ storeM' = None /\ t' = t + 1 /\ UNCHANGED <<qs, data, entry, entM>> /\ Quiet
TrDropEntity == /\ IsEvent("DropEntity") /\ entM' = Upd(entM, Ev1.ent, None) /\ t' = t + 1 /\ UNCHANGED <<qs, data, entry, storeM>> /\ Quiet
TrDropEntry == /\ IsEvent("DropEntry") /\ entry' = [entry EXCEPT ![Ev1.q] = NoEntry] /\ t' = t + 1 /\ UNCHANGED <<qs, data, storeM, entM>> /\ Quiet

TrRead ==
  /\ IsEvent("Read")
  /\ LET q == Ev1.q
         ents == qs[q].ents
         EM == [e \in {ents[i] : i \in DOMAIN ents} |-> Mk(entM, e)]
         hit == ~Ev1.hc /\ Hit(entry[q], storeM, EM, ents)
         want == IF Ev1.hc THEN data[q] ELSE ReadResult(entry[q], data[q], storeM, EM, ents)
         c == IF Ev1.ver # want THEN (IF Ev1.ver < want THEN "BAD_ITERCACHE_STALE" ELSE "BAD_ITERCACHE_RESULT")
              ELSE IF ~Ev1.part /\ Ev1.n # Ev1.wantn THEN "BAD_ITERCACHE_INCOMPLETE_RESULT_SERVED"
              ELSE IF Ev1.hc THEN "OK_ITERCACHE_BYPASS" ELSE IF hit THEN "OK_ITERCACHE_HIT" ELSE "OK_ITERCACHE_MISS"
     IN /\ entry' = IF Ev1.hc THEN entry
                    ELSE [entry EXCEPT ![q] = EntryAfterRead(entry[q], data[q], t, qs[q].big, storeM, EM, ents)]
        /\ counts' = Bump(counts, c) /\ judged' = judged + 1
        /\ bad' = IF c \in {"OK_ITERCACHE_BYPASS", "OK_ITERCACHE_HIT", "OK_ITERCACHE_MISS"} THEN bad
                  ELSE Append(bad, [l |-> l, cls |-> c, ref |-> ToString(want), note |-> IF hit THEN "hit" ELSE "miss"])
  /\ t' = t + 1 /\ UNCHANGED <<qs, data, storeM, entM>>
TrEnd ==
  /\ IsEvent("End")
  /\ PrintT(<<"VERIF", "END", ToJson([l |-> l, judged |-> judged, skipped |-> 0, bad |-> bad, counts |-> counts])>>)
  /\ UNCHANGED <<t, qs, data, entry, storeM, entM>> /\ Quiet
Spec == Init /\ [][TrReset \/ TrWrite \/ TrMarkStore \/ TrMarkEntity \/ TrDropStore \/ TrDropEntity \/ TrDropEntry \/ TrRead \/ TrEnd]_vars
TraceAccepted == TLCGet("stats").diameter - 1 = Len(Trace)
=============================================================================
