SPECIFICATION Spec
CONSTANTS
  MaxClock = 9
  Dispatch = FALSE
  FollowUpZero = FALSE
INVARIANT NoStaleAfterRun
CHECK_DEADLOCK FALSE
