SPECIFICATION TSpec
CONSTANTS MaxClock = 1000000
          Dispatch = TRUE
          FollowUpZero = TRUE
POSTCONDITION TraceAccepted
CHECK_DEADLOCK FALSE
