------------------------------ MODULE IterCache ------------------------------
(***************************************************************************)
(* Transition system over IterCacheOps, checked exhaustively by TLC:       *)
(* writes to the datastore, invalidation markers set (now) and dropped     *)
(* (expiry), entries dropped (expiry / eviction), reads.                   *)
(*                                                                         *)
(* Design property (C11): a read never serves content older than the       *)
(* datastore's when a marker the query depends on was set after the last   *)
(* write to that query's data ("once an invalidation run that started      *)
(* after a write has completed, no later request returns an answer         *)
(* computed from cache entries populated before that write").              *)
(***************************************************************************)
EXTENDS IterCacheOps, TLC

CONSTANTS Q,        \* queries
          E,        \* invalidation entities
          Ents,     \* [Q -> Seq(E)]
          Big,      \* subset of Q never cached (result larger than the limit)
          MaxT, MaxVer

VARIABLES now, data, lastWrite, entry, storeM, entM, last
vars == <<now, data, lastWrite, entry, storeM, entM, last>>

Init == /\ now = 1 /\ data = [q \in Q |-> 1] /\ lastWrite = [q \in Q |-> 0]
        /\ entry = [q \in Q |-> NoEntry] /\ storeM = None /\ entM = [e \in E |-> None]
        /\ last = [stale |-> FALSE, covered |-> FALSE]

Tick == now' = now + 1
Write(q) == /\ data[q] < MaxVer /\ data' = [data EXCEPT ![q] = @ + 1] /\ lastWrite' = [lastWrite EXCEPT ![q] = now]
            /\ Tick /\ UNCHANGED <<entry, storeM, entM, last>>
MarkStore == storeM' = now /\ Tick /\ UNCHANGED <<data, lastWrite, entry, entM, last>>
MarkEntity(e) == entM' = [entM EXCEPT ![e] = now] /\ Tick /\ UNCHANGED <<data, lastWrite, entry, storeM, last>>
DropStore == storeM # None /\ storeM' = None /\ Tick /\ UNCHANGED <<data, lastWrite, entry, entM, last>>
DropEntity(e) == entM[e] # None /\ entM' = [entM EXCEPT ![e] = None] /\ Tick /\ UNCHANGED <<data, lastWrite, entry, storeM, last>>
DropEntry(q) == entry[q].ver # 0 /\ entry' = [entry EXCEPT ![q] = NoEntry] /\ Tick /\ UNCHANGED <<data, lastWrite, storeM, entM, last>>
Read(q) ==
  LET res == ReadResult(entry[q], data[q], storeM, entM, Ents[q]) IN
  /\ entry' = [entry EXCEPT ![q] = EntryAfterRead(entry[q], data[q], now, q \in Big, storeM, entM, Ents[q])]
  /\ last' = [stale |-> res # data[q],
              covered |-> storeM > lastWrite[q] \/ \E i \in DOMAIN Ents[q] : entM[Ents[q][i]] > lastWrite[q]]
  /\ Tick /\ UNCHANGED <<data, lastWrite, storeM, entM>>

Next == \/ \E q \in Q : Write(q) \/ Read(q) \/ DropEntry(q)
        \/ MarkStore \/ DropStore \/ \E e \in E : MarkEntity(e) \/ DropEntity(e)
Spec == Init /\ [][Next]_vars
Bound == now <= MaxT

NoStaleAfterInvalidation == ~(last.stale /\ last.covered)
\* content is only ever what the datastore held at some time (never invented)
EntrySane == \A q \in Q : entry[q].ver # 0 => entry[q].ver <= data[q] /\ entry[q].at < now /\ q \notin Big
=============================================================================
