SPECIFICATION Spec
CONSTANTS
  MaxClock = 9
  Dispatch = TRUE
  FollowUpZero = FALSE
INVARIANT NoStaleAfterRun
CHECK_DEADLOCK FALSE
