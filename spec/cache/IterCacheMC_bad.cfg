SPECIFICATION Spec
CONSTANTS FirstMarkerDecides = TRUE
          Q <- MCQ
          E <- MCE
          Ents <- MCEnts
          Big <- MCBig
          MaxT = 8
          MaxVer = 2
CONSTRAINT Bound
INVARIANTS NoStaleAfterInvalidation
CHECK_DEADLOCK FALSE
