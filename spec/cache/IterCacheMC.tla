---------------------------- MODULE IterCacheMC ----------------------------
EXTENDS IterCache
MCQ == {1, 2}
MCE == {"ua", "uw", "or"}
MCEnts == [q \in MCQ |-> IF q = 1 THEN <<"ua", "uw">> ELSE <<"or">>]   \* q1: reverse lookup with user + wildcard; q2: object#relation
MCBig == {}
=============================================================================
