------------------------------ MODULE AuthzTrace ------------------------------
(***************************************************************************)
(* C26: API access control allows exactly what the control store grants.   *)
(*                                                                         *)
(* State: the control model, the tuples of the control store, the set of   *)
(* existing stores and, per store, the module of each (type, relation).    *)
(* Each Call line is one RPC issued against the real server with access    *)
(* control enabled: method, caller identity ("" = none), target store, the *)
(* (type, relation) pairs a Write touches, whether reads of the control    *)
(* store were made to fail, the outcome (forbidden / passed), the datastore *)
(* operations the call performed outside the control store, and for         *)
(* ListStores the returned store ids.                                       *)
(*                                                                         *)
(* The grant relation is the reference semantics of FGACore (Holds) over    *)
(* the control store, with the implicit store -> system link (and, for a    *)
(* module, the module -> store link).                                       *)
(***************************************************************************)
EXTENDS FGACore, Json

Trace == ndJsonDeserialize("trace.ndjson")
VARIABLES l, model, control, stores, modmap, emptyctx, bad, counts, judged
vars == <<l, model, control, stores, modmap, emptyctx, bad, counts, judged>>
Ev1 == Trace[l]
IsEvent(e) == l <= Len(Trace) /\ Trace[l].e = e /\ l' = l + 1
Bump(c, cls) == [x \in DOMAIN c \cup {cls} |-> IF x = cls THEN (IF x \in DOMAIN c THEN c[x] ELSE 0) + 1 ELSE c[x]]

Init == /\ l = 1 /\ model = <<>> /\ control = {} /\ stores = {} /\ modmap = <<>> /\ emptyctx = <<>>
        /\ bad = <<>> /\ counts = [x \in {"OK"} |-> 0] /\ judged = 0

\* documented method -> relation table
RelationOf(m) ==
  CASE m \in {"ReadAuthorizationModel", "ReadAuthorizationModels"} -> "can_call_read_authorization_models"
    [] m = "Read" -> "can_call_read"
    [] m = "Write" -> "can_call_write"
    [] m \in {"ListObjects", "StreamedListObjects"} -> "can_call_list_objects"
    [] m \in {"Check", "BatchCheck"} -> "can_call_check"
    [] m = "ListUsers" -> "can_call_list_users"
    [] m = "WriteAssertions" -> "can_call_write_assertions"
    [] m = "ReadAssertions" -> "can_call_read_assertions"
    [] m = "WriteAuthorizationModel" -> "can_call_write_authorization_models"
    [] m = "ListStores" -> "can_call_list_stores"
    [] m = "CreateStore" -> "can_call_create_stores"
    [] m = "GetStore" -> "can_call_get_store"
    [] m = "DeleteStore" -> "can_call_delete_store"
    [] m = "Expand" -> "can_call_expand"
    [] m = "ReadChanges" -> "can_call_read_changes"

App(c)      == [t |-> "application", id |-> c, rel |-> ""]
SystemObj   == [t |-> "system", id |-> "fga"]
StoreObj(s) == [t |-> "store", id |-> s]
ModObj(s, m) == [t |-> "module", id |-> s \o "|" \o m]
\* implicit links supplied with every decision
SysT(s)    == [o |-> StoreObj(s), r |-> "system", u |-> [t |-> "system", id |-> "fga", rel |-> ""], c |-> "", cctx |-> emptyctx]
ModT(s, m) == [o |-> ModObj(s, m), r |-> "store", u |-> [t |-> "store", id |-> s, rel |-> ""], c |-> "", cctx |-> emptyctx]

Granted(TS, o, r, c) == HasRel(model, o.t, r) /\ Holds(model, TS, emptyctx, o, r, App(c)) = "T"

StoreGrant(c, r, s)  == Granted(control \cup {SysT(s)}, StoreObj(s), r, c)
ModuleGrant(c, r, s, m) == Granted(control \cup {SysT(s), ModT(s, m)}, ModObj(s, m), r, c)
SystemGrant(c, r)    == Granted(control, SystemObj, r, c)

\* module of a (type, relation) of store s ("" = none)
ModOf(s, t, r) ==
  LET es == {e \in SeqToSet(modmap[s]) : e.t = t /\ e.r = r} IN
  IF es = {} THEN "" ELSE (CHOOSE e \in es : TRUE).m

WriteModules(ev) == {ModOf(ev.store, x.t, x.r) : x \in SeqToSet(ev.wr)}

\* what the control store grants this call
Permitted(ev) ==
  /\ ev.client # ""
  /\ IF ev.method \in {"CreateStore", "ListStores"} THEN SystemGrant(ev.client, RelationOf(ev.method))
     ELSE \/ StoreGrant(ev.client, RelationOf(ev.method), ev.store)
          \/ /\ ev.method = "Write"
             /\ LET ms == WriteModules(ev) IN
                /\ ms # {} /\ "" \notin ms /\ Cardinality(ms) = 1
                /\ \A m \in ms : ModuleGrant(ev.client, "can_call_write", ev.store, m)

\* datastore operations a denied call may have performed outside the control store:
\* resolving the target store's model (needed to find a write's modules) and nothing else
DeniedOpsOK(ev) == SeqToSet(ev.ops) \subseteq {"ReadAuthorizationModel", "FindLatestAuthorizationModel"}

\* stores the caller may get
MayGet(c) == {s \in stores : StoreGrant(c, "can_call_get_store", s)}

\* fault = "none": control-store reads work; "all": every tuple read of the control store fails
\* (no decision can be reached: deny); "some": reads fail at random (a granted call may be denied)
CallClass(ev) ==
  LET want == Permitted(ev) IN
  IF ev.got = "passed" /\ ev.client = "" THEN "BAD_AUTHZ_NO_IDENTITY_ALLOWED"
  ELSE IF ev.got = "passed" /\ ev.fault = "all" THEN "BAD_AUTHZ_ERROR_ALLOWED"
  ELSE IF ev.got = "passed" /\ ~want THEN "BAD_AUTHZ_ALLOWED_WITHOUT_GRANT"
  ELSE IF ev.got = "forbidden" /\ want /\ ev.fault = "none" THEN "BAD_AUTHZ_DENIED_DESPITE_GRANT"
  ELSE IF ev.got = "forbidden" /\ ~DeniedOpsOK(ev) THEN "BAD_AUTHZ_DATA_TOUCHED_BEFORE_DENY"
  ELSE IF ev.got = "passed" /\ ev.method = "ListStores" /\ ~(SeqToSet(ev.listed) \subseteq MayGet(ev.client))
       THEN "BAD_AUTHZ_LISTSTORES_LEAK"
  ELSE IF ev.got = "forbidden" /\ ev.fault # "none" THEN "OK_DENIED_ON_ERROR"
  ELSE IF want THEN (IF ev.method = "Write" /\ ~StoreGrant(ev.client, "can_call_write", ev.store) THEN "OK_ALLOWED_BY_MODULE" ELSE "OK_ALLOWED")
  ELSE IF ev.client = "" THEN "OK_DENIED_NO_IDENTITY" ELSE "OK_DENIED"

\* the control model, the per-store module maps, the existing stores and the control store's content
TrControl ==
  /\ IsEvent("Control")
  /\ model' = Ev1.model /\ modmap' = Ev1.modmap /\ emptyctx' = Ev1.emptyctx
  /\ control' = SeqToSet(Ev1.tuples) /\ stores' = SeqToSet(Ev1.stores)
  /\ UNCHANGED <<bad, counts, judged>>
OKs == {"OK_ALLOWED", "OK_ALLOWED_BY_MODULE", "OK_DENIED", "OK_DENIED_ON_ERROR", "OK_DENIED_NO_IDENTITY"}
TrCall ==
  /\ IsEvent("Call")
  /\ LET c == CallClass(Ev1) IN
     /\ counts' = Bump(counts, c) /\ judged' = judged + 1
     /\ bad' = IF c \in OKs THEN bad
               ELSE Append(bad, [l |-> l, cls |-> c, ref |-> IF Permitted(Ev1) THEN "granted" ELSE "not granted",
                                 note |-> IF Ev1.method = "ListStores" THEN ToString(MayGet(Ev1.client)) ELSE ""])
  /\ UNCHANGED <<model, control, stores, modmap, emptyctx>>
TrEnd ==
  /\ IsEvent("End")
  /\ PrintT(<<"VERIF", "END", ToJson([l |-> l, judged |-> judged, skipped |-> 0, bad |-> bad, counts |-> counts])>>)
  /\ UNCHANGED <<model, control, stores, modmap, emptyctx, bad, counts, judged>>

Spec == Init /\ [][TrControl \/ TrCall \/ TrEnd]_vars
TraceAccepted == TLCGet("stats").diameter - 1 = Len(Trace)
=============================================================================
