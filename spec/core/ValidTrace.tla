------------------------------ MODULE ValidTrace ------------------------------
(***************************************************************************)
(* C18: tuple validation accepts exactly what the model allows.            *)
(* State: model and stored tuples.  TryWrite is a Write request whose       *)
(* tuples are new keys (so only validation can refuse it); TryContextual    *)
(* is a Check carrying one contextual tuple; Dump is the store read back.   *)
(***************************************************************************)
EXTENDS FGACore, Json

Trace == ndJsonDeserialize("trace.ndjson")
VARIABLES l, model, stored, limit, bad, counts, judged
vars == <<l, model, stored, limit, bad, counts, judged>>
Ev1 == Trace[l]
IsEvent(e) == l <= Len(Trace) /\ Trace[l].e = e /\ l' = l + 1
Bump(c, cls) == [x \in DOMAIN c \cup {cls} |-> IF x = cls THEN (IF x \in DOMAIN c THEN c[x] ELSE 0) + 1 ELSE c[x]]
Init == /\ l = 1 /\ model = [types |-> <<>>, rels |-> <<>>, conds |-> <<>>] /\ stored = {} /\ limit = 0
        /\ bad = <<>> /\ counts = [x \in {"OK"} |-> 0] /\ judged = 0

\* a userset that points at itself: object:id # relation @ object:id # relation
SelfReferencing(t) == IsUserset(t.u) /\ t.u.t = t.o.t /\ t.u.id = t.o.id /\ t.u.rel = t.r

\* the tuple as the model allows it: object type and relation exist, the user matches one of the
\* relation's type restrictions (object type, typed wildcard or userset) with the condition that
\* restriction carries and a context fitting the declared parameter types, tupleset relations get
\* concrete objects only (all of this is FGACore!TupleReadValid); the object is a concrete object;
\* the tuple is not a userset pointing at itself; the stored context respects the size limit.
\* x.bytes is the encoded size of the tuple's context.
Acceptable(M, x) ==
  /\ TupleReadValid(M, x.t)
  /\ x.t.o.id # "*"
  /\ ~SelfReferencing(x.t)
  /\ x.bytes <= limit

Why(M, x) ==
  IF ~HasRel(M, x.t.o.t, x.t.r) THEN "unknown type or relation"
  ELSE IF x.t.o.id = "*" THEN "wildcard object"
  ELSE IF SelfReferencing(x.t) THEN "self-referencing userset"
  ELSE IF x.bytes > limit THEN "context size"
  ELSE IF IsTupleset(M, x.t.o.t, x.t.r) /\ ~IsPlain(x.t.u) THEN "tupleset relation"
  ELSE IF ~\E y \in Restr(M, x.t.o.t, x.t.r) : RestrMatches(y, x.t) THEN "type restriction / condition"
  ELSE IF ~TupleReadValid(M, x.t) THEN "condition context"
  ELSE "acceptable"

Judge(cls, ref) ==
  /\ counts' = Bump(counts, cls) /\ judged' = judged + 1
  /\ bad' = IF cls \in {"OK_ACCEPTED", "OK_REJECTED", "OK_DUMP"} THEN bad ELSE Append(bad, [l |-> l, cls |-> cls, ref |-> ref, note |-> ""])

TrSetup ==
  /\ IsEvent("Setup")
  /\ model' = Ev1.model /\ stored' = SeqToSet(Ev1.tuples) /\ limit' = Ev1.limit
  /\ UNCHANGED <<bad, counts, judged>>

TrTryWrite ==
  /\ IsEvent("TryWrite")
  /\ LET ok == \A i \in DOMAIN Ev1.wrs : Acceptable(model, Ev1.wrs[i])
         why == IF ok THEN "acceptable" ELSE Why(model, Ev1.wrs[CHOOSE i \in DOMAIN Ev1.wrs : ~Acceptable(model, Ev1.wrs[i])])
     IN /\ IF Ev1.accepted /\ ~ok THEN Judge(IF why = "context size" THEN "BAD_VALIDATION_SIZE_ACCEPTED" ELSE "BAD_VALIDATION_ACCEPTED", why)
           ELSE IF ~Ev1.accepted /\ ok THEN Judge("BAD_VALIDATION_REJECTED", why)
           ELSE Judge(IF ok THEN "OK_ACCEPTED" ELSE "OK_REJECTED", why)
        \* the store follows the real outcome, so that a wrong acceptance shows once and the dump check stays meaningful
        /\ stored' = IF Ev1.accepted THEN stored \cup {Ev1.wrs[i].t : i \in DOMAIN Ev1.wrs} ELSE stored
  /\ UNCHANGED <<model, limit>>

TrTryContextual ==
  /\ IsEvent("TryContextual")
  /\ LET ok == Acceptable(model, Ev1.x)
         why == Why(model, Ev1.x)
     IN IF Ev1.accepted /\ ~ok THEN
             Judge(IF why = "self-referencing userset" THEN "KF_ContextualSelfReferencingAccepted"
                   ELSE IF why = "context size" THEN "KF_ContextualSizeLimitNotEnforced" ELSE "BAD_VALIDATION_ACCEPTED", why)
        ELSE IF ~Ev1.accepted /\ ok THEN Judge("BAD_VALIDATION_REJECTED", why)
        ELSE Judge(IF ok THEN "OK_ACCEPTED" ELSE "OK_REJECTED", why)
  /\ UNCHANGED <<model, stored, limit>>

\* a rejected write changes nothing (and an accepted one adds exactly its tuples)
TrDump ==
  /\ IsEvent("Dump")
  /\ Judge(IF SeqToSet(Ev1.tuples) = stored /\ Len(Ev1.tuples) = Cardinality(stored) THEN "OK_DUMP" ELSE "BAD_VALIDATION_STORE_CHANGED", "")
  /\ UNCHANGED <<model, stored, limit>>

TrEnd ==
  /\ IsEvent("End")
  /\ PrintT(<<"VERIF", "END", ToJson([l |-> l, judged |-> judged, skipped |-> 0, bad |-> bad, counts |-> counts])>>)
  /\ UNCHANGED <<model, stored, limit, bad, counts, judged>>
Spec == Init /\ [][TrSetup \/ TrTryWrite \/ TrTryContextual \/ TrDump \/ TrEnd]_vars
TraceAccepted == TLCGet("stats").diameter - 1 = Len(Trace)
=============================================================================
