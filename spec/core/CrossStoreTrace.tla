--------------------------- MODULE CrossStoreTrace ---------------------------
(***************************************************************************)
(* C16 (query side): two stores with identical ids, names and tuples but    *)
(* different models.  A Check on one store is answered under that store's   *)
(* own latest model - also when both stores resolve their latest model at   *)
(* the same moment - and a model id of the other store is not accepted.     *)
(*   Stores   a, b : [model, tuples]                                        *)
(*   XCheck   store in {"a","b"}, mode in {"latest","own","foreign"},       *)
(*            o, r, u, got in {"T","F","ERR"}                               *)
(***************************************************************************)
EXTENDS FGACore, Json

Trace == ndJsonDeserialize("trace.ndjson")
VARIABLES l, sa, sb, bad, counts, judged
vars == <<l, sa, sb, bad, counts, judged>>
Ev1 == Trace[l]
IsEvent(e) == l <= Len(Trace) /\ Trace[l].e = e /\ l' = l + 1
Bump(c, cls) == [x \in DOMAIN c \cup {cls} |-> IF x = cls THEN (IF x \in DOMAIN c THEN c[x] ELSE 0) + 1 ELSE c[x]]
Empty == [model |-> [types |-> <<>>, rels |-> <<>>, conds |-> <<>>], tuples |-> <<>>]
Init == l = 1 /\ sa = Empty /\ sb = Empty /\ bad = <<>> /\ counts = [x \in {"OK"} |-> 0] /\ judged = 0

TrStores ==
  /\ IsEvent("Stores") /\ sa' = Ev1.a /\ sb' = Ev1.b /\ UNCHANGED <<bad, counts, judged>>

TrXCheck ==
  /\ IsEvent("XCheck")
  /\ LET s == IF Ev1.store = "a" THEN sa ELSE sb
         other == IF Ev1.store = "a" THEN sb ELSE sa
         ref == Holds(s.model, SeqToSet(s.tuples), Ev1.ctx, Ev1.o, Ev1.r, Ev1.u)
         refOther == Holds(other.model, SeqToSet(s.tuples), Ev1.ctx, Ev1.o, Ev1.r, Ev1.u)
         c == IF Ev1.mode = "foreign" THEN (IF Ev1.got = "ERR" THEN "OK_FOREIGN_MODEL_REFUSED" ELSE "BAD_STORE_FOREIGN_MODEL_ACCEPTED")
              ELSE IF Ev1.got = ref THEN "OK_OWN_MODEL"
              ELSE IF Ev1.got = refOther THEN "BAD_STORE_ANSWERED_WITH_OTHER_STORES_MODEL"
              ELSE "BAD_STORE_ANSWER"
     IN /\ counts' = Bump(counts, c) /\ judged' = judged + 1
        /\ bad' = IF c \in {"OK_FOREIGN_MODEL_REFUSED", "OK_OWN_MODEL"} THEN bad ELSE Append(bad, [l |-> l, cls |-> c, ref |-> ref, note |-> Ev1.mode])
  /\ UNCHANGED <<sa, sb>>
TrEnd ==
  /\ IsEvent("End")
  /\ PrintT(<<"VERIF", "END", ToJson([l |-> l, judged |-> judged, skipped |-> 0, bad |-> bad, counts |-> counts])>>)
  /\ UNCHANGED <<sa, sb, bad, counts, judged>>
Spec == Init /\ [][TrStores \/ TrXCheck \/ TrEnd]_vars
TraceAccepted == TLCGet("stats").diameter - 1 = Len(Trace)
=============================================================================
