-------------------------------- MODULE Cond --------------------------------
(***************************************************************************)
(* Condition evaluation (C25 and the condition clauses of C01/C18).        *)
(*                                                                         *)
(* A condition is  [name, params : Seq([n, ty]), expr : AST].              *)
(* Context values arrive *tagged* with their JSON kind because TLA+ cannot *)
(* inspect the dynamic type of a value:                                    *)
(*   [k |-> "num", v |-> Int]            JSON number (integral)            *)
(*   [k |-> "frac"]                      JSON number with a fraction       *)
(*   [k |-> "str", v |-> STRING, isnum |-> BOOLEAN, n |-> Int, isint |-> BOOLEAN]  *)
(*        JSON string; isnum/isint/n say whether it parses as a decimal    *)
(*        number / an integral one and its value                           *)
(*   [k |-> "bool", v |-> BOOLEAN]                                         *)
(*   [k |-> "list", v |-> Seq(tagged)]                                     *)
(*   [k |-> "null"]                                                        *)
(*   [k |-> "map", v |-> [key |-> tagged]]   JSON object                   *)
(* Expression AST (the fragment the generators are restricted to):         *)
(*   lit(int|str|bool) | param | lt le gt ge eq ne | and or not | in |     *)
(*   idx (map lookup, literal key) | add                                    *)
(* Result: "T", "F" or "E" (cannot be evaluated).                          *)
(***************************************************************************)
EXTENDS Integers, Sequences, FiniteSets, TLC

CSeqToSet(s) == {s[i] : i \in DOMAIN s}

\* Merge(request context, tuple context): the stored (tuple) value wins.
MergeCtx(reqCtx, tupCtx) ==
  [p \in (DOMAIN reqCtx) \cup (DOMAIN tupCtx) |->
      IF p \in DOMAIN tupCtx THEN tupCtx[p] ELSE reqCtx[p]]

Err == [k |-> "err"]

\* Convert a tagged JSON value to the declared parameter type (DESIGN D.8).
RECURSIVE Convert(_, _)
Convert(ty, jv) ==
  CASE ty = "int"    -> IF jv.k = "num" THEN [k |-> "int", v |-> jv.v]
                        ELSE IF jv.k = "str" /\ jv.isnum /\ jv.isint THEN [k |-> "int", v |-> jv.n]
                        ELSE Err
    [] ty = "uint"   -> IF jv.k = "num" /\ jv.v >= 0 THEN [k |-> "uint", v |-> jv.v]
                        ELSE IF jv.k = "str" /\ jv.isnum /\ jv.isint /\ jv.n >= 0 THEN [k |-> "uint", v |-> jv.n]
                        ELSE Err
    [] ty = "string" -> IF jv.k = "str" THEN [k |-> "string", v |-> jv.v] ELSE Err
    [] ty = "bool"   -> IF jv.k = "bool" THEN [k |-> "bool", v |-> jv.v] ELSE Err
    [] ty = "list<string>" ->
          IF jv.k = "list" /\ \A i \in DOMAIN jv.v : jv.v[i].k = "str"
          THEN [k |-> "list", v |-> [i \in DOMAIN jv.v |-> jv.v[i].v]] ELSE Err
    [] ty = "list<int>" ->
          IF jv.k = "list" /\ \A i \in DOMAIN jv.v : Convert("int", jv.v[i]) # Err
          THEN [k |-> "list", v |-> [i \in DOMAIN jv.v |-> Convert("int", jv.v[i]).v]] ELSE Err
    [] ty \in {"map<int>", "map<string>"} ->
          LET ety == IF ty = "map<int>" THEN "int" ELSE "string" IN
          IF jv.k = "map" /\ \A f \in DOMAIN jv.v : Convert(ety, jv.v[f]) # Err
          THEN [k |-> "map", v |-> [f \in DOMAIN jv.v |-> Convert(ety, jv.v[f]).v]] ELSE Err
    [] OTHER -> Err

ParamTy(c, p) == (CHOOSE x \in CSeqToSet(c.params) : x.n = p).ty
ParamNames(c) == {x.n : x \in CSeqToSet(c.params)}

\* Expression evaluation over an environment of converted values.
\* Returns a record [k, v]; k = "err" on a dynamic error (none in this fragment
\* once every parameter is present and typed, but kept total).
RECURSIVE EvalX(_, _)
EvalX(x, env) ==
  CASE x.k = "lit"   -> [k |-> x.ty, v |-> x.v]
    [] x.k = "param" -> env[x.n]
    [] x.k \in {"lt", "le", "gt", "ge"} ->
         LET a == EvalX(x.a, env) b == EvalX(x.b, env) IN
         IF a.k = "err" \/ b.k = "err" THEN Err
         ELSE [k |-> "bool", v |-> CASE x.k = "lt" -> a.v < b.v [] x.k = "le" -> a.v <= b.v
                                     [] x.k = "gt" -> a.v > b.v [] x.k = "ge" -> a.v >= b.v]
    [] x.k \in {"eq", "ne"} ->
         LET a == EvalX(x.a, env) b == EvalX(x.b, env) IN
         IF a.k = "err" \/ b.k = "err" THEN Err
         ELSE [k |-> "bool", v |-> IF x.k = "eq" THEN a.v = b.v ELSE a.v # b.v]
    [] x.k = "and" ->
         LET a == EvalX(x.a, env) b == EvalX(x.b, env) IN
         IF (a.k = "bool" /\ ~a.v) \/ (b.k = "bool" /\ ~b.v) THEN [k |-> "bool", v |-> FALSE]
         ELSE IF a.k = "err" \/ b.k = "err" THEN Err ELSE [k |-> "bool", v |-> TRUE]
    [] x.k = "or" ->
         LET a == EvalX(x.a, env) b == EvalX(x.b, env) IN
         IF (a.k = "bool" /\ a.v) \/ (b.k = "bool" /\ b.v) THEN [k |-> "bool", v |-> TRUE]
         ELSE IF a.k = "err" \/ b.k = "err" THEN Err ELSE [k |-> "bool", v |-> FALSE]
    [] x.k = "not" ->
         LET a == EvalX(x.a, env) IN IF a.k = "err" THEN Err ELSE [k |-> "bool", v |-> ~a.v]
    [] x.k = "idx" ->       \* map lookup with the literal key x.n; an absent key cannot be evaluated
         LET a == EvalX(x.a, env) IN
         IF a.k = "err" \/ x.n \notin DOMAIN a.v THEN Err ELSE [k |-> "elem", v |-> a.v[x.n]]
    [] x.k = "add" ->
         LET a == EvalX(x.a, env) b == EvalX(x.b, env) IN
         IF a.k = "err" \/ b.k = "err" THEN Err ELSE [k |-> "int", v |-> a.v + b.v]
    [] x.k = "in" ->
         LET a == EvalX(x.a, env) b == EvalX(x.b, env) IN
         IF a.k = "err" \/ b.k = "err" THEN Err
         ELSE [k |-> "bool", v |-> \E i \in DOMAIN b.v : b.v[i] = a.v]
    [] OTHER -> Err

\* CondEval(c, reqCtx, tupCtx) \in {"T","F","E"}
\*  - any supplied value that does not convert to its declared type  => E
\*  - any declared parameter missing after the merge                 => E
\*  - otherwise the value of the expression
\* Values for undeclared names are ignored at evaluation time.
CondEval(c, reqCtx, tupCtx) ==
  LET merged == MergeCtx(reqCtx, tupCtx)
      decl   == ParamNames(c)
      given  == decl \cap DOMAIN merged
      env    == [p \in given |-> Convert(ParamTy(c, p), merged[p])]
  IN IF \E p \in given : env[p].k = "err" THEN "E"
     ELSE IF given # decl THEN "E"
     ELSE LET r == EvalX(c.expr, env) IN
          IF r.k # "bool" THEN "E" ELSE IF r.v THEN "T" ELSE "F"
=============================================================================
