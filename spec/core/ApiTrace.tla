------------------------------ MODULE ApiTrace ------------------------------
(***************************************************************************)
(* Trace validation of query answers recorded from the real engines        *)
(* (Binding A for C01-C07, C30, C32 and the answer part of C08-C10).       *)
(*                                                                         *)
(* trace.ndjson: one event per line.                                       *)
(*   Setup        model, tuples          (re)initialises the store state   *)
(*   Check        o r u ctx ctxt got errk                                  *)
(*   ListObjects  t r u ctx ctxt limit got(ids) err errk                   *)
(*   ListUsers    o r ft frel ctx ctxt got(subjects) err errk              *)
(*   Expand       o r ctxt got(tree)                                       *)
(*   End                                                                   *)
(* The spec state is the abstract store (model, stored tuples).  Every     *)
(* query event is judged against the reference semantics of FGACore and a  *)
(* classification is accumulated; nothing stops at the first mismatch so   *)
(* the whole trace is always examined.                                     *)
(***************************************************************************)
EXTENDS FGACore, Json

Trace == ndJsonDeserialize("trace.ndjson")

VARIABLES l, model, stored, bad, counts, judged, skipped
vars == <<l, model, stored, bad, counts, judged, skipped>>

DepthLimit == 18

NoModel == [types |-> <<>>, rels |-> <<>>, conds |-> <<>>]

Init == /\ l = 1 /\ model = NoModel /\ stored = {} /\ bad = <<>>
        /\ counts = [x \in {"OK_T"} |-> 0] /\ judged = 0 /\ skipped = 0

Ev1 == Trace[l]
IsEvent(e) == l <= Len(Trace) /\ Trace[l].e = e /\ l' = l + 1

OKs == {"OK_T", "OK_F", "OK_ERR", "OK_ERR_DECIDED", "OK_STALE_PERMITTED","OK_LO", "OK_LO_ERR", "OK_LO_ERR_OTHERCODE", "OK_LO_LIMIT", "OK_LU", "OK_LU_ERR", "OK_EXPAND", "OK_DUMP", "OK_BATCH", "OK_EVALS", "OK_STOPPED", "OK_PARTIAL","OK_V2_SHAPE_ERR", "OK_V2_DOCUMENTED_DIFF", "OK_V2_SAME_AS_V1",
        "SKIP_DEPTH", "SKIP_UNSTRATIFIED"}

Bump(c, cls) == [x \in DOMAIN c \cup {cls} |-> IF x = cls THEN (IF x \in DOMAIN c THEN c[x] ELSE 0) + 1 ELSE c[x]]

\* Termination and resource release (C20).  A query line may carry "res": the deadline (ms) that
\* applied (request deadline or client cancellation time), the scheduling slack granted, the wall
\* time the call took, whether a deadline / cancellation was actually imposed, the number of
\* goroutines still alive after the call has settled beyond the number before it, and the number of
\* tuple iterators the call opened and neither exhausted nor stopped.
\*  - the call must return within deadline + slack and leave nothing behind;
\*  - when a deadline / cancellation was imposed, an error naming it and a partial (but sound)
\*    list are legitimate outcomes.
StopErrs == {"BAD_ERR", "BAD_V2_ERR", "BAD_LO_ERR", "BAD_LU_ERR", "BAD_EXPAND_ERR", "BAD_BATCH_ERR"}
Partials == {"BAD_LO_INCOMPLETE", "BAD_LO_INCOMPLETE_E", "BAD_LU_INCOMPLETE", "BAD_LU_INCOMPLETE_E", "BAD_LO_LIMIT",
             "KF_LUWildcardExclusionNestedOmission"}   \* an omission is an omission, whatever else could explain it
ResClass(cls) ==
  IF "res" \notin DOMAIN Ev1 THEN cls
  ELSE LET rs == Ev1.res
           c1 == IF rs.imposed /\ cls \in StopErrs /\ Ev1.errk \in {"deadline", "cancel", "throttled"} THEN "OK_STOPPED"
                 ELSE IF rs.imposed /\ cls \in Partials THEN "OK_PARTIAL"
                 ELSE cls
       IN IF c1 \notin (OKs \cup {"OK_STOPPED", "OK_PARTIAL"}) THEN c1      \* a wrong answer, a known finding or a hang: reported as such
          ELSE IF rs.wall > rs.deadline + rs.slack THEN "BAD_RESOURCE_LATE"
          ELSE IF rs.gleak > 0 THEN "BAD_RESOURCE_GOROUTINE_LEAK"
          ELSE IF rs.iters > 0 THEN "BAD_RESOURCE_ITERATOR_LEAK"
          ELSE c1

\* record a verdict: "OK…" classes only count, everything else is listed
Judge(cls0, ref, note) ==
  LET cls == ResClass(cls0) IN
  /\ counts' = Bump(counts, cls)
  /\ IF cls = "SKIP_DEPTH" \/ cls = "SKIP_UNSTRATIFIED"
       THEN skipped' = skipped + 1 /\ judged' = judged
       ELSE skipped' = skipped /\ judged' = judged + 1
  /\ bad' = IF cls \in OKs THEN bad
            ELSE Append(bad, [l |-> l, cls |-> cls, ref |-> ref, note |-> note])

---------------------------------------------------------------------------
\* Known-finding call-site classifiers

Succ(M, TS, h) == IF HasRel(M, h[1].t, h[2])
                  THEN {<<k[1], k[2]>> : k \in {k \in RwKeys(M, TS, Rw(M, h[1].t, h[2]), h) : k[3] = "goal"}}
                  ELSE {}
GoalClosure(M, TS, G) ==
  {<<k[1], k[2]>> : k \in {k \in ReachFrom(M, TS, G, {<<g[1], g[2], "goal">> : g \in G}) : k[3] = "goal"}}
OnCycle(M, TS, h) == h \in GoalClosure(M, TS, Succ(M, TS, h)) \/ h \in Succ(M, TS, h)

\* The evaluation of (o, r) reaches an exclusion whose subtract branch can run
\* into a goal that lies on a tuple cycle.
SubCycle(M, TS, o, r) ==
  \E g \in GoalKeys(M, TS, o, r) :
    /\ HasRel(M, g[1].t, g[2])
    /\ \E x \in SubRw(Rw(M, g[1].t, g[2])) :
         /\ x.k = "diff"
         /\ LET sg == {<<k[1], k[2]>> : k \in {k \in RwKeys(M, TS, x.sub, g) : k[3] = "goal"}}
            IN \E h \in GoalClosure(M, TS, sg) \cup sg : OnCycle(M, TS, h)

\* A conditional tuple that cannot be evaluated shares its read set (same object
\* and relation) with a valid tuple whose condition is met: the condition-filtering
\* iterator reports the evaluation error only if no tuple of the read passed.
CondSwallowed(M, TS, ctx, o, r) ==
  LET rk == ReadKeys(M, TS, o, r) IN
  \E te \in TS :
    /\ <<te.o, te.r>> \in rk /\ te.c # "" /\ TupleReadValid(M, te) /\ CondVal(M, te, ctx) = "E"
    /\ \E sib \in TS \ {te} : sib.o = te.o /\ sib.r = te.r /\ TupleReadValid(M, sib) /\ CondVal(M, sib, ctx) = "T"

\* KF-22 call site: the subject is a plain object of a type that has relations of its own (e.g. group:1
\* rather than group:1#member) and some tuple names a userset of that very object.
PlainOfRelType(M, TS, u) ==
  /\ IsPlain(u) /\ \E e \in RelDefs(M) : e.t = u.t
  /\ \E t \in TS : t.u.t = u.t /\ t.u.id = u.id /\ t.u.rel # ""

\* ... or the evaluation reads a tuple (not of a tupleset relation) whose user is such a plain object,
\* e.g. group:2#member@group:1 with group#member: [group]
PlainRelTuple(M, TS, o, r) ==
  LET rk == ReadKeys(M, TS, o, r) IN
  \E t \in TS : /\ IsPlain(t.u) /\ (\E e \in RelDefs(M) : e.t = t.u.t)
                 /\ <<t.o, t.r>> \in rk /\ ~IsTupleset(M, t.o.t, t.r)

\* Every valid conditional tuple on the evaluation's read set that cannot be evaluated belongs to an
\* object other than the one the request names.
\* (the thorough tier showed the same swallowing for a tuple ON the requested object when it is reached
\* through a hop that leads back to that object, e.g. doc:3#viewer below "viewer from parent" with
\* doc:3 its own ancestor: what matters is that the tuple is not read at the root, i.e. it is not a
\* tuple of the requested object in a relation the root reaches through computed rewrites or reads
\* as a tupleset)
RECURSIVE RootRels(_, _, _, _)
RootRels(M, t, frontier, seen) ==
  IF frontier = {} THEN seen
  ELSE LET new == UNION {IF HasRel(M, t, x) THEN {y.rel : y \in {y \in SubRw(Rw(M, t, x)) : y.k = "computed"}} ELSE {} : x \in frontier} \ seen
       IN RootRels(M, t, new, seen \cup new)
RootReadRels(M, t, r) ==
  LET rr == RootRels(M, t, {r}, {r}) IN
  rr \cup UNION {IF HasRel(M, t, x) THEN {y.ts : y \in {y \in SubRw(Rw(M, t, x)) : y.k = "ttu"}} ELSE {} : x \in rr}
CondErrorBelowRoot(M, TS, ctx, o, r) ==
  LET rk == ReadKeys(M, TS, o, r)
      es == {t \in TS : <<t.o, t.r>> \in rk /\ t.c # "" /\ TupleReadValid(M, t) /\ CondVal(M, t, ctx) = "E"}
      root == RootReadRels(M, o.t, r)
  IN es # {} /\ \A t \in es : ~(t.o = o /\ t.r \in root)

\* The relation (or one it depends on at type level) has an intersection with two
\* identical operands, e.g. "viewer from parent and viewer from parent": the
\* weighted-graph ListObjects engine fails on such models with an internal error.
HasDupOperand(M, t, r) ==
  \E g \in TGoalKeys(M, t, r) :
    /\ HasRel(M, g[1], g[2])
    /\ \E x \in SubRw(Rw(M, g[1], g[2])) :
         x.k \in {"inter", "union"} /\ \E i, j \in DOMAIN x.ch : i # j /\ x.ch[i] = x.ch[j]

\* The relation depends (at type level) on a relation that lies on a dependency cycle:
\* the streaming pipeline builds a cycle group for it.
TSucc(M, g) == IF HasRel(M, g[1], g[2])
               THEN {<<k[1], k[2]>> : k \in {k \in TRwKeys(M, Rw(M, g[1], g[2]), g[1], g[2]) : k[3] = "goal"}}
               ELSE {}
TClosure(M, G) == {<<k[1], k[2]>> : k \in {k \in TReachFrom(M, G, {<<g[1], g[2], "goal">> : g \in G}) : k[3] = "goal"}}
HasTypeCycle(M, t, r) == \E g \in TGoalKeys(M, t, r) : g \in TSucc(M, g) \/ g \in TClosure(M, TSucc(M, g))

---------------------------------------------------------------------------
AllTuples(ev) == stored \cup SeqToSet(ev.ctxt)

\* some valid conditional tuple of the case cannot be evaluated under ctx
AnyE(M, TS, ctx) == \E t \in TS : t.c # "" /\ TupleReadValid(M, t) /\ CondVal(M, t, ctx) = "E"

\* Two valid tuples relate the SAME object and relation to the subject (e.g. one naming
\* the user, one the typed wildcard) and their conditions evaluate differently under the
\* request context, on a relation the evaluation may read: the weight-two strategy
\* mishandles this shape inside an exclusion (known finding KF-10).
MixedCondPair(M, TS, ctx, o, r, u) ==
  LET rk == TReadKeys(M, o.t, r)
      matchesU(t) == t.u = u \/ (IsWild(t.u) /\ IsPlain(u) /\ t.u.t = u.t)
  IN \E t1, t2 \in TS :
       /\ t1 # t2 /\ t1.o = t2.o /\ t1.r = t2.r /\ <<t1.o.t, t1.r>> \in rk
       /\ TupleReadValid(M, t1) /\ TupleReadValid(M, t2) /\ matchesU(t1) /\ matchesU(t2)
       /\ CondVal(M, t1, ctx) # CondVal(M, t2, ctx)

CheckClass(M, TS, ev) ==
  LET ref == Holds(M, TS, ev.ctx, ev.o, ev.r, ev.u) IN
  IF DepthBound(M, TS, ev.o, ev.r) > DepthLimit THEN <<"SKIP_DEPTH", ref>>
  ELSE CASE ev.got = "T" -> IF ref = "T" THEN <<"OK_T", ref>>
                            ELSE IF ref = "F" /\ MixedCondPair(M, TS, ev.ctx, ev.o, ev.r, ev.u) THEN <<"KF_Weight2MixedCondSameObject", ref>>
                            ELSE IF ref = "F" /\ (PlainOfRelType(M, TS, ev.u) \/ PlainRelTuple(M, TS, ev.o, ev.r)) THEN <<"KF_PlainSubjectOfRelationalType", ref>>
                            \* KF-2 below an exclusion: the swallowed error sits in the subtract branch, so the
                            \* request is granted instead of denied (thorough tier, seed 2: doc#blocked: viewer but
                            \* not (viewer from parent or this), doc:1#parent@folder:3 passes, doc:1#parent@doc:1 with
                            \* c2 cannot be evaluated)
                            ELSE IF ref = "E" /\ CondSwallowed(M, TS, ev.ctx, ev.o, ev.r) /\ (\E g \in GoalKeys(M, TS, ev.o, ev.r) \cup {<<ev.o, ev.r>>} : HasRel(M, g[1].t, g[2]) /\ \E x \in SubRw(Rw(M, g[1].t, g[2])) : x.k = "diff")
                            THEN <<"KF_CondSwallowedBySibling", ref>>
                            ELSE <<"BAD_ALLOWED", ref>>
         [] ev.got = "F" -> IF ref = "F" THEN <<"OK_F", ref>>
                            ELSE IF ref = "T" THEN
                                   IF SubCycle(M, TS, ev.o, ev.r) THEN <<"KF_ExclSubtractCycle", ref>>
                                   \* KF-10, denying direction: one of two tuples on the same object and relation that
                                   \* match the subject cannot be evaluated (or is not met) and takes the other one down with it
                                   ELSE IF MixedCondPair(M, TS, ev.ctx, ev.o, ev.r, ev.u) THEN <<"KF_Weight2MixedCondSameObject", ref>>
                                   ELSE <<"BAD_DENIED", ref>>
                            ELSE IF CondSwallowed(M, TS, ev.ctx, ev.o, ev.r) THEN <<"KF_CondSwallowedBySibling", ref>>
                            \* KF-21: every tuple whose condition cannot be evaluated sits on another object than the
                            \* requested one (it is reached through a tuple-to-userset or userset hop)
                            ELSE IF CondErrorBelowRoot(M, TS, ev.ctx, ev.o, ev.r) THEN <<"KF_CondErrorSwallowedBelowRoot", ref>>
                            ELSE <<"BAD_E_SWALLOWED", ref>>
         [] ev.got = "ERR" ->
              IF ev.errk = "cond" /\ ref # "T" /\ TouchedE(M, TS, ev.ctx, ev.o, ev.r) THEN <<"OK_ERR", ref>>
              \* the property demands "not decided => fails", not "decided => succeeds": an engine that
              \* meets the unevaluable condition before the deciding operand may fail (DESIGN 4/C01 rule R2)
              ELSE IF ev.errk = "cond" /\ ref = "T" /\ TouchedE(M, TS, ev.ctx, ev.o, ev.r) THEN <<"OK_ERR_DECIDED", ref>>
              \* KF-24: with shared iterators on, a request that nobody cancelled occasionally answers "Request Cancelled"
              ELSE IF ev.errk = "cancel" /\ "shi" \in DOMAIN ev /\ ev.shi /\ "res" \notin DOMAIN ev THEN <<"KF_SpuriousCancelSharedIterator", ref>>
              ELSE <<"BAD_ERR", ref>>
         [] OTHER -> <<"BAD_EVENT", ref>>

TrSetup ==
  /\ IsEvent("Setup")
  /\ model' = Ev1.model
  /\ stored' = SeqToSet(Ev1.tuples)
  /\ UNCHANGED <<bad, counts, judged, skipped>>

\* A Check event may carry "solo": the outcome of the same request issued as a
\* standalone Check in the same run (BatchCheck items, C07; AuthZEN evaluations, C32).
\* The two outcomes must agree, and the reported one is judged against the reference.
\* ApiWrite: a successful Write through the API (the drivers issue only valid requests
\* that succeed): deletes by key, then writes.
SameKey(a, b) == a.o = b.o /\ a.r = b.r /\ a.u = b.u
ApplyW(cur, ev) == {t \in cur : ~\E d \in SeqToSet(ev.dels) : SameKey(t, d)} \cup SeqToSet(ev.wrs)
TrApiWrite ==
  /\ IsEvent("ApiWrite")
  /\ stored' = ApplyW(stored, Ev1)
  /\ UNCHANGED <<model, bad, counts, judged, skipped>>

\* every version of the store since the last Setup, recomputed from the trace prefix
RECURSIVE VersFrom(_, _, _)
VersFrom(i, cur, acc) ==
  IF i >= l THEN acc
  ELSE LET e == Trace[i] IN
       IF e.e = "Setup" THEN VersFrom(i + 1, SeqToSet(e.tuples), {SeqToSet(e.tuples)})
       ELSE IF e.e = "ApiWrite" THEN VersFrom(i + 1, ApplyW(cur, e), acc \cup {ApplyW(cur, e)})
       ELSE VersFrom(i + 1, cur, acc)
versions == VersFrom(1, {}, {{}})

\* Known finding KF-19 call site: a must-be-fresh ListObjects served with the check query cache on.
\* Its follow-up Checks are built without the cache controller, so their cached sub-results are
\* never compared with the invalidation time and stay in use until their TTL.
Restamped(ev) == "prewarmed" \in DOMAIN ev /\ ev.prewarmed

\* A Check event may also carry "stale" = "ok" (cache checks C11): the request was issued
\* when the caches are allowed to be stale (a write happened and no invalidation run that
\* started after it has completed yet).  Then the decision must be the reference value of
\* SOME version of the store since the last Setup ("invalidation never causes a wrong
\* answer"); without the mark it must be the reference value of the CURRENT store.
TrCheck ==
  /\ IsEvent("Check")
  /\ LET c == CheckClass(model, AllTuples(Ev1), Ev1)
         \* (Per-entry caches can combine entries read from different versions of the store, so a
         \*  stale-permitted decision need not be the reference value of any single version; such
         \*  answers are counted, not judged.  versions is kept for reporting.)
         \* (a stale-permitted request may also fail on a condition of a tuple that only an older version holds)
         staleOK == "stale" \in DOMAIN Ev1 /\ Ev1.stale = "ok" /\ (Ev1.got \in {"T", "F"} \/ (Ev1.got = "ERR" /\ Ev1.errk = "cond"))
     IN
     IF c[1] \notin OKs /\ staleOK THEN Judge("OK_STALE_PERMITTED", c[2], Ev1.eng)
     \* KF-27: requests issued inside the invalidation window can store a parent entry computed from a
     \* stale child entry, stamped after the write: it survives the invalidation run (design model
     \* CheckCache_dispatch.cfg, reproduced deterministically by CheckCacheTrace)
     ELSE IF c[1] \notin OKs /\ "inwindow" \in DOMAIN Ev1 /\ Ev1.inwindow /\ Ev1.got \in {"T", "F"}
     THEN Judge("KF_CheckCacheParentFromStaleChild", c[2], Ev1.eng)
     ELSE IF "solo" \in DOMAIN Ev1 /\ Ev1.solo # Ev1.got /\ c[1] \in OKs
     THEN Judge("BAD_DIFFERS_FROM_STANDALONE", c[2], Ev1.eng)
     ELSE Judge(c[1], c[2], Ev1.eng)
  /\ UNCHANGED <<model, stored>>

---------------------------------------------------------------------------
\* V2Check (C03): an answer of the weighted-graph engine, with the v1 answer to the
\* same input (v1) and the breaking-change detector's verdicts (reason, xreason).
\*  - object subjects: a decision must equal the reference;
\*  - userset / wildcard subjects: a decision that differs from v1's decision must
\*    be announced by the detector (non-empty reason or exclusion reason);
\*  - errors: a documented request-shape error (userset / wildcard meeting an
\*    exclusion; the detector must name the shape), or an accepted condition error.
\* The documented catalogue of v1 -> v2 breaking-change shapes for userset subjects
\* (pkg/server/commands/v2breaking doc comments), restated over the model:
DocumentedShape(M, o, r, u) ==
  LET rw == Rw(M, o.t, r) IN
  \/ u = [t |-> o.t, id |-> o.id, rel |-> r]                                  \* self_referential_userset
  \/ /\ u.t = o.t /\ u.id = o.id                                              \* computed_userset_self_object
     /\ \E x \in SubRw(rw) : x.k = "computed" /\ x.rel = u.rel
  \/ \E x \in SubRw(rw) :                                                     \* ttu_userset
       /\ x.k = "ttu" /\ x.rel = u.rel
       /\ HasRel(M, o.t, x.ts) /\ \E y \in Restr(M, o.t, x.ts) : y.t = u.t
  \/ /\ \E y \in Restr(M, o.t, r) :                                           \* alias_userset
          /\ y.rel # "" /\ y.t = u.t /\ HasRel(M, y.t, y.rel)
          /\ Rw(M, y.t, y.rel).k = "computed" /\ Rw(M, y.t, y.rel).rel = u.rel
     /\ ~ \E y \in Restr(M, o.t, r) : y.t = u.t /\ y.rel = u.rel
  \/ \E x \in SubRw(rw) : x.k = "diff"                                        \* userset_with_exclusion

CondParentMixedRestr(M, TS, o, r) ==
  \E g \in GoalKeys(M, TS, o, r) :
    /\ HasRel(M, g[1].t, g[2])
    /\ \E x \in SubRw(Rw(M, g[1].t, g[2])) :
         /\ x.k = "ttu"
         /\ \E t \in TS : /\ t.o = g[1] /\ t.r = x.ts /\ t.c # "" /\ HasRel(M, t.u.t, x.rel)
                          /\ \E y1, y2 \in Restr(M, t.u.t, x.rel) : y1.t = y2.t /\ y1.rel = y2.rel /\ y1.wc = y2.wc /\ y1.cond # y2.cond

\* A valid-by-type conditional tuple whose stored context does not fit the declared
\* parameter types (it is invalid for the model and must be ignored) lies in the
\* type-level read set: the v2 engine evaluates its condition anyway.
TouchedMistyped(M, TS, o, r) ==
  LET rk == TReadKeys(M, o.t, r) IN
  \E t \in TS : /\ <<t.o.t, t.r>> \in rk /\ t.c # "" /\ HasCond(M, t.c)
                /\ ~CtxFits(CondDef(M, t.c), t.cctx)
                /\ HasRel(M, t.o.t, t.r) /\ \E x \in Restr(M, t.o.t, t.r) : RestrMatches(x, t)

V2Class(M, TS, ev) ==
  LET ref == Holds(M, TS, ev.ctx, ev.o, ev.r, ev.u) IN
  IF DepthBound(M, TS, ev.o, ev.r) > DepthLimit THEN <<"SKIP_DEPTH", ref>>
  ELSE IF ev.got = "ERR" THEN
         \* KF-28: the call had no deadline of its own and did not answer within the driver's limit
         \* (resolver goroutines spawned without bound); the driver cancelled it and kept the input.
         IF ev.errk = "runaway" THEN <<"KF_V2Runaway", ref>>
         ELSE IF ev.shape # "" THEN
           (IF (ev.shape = "wildcard" /\ IsWild(ev.u)) \/ (ev.shape = "userset" /\ IsUserset(ev.u))
            THEN <<"OK_V2_SHAPE_ERR", ref>> ELSE <<"BAD_V2_SHAPE_ERR_ON_OBJECT_SUBJECT", ref>>)
         ELSE IF ev.errk = "cond" /\ TouchedE(M, TS, ev.ctx, ev.o, ev.r) THEN <<"OK_ERR", ref>>
         ELSE IF ev.errk = "cond" /\ TouchedMistyped(M, TS, ev.o, ev.r) THEN <<"KF_V2InvalidCtxNotIgnored", ref>>
         ELSE <<"BAD_V2_ERR", ref>>
  ELSE IF IsPlain(ev.u) THEN
         \* object subject: the decision must equal the reference.  One known deviation: a false
         \* negative when the evaluation runs through goals that lie on a tuple cycle (userset
         \* cycle, object that is its own parent): v2 prunes with a visited set shared across branches.
         IF ev.got = "F" /\ ref = "T" /\ ev.v1 = "T" /\ ((\E g \in GoalKeys(M, TS, ev.o, ev.r) : OnCycle(M, TS, g)) \/ HasTypeCycle(M, ev.o.t, ev.r))
         THEN <<"KF_V2CycleFalseNegative", ref>>
         \* the same dropped branch (reproduced: editor: [user, doc#editor] or viewer from parent with a
         \* recursive doc#viewer - the tupleset edge to doc#viewer is never evaluated) hides an evaluation
         \* error instead of a grant: the default engine fails the request, v2 answers "no"
         ELSE IF ev.got = "F" /\ ref = "E" /\ ev.v1 = "ERR" /\ HasTypeCycle(M, ev.o.t, ev.r)
         THEN <<"KF_V2CycleFalseNegative", ref>>
         \* KF-16: a conditioned tupleset tuple leads to a parent whose target relation lists the
         \* subject's type both with and without a condition
         ELSE IF ev.got = "F" /\ ref = "T" /\ ev.v1 = "T" /\ CondParentMixedRestr(M, TS, ev.o, ev.r)
         THEN <<"KF_V2CondParentMixedRestr", ref>>
         ELSE CheckClass(M, TS, ev)
  ELSE IF ev.v1 \in {"T", "F"} /\ ev.got # ev.v1 THEN
         IF ev.reason # "" \/ ev.xreason # "" THEN <<"OK_V2_DOCUMENTED_DIFF", ref>>
         ELSE IF IsUserset(ev.u) /\ DocumentedShape(M, ev.o, ev.r, ev.u) THEN <<"BAD_V2_DETECTOR_MISSED", ref>>
         \* known finding KF-4 (broad by necessity: the weighted-graph engine loses userset subjects in
         \* many shapes - reflexive goals, aliases inside unions, recursive usersets, contextual
         \* tuples): a false negative for a userset subject that v1 and the reference both grant
         ELSE IF IsUserset(ev.u) /\ ev.v1 = "T" /\ ref = "T" /\ ev.got = "F" THEN <<"KF_V2UndocumentedUsersetDiff", ref>>
         \* wildcard subject lost through a recursive relation (same weakness as KF-8)
         ELSE IF IsWild(ev.u) /\ ev.v1 = "T" /\ ref = "T" /\ ev.got = "F" /\ HasTypeCycle(M, ev.o.t, ev.r) THEN <<"KF_V2CycleFalseNegative", ref>>
         ELSE <<"BAD_V2_UNDOCUMENTED_DIFF", ref>>
  ELSE IF ev.v1 = "ERR" THEN
         (IF ev.reason # "" \/ ev.xreason # "" THEN <<"OK_V2_DOCUMENTED_DIFF", ref>>
          \* KF-8 for userset / wildcard subjects: the branch dropped on a recursive relation would have failed
          ELSE IF ev.got = "F" /\ ref = "E" /\ HasTypeCycle(M, ev.o.t, ev.r) THEN <<"KF_V2CycleFalseNegative", ref>>
          ELSE CheckClass(M, TS, ev))
  ELSE <<"OK_V2_SAME_AS_V1", ref>>

TrV2Check ==
  /\ IsEvent("V2Check")
  /\ LET c == V2Class(model, AllTuples(Ev1), Ev1) IN Judge(c[1], c[2], Ev1.eng)
  /\ UNCHANGED <<model, stored>>

---------------------------------------------------------------------------
\* ListObjects (DESIGN D.3)
\* a list call made through another surface (AuthZEN search, C32) carries the native call's
\* result for the mapped request: the two must agree (as sets; errors on both or neither)
NativeSame(ev) == "native" \notin DOMAIN ev \/ (ev.native.err = ev.err /\ (ev.err \/ SeqToSet(ev.native.got) = SeqToSet(ev.got)))

ObjIds(TS, t) == {x.o.id : x \in {x \in TS : x.o.t = t}} \cup
                 {x.u.id : x \in {x \in TS : x.u.t = t /\ x.u.id # "*"}}

ListObjectsClass(M, TS, ev) ==
  LET ids == ObjIds(TS, ev.t) \cup (IF ev.u.t = ev.t /\ ev.u.id # "*" THEN {ev.u.id} ELSE {})  \* o#r is a member of itself
      val == [i \in ids |-> Holds(M, TS, ev.ctx, [t |-> ev.t, id |-> i], ev.r, ev.u)]
      R   == {i \in ids : val[i] = "T"}
      X   == SeqToSet(ev.got)
      deep == \E i \in ids : DepthBound(M, TS, [t |-> ev.t, id |-> i], ev.r) > DepthLimit
      kf(i) == SubCycle(M, TS, [t |-> ev.t, id |-> i], ev.r)
  IN IF deep THEN <<"SKIP_DEPTH", "">>
     ELSE IF ev.err THEN
            IF ev.errk = "cond" /\ AnyE(M, TS, ev.ctx) THEN <<"OK_LO_ERR", "">>
            \* the pipeline engine reports the same situation as an internal error (DESIGN 6.10):
            \* accepted for C05's purposes, counted separately
            ELSE IF ev.errk \in {"internal", "validation"} /\ AnyE(M, TS, ev.ctx) THEN <<"OK_LO_ERR_OTHERCODE", "">>
            ELSE IF ev.errk = "internal" /\ HasDupOperand(M, ev.t, ev.r) THEN <<"KF_WeightedDupOperand", ToString(R)>>
            \* the request did not return (supervisor watchdog): the pipeline does not tear down
            \* its cycle groups on some models with dependency cycles (see DESIGN 6, KF-6)
            ELSE IF ev.errk = "hang" /\ HasTypeCycle(M, ev.t, ev.r) THEN <<"KF_PipelineCycleHang", "">>
            ELSE IF ev.errk = "internal" /\ PlainOfRelType(M, TS, ev.u) THEN <<"KF_PlainSubjectOfRelationalType", ToString(R)>>
            ELSE <<"BAD_LO_ERR", ToString(R)>>
     ELSE IF Len(ev.got) # Cardinality(X) THEN <<"BAD_LO_DUP", ToString(R)>>
     ELSE IF ~(X \subseteq R) THEN
            (IF \A i \in (X \ R) : i \in ids /\ val[i] = "F" /\ MixedCondPair(M, TS, ev.ctx, [t |-> ev.t, id |-> i], ev.r, ev.u)
             THEN <<"KF_Weight2MixedCondSameObject", ToString(R)>>
             \* the engine decided objects whose value cannot be decided: an unevaluable condition was swallowed
             ELSE IF \A i \in (X \ R) : i \in ids /\ val[i] = "E"
                        /\ (CondSwallowed(M, TS, ev.ctx, [t |-> ev.t, id |-> i], ev.r) \/ CondErrorBelowRoot(M, TS, ev.ctx, [t |-> ev.t, id |-> i], ev.r))
             THEN <<"KF_CondErrorSwallowedBelowRoot", ToString(R)>>
             ELSE IF PlainOfRelType(M, TS, ev.u) THEN <<"KF_PlainSubjectOfRelationalType", ToString(R)>>
             ELSE <<"BAD_LO_UNSOUND", ToString(R)>>)
     ELSE IF ev.limit = 0 \/ Cardinality(R) < ev.limit THEN
            IF X = R THEN <<"OK_LO", "">>
            ELSE IF \A i \in R \ X : kf(i) THEN <<"KF_ExclSubtractCycle", ToString(R)>>
            \* KF-18: the weighted engine with resolve-node breadth limit 1 starves itself when an
            \* intersection / exclusion has more candidates than its hand-over channel holds (100)
            ELSE IF "wb1" \in DOMAIN ev /\ ev.wb1 /\ Cardinality(ids) > 100
                    /\ \E x \in SubRw(Rw(M, ev.t, ev.r)) : x.k \in {"inter", "diff"}
                 THEN <<"KF_WeightedBreadthOneStarvation", ToString(Cardinality(R))>>
            ELSE IF AnyE(M, TS, ev.ctx) THEN <<"BAD_LO_INCOMPLETE_E", ToString(R)>>
            ELSE <<"BAD_LO_INCOMPLETE", ToString(R)>>
     ELSE IF Cardinality(X) = ev.limit THEN <<"OK_LO_LIMIT", "">>
          ELSE IF \A i \in R \ X : kf(i) THEN <<"KF_ExclSubtractCycle", ToString(R)>>
          ELSE <<"BAD_LO_LIMIT", ToString(R)>>

LORef(M, TS, ev) ==
  LET ids == ObjIds(TS, ev.t) \cup (IF ev.u.t = ev.t /\ ev.u.id # "*" THEN {ev.u.id} ELSE {})
  IN {i \in ids : Holds(M, TS, ev.ctx, [t |-> ev.t, id |-> i], ev.r, ev.u) = "T"}

TrListObjects ==
  /\ IsEvent("ListObjects")
  /\ LET c == ListObjectsClass(model, AllTuples(Ev1), Ev1)
         staleOK == "stale" \in DOMAIN Ev1 /\ Ev1.stale = "ok" /\ (~Ev1.err \/ Ev1.errk = "cond")
     IN IF c[1] \notin OKs /\ staleOK THEN Judge("OK_STALE_PERMITTED", c[2], Ev1.eng)
        ELSE IF c[1] \notin OKs /\ Restamped(Ev1) /\ ~Ev1.err THEN Judge("KF_ListObjectsIgnoresInvalidation", c[2], Ev1.eng)
        ELSE IF c[1] \in OKs /\ ~NativeSame(Ev1) THEN Judge("BAD_DIFFERS_FROM_NATIVE", ToString(Ev1.native), Ev1.eng)
        ELSE Judge(c[1], c[2], Ev1.eng)
  /\ UNCHANGED <<model, stored>>

---------------------------------------------------------------------------
\* ListUsers (DESIGN D.4)
SubjIds(TS, t) == ObjIds(TS, t)

WildNestedExcl(M, TS, o, r) ==
  LET goals == TGoalKeys(M, o.t, r)
      withDiff == {g \in goals : HasRel(M, g[1], g[2]) /\ \E x \in SubRw(Rw(M, g[1], g[2])) : x.k = "diff"}
      reads == TReadKeys(M, o.t, r)
  IN \* two exclusions on the path, or one exclusion on a recursive relation (entered again through its own userset)
     /\ \/ Cardinality(withDiff) >= 2
        \/ \E g \in withDiff : g \in TSucc(M, g) \/ g \in TClosure(M, TSucc(M, g))
        \* ... or two exclusions nested inside ONE relation's rewrite ("(viewer but not this) but not (editor but not owner)")
        \/ \E g \in withDiff : Cardinality({x \in SubRw(Rw(M, g[1], g[2])) : x.k = "diff"}) >= 2
     /\ \E t \in TS : IsWild(t.u) /\ <<t.o.t, t.r>> \in reads

\* KF-25 call site: an exclusion somewhere below (or above) another set operator on the evaluation
\* path, with a typed-wildcard tuple among the tuples read.  ListUsers carries "everybody except
\* these users" upwards as a list attached to individual results; through a second operator that
\* information is applied to the wrong operand and concrete users who hold the relation are dropped.
WildExclNested(M, TS, o, r) ==
  LET goals == TGoalKeys(M, o.t, r) \cup {<<o.t, r>>}
      opsOf == UNION {{<<h, x>> : x \in {y \in SubRw(Rw(M, h[1], h[2])) : y.k \in {"union", "inter", "diff"}}}
                      : h \in {h \in goals : HasRel(M, h[1], h[2])}}
      reads == TReadKeys(M, o.t, r)
  IN /\ \E p \in opsOf : p[2].k = "diff"
     /\ Cardinality(opsOf) >= 2
     /\ \E t \in TS : IsWild(t.u) /\ <<t.o.t, t.r>> \in reads

\* KF-20, third shape (found by the systematic set-operation cases): ONE exclusion that lies below a
\* union.  The union merges "everybody except X" from one operand with positive results of the other
\* and a later operator re-lists members of X.  (Exclusions below intersections only are handled
\* correctly and are not covered by this classifier.)
UnionOverDiff(M, TS, o, r) ==
  LET goals == {h \in TGoalKeys(M, o.t, r) \cup {<<o.t, r>>} : HasRel(M, h[1], h[2])}
      HasDiff(h) == HasRel(M, h[1], h[2]) /\ \E z \in SubRw(Rw(M, h[1], h[2])) : z.k = "diff"
      Below(g, x) == LET cg == {<<k[1], k[2]>> : k \in {k \in TRwKeys(M, x, g[1], g[2]) : k[3] = "goal"}}
                     IN cg \cup UNION {TGoalKeys(M, h[1], h[2]) : h \in cg}
      reads == TReadKeys(M, o.t, r)
  IN /\ \E g \in goals : \E x \in SubRw(Rw(M, g[1], g[2])) :
          /\ x.k = "union"
          /\ \/ \E y \in SubRw(x) : y.k = "diff"
             \/ \E h \in Below(g, x) : HasDiff(h)
     /\ \E t \in TS : IsWild(t.u) /\ <<t.o.t, t.r>> \in reads

ListUsersClass(M, TS, ev) ==
  LET X    == SeqToSet(ev.got)
      hold(u) == Holds(M, TS, ev.ctx, ev.o, ev.r, u)
      matches(u) == u.t = ev.ft /\ (IF ev.frel = "" THEN u.rel = "" ELSE u.rel = ev.frel /\ u.id # "*")
      conc == {[t |-> ev.ft, id |-> i, rel |-> ev.frel] : i \in SubjIds(TS, ev.ft)}
      wildIn == [t |-> ev.ft, id |-> "*", rel |-> ""] \in X
      missing == {u \in conc : hold(u) = "T" /\ u \notin X /\ ~(ev.frel = "" /\ wildIn)}
  IN IF DepthBound(M, TS, ev.o, ev.r) > DepthLimit THEN <<"SKIP_DEPTH", "">>
     ELSE IF ev.err THEN
            IF ev.errk = "cond" /\ AnyE(M, TS, ev.ctx) THEN <<"OK_LU_ERR", "">> ELSE <<"BAD_LU_ERR", "">>
     ELSE IF Len(ev.got) # Cardinality(X) THEN <<"BAD_LU_DUP", "">>
     ELSE IF \E u \in X : ~matches(u) THEN <<"BAD_LU_FILTER", "">>
     \* KF-20: with a typed-wildcard tuple below two or more exclusions on the evaluation path, users
     \* subtracted at an inner level are re-listed by an outer one
     ELSE IF (\E u \in X : hold(u) # "T") /\ (WildNestedExcl(M, TS, ev.o, ev.r) \/ UnionOverDiff(M, TS, ev.o, ev.r))
          THEN <<"KF_LUNestedExclusionWildcard", ToString({u \in X : hold(u) # "T"})>>
     ELSE IF \E u \in X : hold(u) # "T" THEN <<"BAD_LU_UNSOUND", ToString({u \in X : hold(u) # "T"})>>
     ELSE IF missing = {} THEN <<"OK_LU", "">>
     ELSE IF SubCycle(M, TS, ev.o, ev.r) THEN <<"KF_ExclSubtractCycle", ToString(missing)>>
     ELSE IF WildExclNested(M, TS, ev.o, ev.r) THEN <<"KF_LUWildcardExclusionNestedOmission", ToString(missing)>>
     ELSE IF AnyE(M, TS, ev.ctx) THEN <<"BAD_LU_INCOMPLETE_E", ToString(missing)>>
     ELSE <<"BAD_LU_INCOMPLETE", ToString(missing)>>

TrListUsers ==
  /\ IsEvent("ListUsers")
  /\ LET c == ListUsersClass(model, AllTuples(Ev1), Ev1) IN
     IF c[1] \in OKs /\ ~NativeSame(Ev1) THEN Judge("BAD_DIFFERS_FROM_NATIVE", ToString(Ev1.native), Ev1.eng)
     ELSE Judge(c[1], c[2], Ev1.eng)
  /\ UNCHANGED <<model, stored>>

---------------------------------------------------------------------------
\* AuthZEN batched evaluation (C32): the decisions of one Evaluations call (got) and the
\* outcomes of the native Check for each mapped item (solos; the items themselves are also
\* emitted as Check events and judged against the reference).  execute_all answers every
\* item; deny_on_first_deny / permit_on_first_permit stop after the first item that is
\* denied (an error counts as a denial) / permitted.
RECURSIVE UpToFirst(_, _)
UpToFirst(s, stopAt) ==
  IF s = <<>> THEN <<>> ELSE IF Head(s) \in stopAt THEN <<Head(s)>> ELSE <<Head(s)>> \o UpToFirst(Tail(s), stopAt)
EvalsWant(ev) ==
  CASE ev.sem = "all" -> ev.solos
    [] ev.sem = "deny_first" -> UpToFirst(ev.solos, {"F", "ERR"})
    [] ev.sem = "permit_first" -> UpToFirst(ev.solos, {"T"})
TrEvals ==
  /\ IsEvent("Evals")
  /\ Judge(IF Ev1.err THEN "BAD_EVALS_ERR" ELSE IF Ev1.got = EvalsWant(Ev1) THEN "OK_EVALS" ELSE "BAD_EVALS_DIFFER", ToString(EvalsWant(Ev1)), Ev1.eng)
  /\ UNCHANGED <<model, stored>>

---------------------------------------------------------------------------
\* Expand (DESIGN D.5).  Trees: [name, k, ...]
\*   users    [name, k |-> "users", users : Seq(subject), sorted : BOOLEAN]
\*   computed [name, k |-> "computed", target : STRING-free record [o, r]]
\*   ttu      [name, k |-> "ttu", ts : [o, r], computed : Seq([o, r])]
\*   union / inter  [name, k, ch : Seq(tree)]      diff [name, k, base, sub]
RECURSIVE ExpandOK(_, _, _, _, _, _)
ExpandOK(M, TS, rw, o, r, tree) ==
  /\ tree.name = [o |-> o, r |-> r]
  /\ CASE rw.k = "this" ->
            /\ tree.k = "users"
            /\ LET U == {t.u : t \in {t \in TS : t.o = o /\ t.r = r /\ TupleReadValid(M, t)}}
               IN /\ SeqToSet(tree.users) = U
                  /\ Len(tree.users) = Cardinality(U)
                  /\ tree.sorted
       [] rw.k = "computed" -> tree.k = "computed" /\ tree.target = [o |-> o, r |-> rw.rel]
       [] rw.k = "ttu" ->
            /\ tree.k = "ttu"
            /\ tree.ts = [o |-> o, r |-> rw.ts]
            /\ LET P == {ObjOf(t.u) : t \in {t \in TS : t.o = o /\ t.r = rw.ts /\ TupleReadValid(M, t) /\ IsPlain(t.u)}}
               IN /\ SeqToSet(tree.computed) = {[o |-> p, r |-> rw.rel] : p \in P}
                  /\ Len(tree.computed) = Cardinality(P)
       [] rw.k \in {"union", "inter"} ->
            /\ tree.k = rw.k
            /\ Len(tree.ch) = Len(rw.ch)
            /\ \A i \in DOMAIN rw.ch : ExpandOK(M, TS, rw.ch[i], o, r, tree.ch[i])
       [] rw.k = "diff" ->
            /\ tree.k = "diff"
            /\ ExpandOK(M, TS, rw.base, o, r, tree.base)
            /\ ExpandOK(M, TS, rw.sub, o, r, tree.sub)

TrExpand ==
  /\ IsEvent("Expand")
  /\ LET TS == AllTuples(Ev1)
         cls == IF Ev1.err THEN "BAD_EXPAND_ERR"
                ELSE IF ExpandOK(model, TS, Rw(model, Ev1.o.t, Ev1.r), Ev1.o, Ev1.r, Ev1.got) THEN "OK_EXPAND"
                ELSE "BAD_EXPAND"
     IN Judge(cls, "", Ev1.eng)
  /\ UNCHANGED <<model, stored>>

---------------------------------------------------------------------------
\* StateDump: the store's tuples as read back through the public API must be
\* exactly the abstract stored set (contextual tuples never persist; C04).
TrStateDump ==
  /\ IsEvent("StateDump")
  /\ Judge(IF SeqToSet(Ev1.tuples) = stored /\ Len(Ev1.tuples) = Cardinality(stored) THEN "OK_DUMP" ELSE "BAD_DUMP", "", "dump")
  /\ UNCHANGED <<model, stored>>

\* BatchCheck structure (C07): exactly one outcome per correlation id.  The items
\* themselves are judged as Check events emitted next to this one.
TrBatch ==
  /\ IsEvent("BatchCheck")
  /\ LET ids == SeqToSet(Ev1.ids) res == SeqToSet(Ev1.resids) IN
     Judge(IF Ev1.err THEN "BAD_BATCH_ERR"
           ELSE IF ids = res /\ Len(Ev1.resids) = Cardinality(res) /\ Len(Ev1.ids) = Cardinality(ids) THEN "OK_BATCH"
           ELSE "BAD_BATCH_IDS", "", "batch")
  /\ UNCHANGED <<model, stored>>

---------------------------------------------------------------------------
TrEnd ==
  /\ IsEvent("End")
  /\ PrintT(<<"VERIF", "END", ToJson([l |-> l, judged |-> judged, skipped |-> skipped, bad |-> bad, counts |-> counts])>>)
  /\ UNCHANGED <<model, stored, bad, counts, judged, skipped>>

Next == TrSetup \/ TrApiWrite \/ TrCheck \/ TrV2Check \/ TrListObjects \/ TrListUsers \/ TrExpand \/ TrStateDump \/ TrBatch \/ TrEvals \/ TrEnd

Spec == Init /\ [][Next]_vars

\* every trace line is consumed (the End event prints; acceptance is checked by the driver too)
TraceAccepted == TLCGet("stats").diameter - 1 = Len(Trace)
=============================================================================
