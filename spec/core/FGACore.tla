------------------------------- MODULE FGACore -------------------------------
(***************************************************************************)
(* Reference semantics of an OpenFGA authorization model.                  *)
(*                                                                         *)
(* Pure operators, no variables.  Written from the documented meaning of   *)
(* the rewrites (direct, wildcard, userset, computed, tuple-to-userset,    *)
(* union, intersection, exclusion) and of "valid for the model", not from  *)
(* any resolver in the repository.                                         *)
(*                                                                         *)
(* Values (as delivered by JSON):                                          *)
(*   object   [t, id]                                                      *)
(*   subject  [t, id, rel]     id = "*" typed wildcard, rel = "" plain     *)
(*   tuple    [o, r, u, c, cctx]   c = "" for no condition                 *)
(*   rewrite  [k |-> "this"] | [k |-> "computed", rel] |                   *)
(*            [k |-> "ttu", ts, rel] | [k |-> "union"|"inter", ch : Seq] | *)
(*            [k |-> "diff", base, sub]                                    *)
(*   model    [types : Seq(STRING),                                        *)
(*             rels  : Seq([t, r, rw, restr : Seq([t, rel, wc, cond])]),   *)
(*             conds : Seq([name, params : Seq([n, ty]), expr])]           *)
(***************************************************************************)
EXTENDS Integers, Sequences, FiniteSets, TLC, Cond

SeqToSet(s) == {s[i] : i \in DOMAIN s}

---------------------------------------------------------------------------
\* Three-valued (Kleene) connectives over {"T","F","E"}
T3Or(a, b)  == IF a = "T" \/ b = "T" THEN "T" ELSE IF a = "E" \/ b = "E" THEN "E" ELSE "F"
T3And(a, b) == IF a = "F" \/ b = "F" THEN "F" ELSE IF a = "E" \/ b = "E" THEN "E" ELSE "T"
T3Not(a)    == IF a = "T" THEN "F" ELSE IF a = "F" THEN "T" ELSE "E"
OrAll(S)    == IF "T" \in S THEN "T" ELSE IF "E" \in S THEN "E" ELSE "F"
AndAll(S)   == IF "F" \in S THEN "F" ELSE IF "E" \in S THEN "E" ELSE "T"

---------------------------------------------------------------------------
\* Model access
RelDefs(M)      == SeqToSet(M.rels)
Types(M)        == SeqToSet(M.types)
HasRel(M, t, r) == \E e \in RelDefs(M) : e.t = t /\ e.r = r
RelDef(M, t, r) == CHOOSE e \in RelDefs(M) : e.t = t /\ e.r = r
Rw(M, t, r)     == RelDef(M, t, r).rw
Restr(M, t, r)  == SeqToSet(RelDef(M, t, r).restr)
HasCond(M, c)   == \E x \in SeqToSet(M.conds) : x.name = c
CondDef(M, c)   == CHOOSE x \in SeqToSet(M.conds) : x.name = c

IsWild(u)    == u.rel = "" /\ u.id = "*"
IsUserset(u) == u.rel # ""
IsPlain(u)   == u.rel = "" /\ u.id # "*"
ObjOf(u)     == [t |-> u.t, id |-> u.id]

\* Every sub-rewrite of a rewrite
RECURSIVE SubRw(_)
SubRw(rw) ==
  {rw} \cup
  CASE rw.k \in {"union", "inter"} -> UNION {SubRw(rw.ch[i]) : i \in DOMAIN rw.ch}
    [] rw.k = "diff"               -> SubRw(rw.base) \cup SubRw(rw.sub)
    [] OTHER                       -> {}

\* r is used as a tupleset relation of type t somewhere in t's relations
IsTupleset(M, t, r) ==
  \E e \in RelDefs(M) : e.t = t /\ \E x \in SubRw(e.rw) : x.k = "ttu" /\ x.ts = r

---------------------------------------------------------------------------
(* Structural model validity (C17): the rules of the documented model          *)
(* validation that can be stated on the abstract model without the entry-point  *)
(* / cycle analysis.  WriteAuthorizationModel may accept a model only if this   *)
(* holds (necessary, not sufficient).                                           *)
HasThis(rw) == \E x \in SubRw(rw) : x.k = "this"
ValidModelBasic(M) ==
  /\ \A i, j \in DOMAIN M.types : i # j => M.types[i] # M.types[j]
  /\ \A e \in RelDefs(M) :
       /\ e.t \in Types(M)
       \* rewrites reference existing relations
       /\ \A x \in SubRw(e.rw) :
            /\ x.k = "computed" => HasRel(M, e.t, x.rel)
            /\ x.k \in {"union", "inter"} => Len(x.ch) >= 1
            /\ x.k = "ttu" =>
                 /\ HasRel(M, e.t, x.ts)
                 \* a tupleset relation is directly assignable only, to concrete objects only
                 /\ Rw(M, e.t, x.ts).k = "this"
                 /\ \A y \in Restr(M, e.t, x.ts) : y.rel = "" /\ ~y.wc
                 \* the computed relation exists on at least one of the tupleset's types
                 /\ \E y \in Restr(M, e.t, x.ts) : HasRel(M, y.t, x.rel)
       \* type restrictions: present exactly when the rewrite has a direct assignment
       /\ HasThis(e.rw) <=> (e.restr # <<>>)
       /\ \A y \in SeqToSet(e.restr) :
            /\ y.t \in Types(M)
            /\ y.rel # "" => (HasRel(M, y.t, y.rel) /\ ~y.wc)
            /\ y.cond # "" => HasCond(M, y.cond)

---------------------------------------------------------------------------
\* "Valid for the model in use" (read-time meaning): the object type and
\* relation exist, the user matches one of the relation's type restrictions
\* -- plain object type, typed wildcard or userset -- with exactly the
\* condition (or absence of one) that this restriction carries, and tupleset
\* relations receive only concrete objects.
RestrMatches(x, t) ==
  /\ x.t = t.u.t
  /\ x.cond = t.c
  /\ IF IsUserset(t.u) THEN x.rel = t.u.rel /\ ~x.wc
     ELSE IF IsWild(t.u) THEN x.wc
     ELSE x.rel = "" /\ ~x.wc

\* the stored context of a conditional tuple names only declared parameters and
\* every value fits the declared parameter type
CtxFits(c, cctx) ==
  /\ DOMAIN cctx \subseteq ParamNames(c)
  /\ \A p \in DOMAIN cctx : Convert(ParamTy(c, p), cctx[p]) # Err

TupleReadValid(M, t) ==
  /\ HasRel(M, t.o.t, t.r)
  /\ t.u.t \in Types(M)
  /\ \E x \in Restr(M, t.o.t, t.r) : RestrMatches(x, t)
  /\ IsTupleset(M, t.o.t, t.r) => IsPlain(t.u)
  /\ t.c # "" => (HasCond(M, t.c) /\ CtxFits(CondDef(M, t.c), t.cctx))

\* Condition value of a tuple under a request context
CondVal(M, t, ctx) ==
  IF t.c = "" THEN "T"
  ELSE IF ~HasCond(M, t.c) THEN "E"
  ELSE CondEval(CondDef(M, t.c), ctx, t.cctx)

---------------------------------------------------------------------------
(* Chk: does subject u hold relation r on object o ?                        *)
(* Kleene least fixpoint computed top-down with a path-visited cut.  For    *)
(* stratified models (no exclusion-subtract edge on a dependency cycle) a   *)
(* minimal derivation never repeats a goal along one path, so the cut does  *)
(* not lose derivations; the subtract branch of an exclusion belongs to a   *)
(* lower stratum and is evaluated with an empty path.                       *)
RECURSIVE Chk(_, _, _, _, _, _, _), Ev(_, _, _, _, _, _, _, _)
Chk(M, TS, ctx, o, r, u, vis) ==
  LET g == <<o, r>> IN
  IF g \in vis THEN "F"
  ELSE IF IsUserset(u) /\ u.t = o.t /\ u.id = o.id /\ u.rel = r THEN "T"   \* o#r is a member of itself
  ELSE IF ~HasRel(M, o.t, r) THEN "F"
  ELSE Ev(M, TS, ctx, Rw(M, o.t, r), o, r, u, vis \cup {g})

Ev(M, TS, ctx, rw, o, r, u, vis) ==
  CASE rw.k = "this" ->
         LET cands == {t \in TS : t.o = o /\ t.r = r /\ TupleReadValid(M, t)}
             val(t) == IF t.u = u THEN CondVal(M, t, ctx)
                       ELSE IF IsWild(t.u) /\ IsPlain(u) /\ u.t = t.u.t THEN CondVal(M, t, ctx)
                       ELSE IF IsUserset(t.u)
                            THEN T3And(CondVal(M, t, ctx), Chk(M, TS, ctx, ObjOf(t.u), t.u.rel, u, vis))
                       ELSE "F"
         IN OrAll({val(t) : t \in cands})
    [] rw.k = "computed" -> Chk(M, TS, ctx, o, rw.rel, u, vis)
    [] rw.k = "ttu" ->
         LET cands == {t \in TS : t.o = o /\ t.r = rw.ts /\ TupleReadValid(M, t) /\ IsPlain(t.u)
                                   /\ HasRel(M, t.u.t, rw.rel)}
         IN OrAll({T3And(CondVal(M, t, ctx), Chk(M, TS, ctx, ObjOf(t.u), rw.rel, u, vis)) : t \in cands})
    [] rw.k = "union" -> OrAll({Ev(M, TS, ctx, rw.ch[i], o, r, u, vis) : i \in DOMAIN rw.ch})
    [] rw.k = "inter" -> AndAll({Ev(M, TS, ctx, rw.ch[i], o, r, u, vis) : i \in DOMAIN rw.ch})
    [] rw.k = "diff"  -> T3And(Ev(M, TS, ctx, rw.base, o, r, u, vis),
                               T3Not(Ev(M, TS, ctx, rw.sub, o, r, u, {})))

Holds(M, TS, ctx, o, r, u) == Chk(M, TS, ctx, o, r, u, {})

---------------------------------------------------------------------------
(* Read keys (object, relation) the evaluation of a goal can touch, ignoring *)
(* conditions and short circuits: closure over rewrites and tuples.  Used   *)
(* for TouchedE (an unevaluable conditional tuple lies in a visited read    *)
(* set) and for the depth margin.                                           *)
RECURSIVE RwKeys(_, _, _, _)
\* keys directly referenced by rewrite rw of goal (o, r): <<object, relation, "read"|"goal">>
RwKeys(M, TS, rw, g) ==
  CASE rw.k = "this" ->
         {<<g[1], g[2], "read">>} \cup
         {<<ObjOf(t.u), t.u.rel, "goal">> : t \in {t \in TS : t.o = g[1] /\ t.r = g[2] /\ IsUserset(t.u)}}
    [] rw.k = "computed" -> {<<g[1], rw.rel, "goal">>}
    [] rw.k = "ttu" ->
         {<<g[1], rw.ts, "read">>} \cup
         {<<ObjOf(t.u), rw.rel, "goal">> : t \in {t \in TS : t.o = g[1] /\ t.r = rw.ts /\ IsPlain(t.u)}}
    [] rw.k \in {"union", "inter"} -> UNION {RwKeys(M, TS, rw.ch[i], g) : i \in DOMAIN rw.ch}
    [] rw.k = "diff" -> RwKeys(M, TS, rw.base, g) \cup RwKeys(M, TS, rw.sub, g)

RECURSIVE ReachFrom(_, _, _, _)
ReachFrom(M, TS, frontier, seen) ==
  IF frontier = {} THEN seen
  ELSE LET new == UNION {IF HasRel(M, g[1].t, g[2]) THEN RwKeys(M, TS, Rw(M, g[1].t, g[2]), g) ELSE {}
                         : g \in frontier}
           goals == {<<k[1], k[2]>> : k \in {k \in new : k[3] = "goal"}}
       IN ReachFrom(M, TS, goals \ {<<k[1], k[2]>> : k \in {k \in seen : k[3] = "goal"}}, seen \cup new)

Reach(M, TS, o, r) == ReachFrom(M, TS, {<<o, r>>}, {<<o, r, "goal">>})
ReadKeys(M, TS, o, r) == {<<k[1], k[2]>> : k \in {k \in Reach(M, TS, o, r) : k[3] = "read"}}
GoalKeys(M, TS, o, r) == {<<k[1], k[2]>> : k \in {k \in Reach(M, TS, o, r) : k[3] = "goal"}}

\* Type-level reachability: the <<type, relation>> pairs whose tuples an evaluation
\* of relation r on type t may read, whatever the evaluation order (resolvers may
\* read a relation for all objects of a type at once, e.g. reverse lookups by user).
RECURSIVE TRwKeys(_, _, _, _)
TRwKeys(M, rw, t, r) ==
  CASE rw.k = "this" ->
         {<<t, r, "read">>} \cup {<<x.t, x.rel, "goal">> : x \in {x \in Restr(M, t, r) : x.rel # ""}}
    [] rw.k = "computed" -> {<<t, rw.rel, "goal">>}
    [] rw.k = "ttu" ->
         {<<t, rw.ts, "read">>} \cup
         (IF HasRel(M, t, rw.ts)
          THEN {<<x.t, rw.rel, "goal">> : x \in {x \in Restr(M, t, rw.ts) : x.rel = "" /\ ~x.wc /\ HasRel(M, x.t, rw.rel)}}
          ELSE {})
    [] rw.k \in {"union", "inter"} -> UNION {TRwKeys(M, rw.ch[i], t, r) : i \in DOMAIN rw.ch}
    [] rw.k = "diff" -> TRwKeys(M, rw.base, t, r) \cup TRwKeys(M, rw.sub, t, r)

RECURSIVE TReachFrom(_, _, _)
TReachFrom(M, frontier, seen) ==
  IF frontier = {} THEN seen
  ELSE LET new == UNION {IF HasRel(M, g[1], g[2]) THEN TRwKeys(M, Rw(M, g[1], g[2]), g[1], g[2]) ELSE {} : g \in frontier}
           goals == {<<k[1], k[2]>> : k \in {k \in new : k[3] = "goal"}}
       IN TReachFrom(M, goals \ {<<k[1], k[2]>> : k \in {k \in seen : k[3] = "goal"}}, seen \cup new)

TGoalKeys(M, t, r) == {<<k[1], k[2]>> : k \in {k \in TReachFrom(M, {<<t, r>>}, {<<t, r, "goal">>}) : k[3] = "goal"}}
TReadKeys(M, t, r) =={<<k[1], k[2]>> : k \in {k \in TReachFrom(M, {<<t, r>>}, {<<t, r, "goal">>}) : k[3] = "read"}}

\* Some conditional tuple that cannot be evaluated under ctx belongs to a
\* <<type, relation>> the evaluation of (o, r) may read.
TouchedE(M, TS, ctx, o, r) ==
  LET rk == TReadKeys(M, o.t, r) IN
  \E t \in TS : <<t.o.t, t.r>> \in rk /\ t.c # "" /\ TupleReadValid(M, t) /\ CondVal(M, t, ctx) = "E"

\* Upper bound of the dispatch depth: number of distinct goals reachable.
DepthBound(M, TS, o, r) == Cardinality(GoalKeys(M, TS, o, r))

---------------------------------------------------------------------------
(* Bottom-up formulation, used only to cross-check Chk (two independent     *)
(* formulations must agree before either is trusted as an oracle).  Valid   *)
(* for exclusion-free evaluation of one subject: iterate the immediate      *)
(* consequence operator on the set of goals known "T" / known "E".          *)
=============================================================================
