------------------------------ MODULE CondTrace ------------------------------
(* C25: each line is one evaluation of a generated condition by the real
   eval.EvaluateTupleCondition: [cond, req (request context), tup (stored context), got]. *)
EXTENDS Cond, Json

Trace == ndJsonDeserialize("trace.ndjson")
VARIABLES l, bad, counts, judged
vars == <<l, bad, counts, judged>>
Ev1 == Trace[l]
Bump(c, cls) == [x \in DOMAIN c \cup {cls} |-> IF x = cls THEN (IF x \in DOMAIN c THEN c[x] ELSE 0) + 1 ELSE c[x]]
Init == l = 1 /\ bad = <<>> /\ counts = [x \in {"OK"} |-> 0] /\ judged = 0

TrCase ==
  /\ l <= Len(Trace) /\ Ev1.e = "Cond" /\ l' = l + 1
  /\ LET ref == CondEval(Ev1.cond, Ev1.req, Ev1.tup)
         c == IF ref = Ev1.got THEN "OK_" \o ref
              ELSE IF Ev1.got = "T" THEN "BAD_COND_TRUE" ELSE "BAD_COND_" \o Ev1.got
     IN /\ counts' = Bump(counts, c) /\ judged' = judged + 1
        /\ bad' = IF ref = Ev1.got THEN bad ELSE Append(bad, [l |-> l, cls |-> c, ref |-> ref, note |-> ""])
TrEnd ==
  /\ l <= Len(Trace) /\ Ev1.e = "End" /\ l' = l + 1
  /\ PrintT(<<"VERIF", "END", ToJson([l |-> l, judged |-> judged, skipped |-> 0, bad |-> bad, counts |-> counts])>>)
  /\ UNCHANGED <<bad, counts, judged>>
Spec == Init /\ [][TrCase \/ TrEnd]_vars
TraceAccepted == TLCGet("stats").diameter - 1 = Len(Trace)
=============================================================================
