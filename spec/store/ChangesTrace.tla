---------------------------- MODULE ChangesTrace ----------------------------
(***************************************************************************)
(* C15, the two clauses the write histories do not reach: "changes newer    *)
(* than the configured horizon are withheld" and "descending order is the   *)
(* exact reverse of ascending order".                                       *)
(*                                                                          *)
(* One event per ReadChanges walk over a changelog the driver has written:  *)
(*   Changes  backend, level in {"ds","api"}, horizon (ms), desc, typ,      *)
(*            log  : the whole changelog oldest first, each entry           *)
(*                   [t |-> object type, lo |-> least possible age (ms) at  *)
(*                    the moment the backend looked at the clock,           *)
(*                    hi |-> greatest possible age],                        *)
(*            got  : the walk's result as indices into log (0 = an entry    *)
(*                   that is not in the log at all),                        *)
(*            slack: clock granularity (ms)                                 *)
(* The abstract rule: the visible part of a changelog is a PREFIX of it     *)
(* (time only moves forward), it contains every entry that is certainly     *)
(* older than the horizon and none that is certainly younger; ascending     *)
(* walks return it in log order, descending walks in exactly the reverse.   *)
(***************************************************************************)
EXTENDS Naturals, Sequences, FiniteSets, TLC, Json

Trace == ndJsonDeserialize("trace.ndjson")
VARIABLES l, bad, counts, judged
vars == <<l, bad, counts, judged>>
Ev1 == Trace[l]
IsEvent(e) == l <= Len(Trace) /\ Trace[l].e = e /\ l' = l + 1
Bump(c, cls) == [x \in DOMAIN c \cup {cls} |-> IF x = cls THEN (IF x \in DOMAIN c THEN c[x] ELSE 0) + 1 ELSE c[x]]
Init == l = 1 /\ bad = <<>> /\ counts = [x \in {"OK"} |-> 0] /\ judged = 0

Matches(ev, i) == ev.typ = "" \/ ev.log[i].t = ev.typ
Idx(ev) == {i \in 1..Len(ev.log) : Matches(ev, i)}
Seen(ev) == {ev.got[k] : k \in 1..Len(ev.got)}
MustSee(ev) == {i \in Idx(ev) : ev.log[i].lo >= ev.horizon + ev.slack}
MustHide(ev) == {i \in Idx(ev) : ev.log[i].hi + ev.slack <= ev.horizon}
Ordered(ev) == \A a, b \in 1..Len(ev.got) : a < b => IF ev.desc THEN ev.got[a] > ev.got[b] ELSE ev.got[a] < ev.got[b]

Class(ev) ==
  IF ~(Seen(ev) \subseteq Idx(ev)) THEN "BAD_CHANGES_FOREIGN_ENTRY"
  ELSE IF ~Ordered(ev) THEN (IF ev.desc THEN "BAD_CHANGES_DESC_NOT_REVERSE" ELSE "BAD_CHANGES_ORDER")
  ELSE IF \E i \in Seen(ev), j \in Idx(ev) : j < i /\ j \notin Seen(ev) THEN "BAD_CHANGES_NOT_A_PREFIX"
  ELSE IF MustHide(ev) \cap Seen(ev) # {} THEN "BAD_CHANGES_NEWER_THAN_HORIZON_SHOWN"
  ELSE IF ~(MustSee(ev) \subseteq Seen(ev)) THEN "BAD_CHANGES_OLDER_THAN_HORIZON_WITHHELD"
  ELSE IF ev.horizon = 0 THEN "OK_CHANGES_ALL" ELSE IF Seen(ev) = {} THEN "OK_CHANGES_NONE" ELSE IF Seen(ev) = Idx(ev) THEN "OK_CHANGES_ALL_OLD" ELSE "OK_CHANGES_PREFIX"

TrChanges ==
  /\ IsEvent("Changes")
  /\ LET c == Class(Ev1)
     IN /\ counts' = Bump(counts, c) /\ judged' = judged + 1
        /\ bad' = IF c \in {"OK_CHANGES_ALL", "OK_CHANGES_NONE", "OK_CHANGES_ALL_OLD", "OK_CHANGES_PREFIX"} THEN bad
                  ELSE Append(bad, [l |-> l, cls |-> c, ref |-> "-", note |-> Ev1.backend])
TrEnd ==
  /\ IsEvent("End")
  /\ PrintT(<<"VERIF", "END", ToJson([l |-> l, judged |-> judged, skipped |-> 0, bad |-> bad, counts |-> counts])>>)
  /\ UNCHANGED <<bad, counts, judged>>
Spec == Init /\ [][TrChanges \/ TrEnd]_vars
TraceAccepted == TLCGet("stats").diameter - 1 = Len(Trace)
=============================================================================
