--------------------------- MODULE ConcWriteTrace ---------------------------
(***************************************************************************)
(* C12 under concurrency: several Write requests race on a few keys.  One  *)
(* line per round:                                                         *)
(*   ConcWrites(backend, pre, reqs : Seq([dels, wrs, onDup, onMiss, ok]),  *)
(*              log : the changelog entries appended during the round,     *)
(*              post : the keys present afterwards)                        *)
(* Writes are atomic and isolated: the round must be explainable by SOME   *)
(* serial order of the requests that reported success - in that order      *)
(* every one of them is a request the sequential specification             *)
(* (FGAStoreOps!WriteOutcome) accepts in the state it meets, the log is    *)
(* the concatenation of exactly their entries (IsLogSuffixFor), and the    *)
(* final state is the result of applying them.  Requests that reported a   *)
(* failure must have changed nothing; why they failed is not judged (a     *)
(* backend may refuse a request because of the race itself).               *)
(***************************************************************************)
EXTENDS FGAStoreOps, Json

Trace == ndJsonDeserialize("trace.ndjson")
VARIABLES l, bad, counts, judged
vars == <<l, bad, counts, judged>>
Ev1 == Trace[l]
IsEvent(e) == l <= Len(Trace) /\ Trace[l].e = e /\ l' = l + 1
Bump(c, cls) == [x \in DOMAIN c \cup {cls} |-> IF x = cls THEN (IF x \in DOMAIN c THEN c[x] ELSE 0) + 1 ELSE c[x]]
Init == l = 1 /\ bad = <<>> /\ counts = [x \in {"OK"} |-> 0] /\ judged = 0

TOf(ks) == [k \in {ks[i] : i \in DOMAIN ks} |-> "none"]
ReqOf(r) == [dels |-> r.dels, wrs |-> [i \in DOMAIN r.wrs |-> [key |-> r.wrs[i], cond |-> "none"]], onDup |-> r.onDup, onMiss |-> r.onMiss]
LogOf(lg) == [i \in DOMAIN lg |-> [op |-> lg[i].op, key |-> lg[i].key, cond |-> "none"]]
NumEff(T, req) == Cardinality(EffDels(T, req)) + Len(EffWrs(T, req))

RECURSIVE Explains(_, _, _, _, _)
Explains(ev, T, R, lg, post) ==
  IF R = {} THEN lg = <<>> /\ T = post
  ELSE \E i \in R :
         LET req == ReqOf(ev.reqs[i]) n == NumEff(T, req) IN
         /\ WriteOutcome(T, req) = "ok"
         /\ n <= Len(lg) /\ IsLogSuffixFor(T, req, SubSeq(lg, 1, n))
         /\ Explains(ev, ApplyWrite(T, req), R \ {i}, SubSeq(lg, n + 1, Len(lg)), post)

\* Known finding KF-26 (SQL backends): the changelog is ordered by ULIDs stamped with the time the
\* request ARRIVED (sqlite.go Write passes time.Now() into the transaction), not by commit order.
\* When two requests race on one tuple, the log can list them in the opposite order of their
\* effects.  Classifier: the round is explainable by a serial order of the successful requests when
\* the log is read as a bag of entries (every request's entries are there exactly once, the final
\* state is right), only their order is not that serial order.
RECURSIVE RemoveOne(_, _)
RemoveOne(sq, e) == IF sq = <<>> THEN <<>> ELSE IF Head(sq) = e THEN Tail(sq) ELSE <<Head(sq)>> \o RemoveOne(Tail(sq), e)
RECURSIVE RemoveAll(_, _)
RemoveAll(sq, es) == IF es = <<>> THEN sq ELSE RemoveAll(RemoveOne(sq, Head(es)), Tail(es))
InBag(sq, e) == \E i \in DOMAIN sq : sq[i] = e
RECURSIVE AllInBag(_, _)
AllInBag(sq, es) == IF es = <<>> THEN TRUE ELSE InBag(sq, Head(es)) /\ AllInBag(RemoveOne(sq, Head(es)), Tail(es))
RECURSIVE SetToSeq(_)
SetToSeq(S) == IF S = {} THEN <<>> ELSE LET x == CHOOSE y \in S : TRUE IN <<x>> \o SetToSeq(S \ {x})
Entries(T, req) ==
  LET ds == SetToSeq(EffDels(T, req))
      dseq == [i \in DOMAIN ds |-> [op |-> "delete", key |-> ds[i], cond |-> "none"]]
      ew == EffWrs(T, req)
  IN dseq \o [i \in DOMAIN ew |-> [op |-> "write", key |-> ew[i].key, cond |-> "none"]]
RECURSIVE ExplainsBag(_, _, _, _, _)
ExplainsBag(ev, T, R, lg, post) ==
  IF R = {} THEN lg = <<>> /\ T = post
  ELSE \E i \in R :
         LET req == ReqOf(ev.reqs[i]) es == Entries(T, req) IN
         /\ WriteOutcome(T, req) = "ok"
         /\ AllInBag(lg, es)
         /\ ExplainsBag(ev, ApplyWrite(T, req), R \ {i}, RemoveAll(lg, es), post)

TrConc ==
  /\ IsEvent("ConcWrites")
  /\ LET okReqs == {i \in DOMAIN Ev1.reqs : Ev1.reqs[i].ok}
         c == IF Explains(Ev1, TOf(Ev1.pre), okReqs, LogOf(Ev1.log), TOf(Ev1.post)) THEN "OK_CONC_SERIALIZABLE"
              ELSE IF Ev1.backend # "memory" /\ ExplainsBag(Ev1, TOf(Ev1.pre), okReqs, LogOf(Ev1.log), TOf(Ev1.post))
                   THEN "KF_SqlChangelogOrderNotCommitOrder"
              ELSE "BAD_CONC_WRITES_NOT_SERIALIZABLE"
     IN /\ counts' = Bump(counts, c) /\ judged' = judged + 1
        /\ bad' = IF c = "OK_CONC_SERIALIZABLE" THEN bad ELSE Append(bad, [l |-> l, cls |-> c, ref |-> "", note |-> Ev1.backend])
\* C14 under concurrency: after a burst of concurrent writers has finished, a paginated walk of the
\* changelog returns every entry of the burst exactly once (delivered = distinct = written).
TrBurst ==
  /\ IsEvent("BurstWalk")
  /\ LET c == IF Ev1.delivered = Ev1.written /\ Ev1.distinct = Ev1.written THEN "OK_BURST_WALK"
              ELSE IF Ev1.distinct < Ev1.written THEN "BAD_BURST_WALK_ENTRIES_SKIPPED" ELSE "BAD_BURST_WALK_ENTRIES_REPEATED"
     IN /\ counts' = Bump(counts, c) /\ judged' = judged + 1
        /\ bad' = IF c = "OK_BURST_WALK" THEN bad ELSE Append(bad, [l |-> l, cls |-> c, ref |-> ToString(Ev1.written), note |-> Ev1.backend])
TrEnd ==
  /\ IsEvent("End")
  /\ PrintT(<<"VERIF", "END", ToJson([l |-> l, judged |-> judged, skipped |-> 0, bad |-> bad, counts |-> counts])>>)
  /\ UNCHANGED <<bad, counts, judged>>
Spec == Init /\ [][TrConc \/ TrBurst \/ TrEnd]_vars
TraceAccepted == TLCGet("stats").diameter - 1 = Len(Trace)
=============================================================================
