----------------------------- MODULE FGAStoreOps -----------------------------
(***************************************************************************)
(* The tuple store of one OpenFGA store as a state machine: tuples, the    *)
(* changelog, writes with on_duplicate / on_missing options, and paginated *)
(* reads (C12, C14, C15).                                                  *)
(*                                                                         *)
(* The pure operators of this module (WriteOutcome, ApplyWrite, FoldLog,   *)
(* PagesOK ...) are the definitions the trace spec StoreTrace.tla judges   *)
(* the real backends against; the variables/actions below are the          *)
(* design-level model checked exhaustively with small constants            *)
(* (FGAStore_small.cfg), including the SQL write transaction with a        *)
(* failure or crash between any two statements.                            *)
(***************************************************************************)
EXTENDS Integers, Sequences, FiniteSets, TLC

SeqSet(s) == {s[i] : i \in DOMAIN s}

---------------------------------------------------------------------------
(* A tuple table T is a function  key -> cond  whose domain is the set of    *)
(* existing keys.  A write request is                                        *)
(*   [dels : Seq(key), wrs : Seq([key, cond]), onDup, onMiss]                *)
(* with onDup, onMiss \in {"error", "ignore"}.                               *)

ReqKeys(req) == [i \in 1..(Len(req.dels) + Len(req.wrs)) |->
                   IF i <= Len(req.dels) THEN req.dels[i] ELSE req.wrs[i - Len(req.dels)].key]

\* request-level rejection: empty request or the same key twice
ReqMalformed(req) ==
  \/ Len(req.dels) + Len(req.wrs) = 0
  \/ \E i, j \in DOMAIN ReqKeys(req) : i # j /\ ReqKeys(req)[i] = ReqKeys(req)[j]

Missing(T, req) == {i \in DOMAIN req.dels : req.dels[i] \notin DOMAIN T}
Dups(T, req)    == {i \in DOMAIN req.wrs : req.wrs[i].key \in DOMAIN T}

\* "ok" or the reason the whole request fails (DESIGN D.1)
WriteOutcome(T, req) ==
  IF ReqMalformed(req) THEN "malformed"
  ELSE IF Missing(T, req) # {} /\ req.onMiss = "error" THEN "missing"
  ELSE IF Dups(T, req) # {} /\ req.onDup = "error" THEN "duplicate"
  ELSE IF \E i \in Dups(T, req) : req.wrs[i].cond # T[req.wrs[i].key] THEN "cond_conflict"
  ELSE "ok"

EffDels(T, req) == {req.dels[i] : i \in (DOMAIN req.dels) \ Missing(T, req)}
\* effective writes in request order
RECURSIVE EffWrsFrom(_, _, _)
EffWrsFrom(T, req, i) ==
  IF i > Len(req.wrs) THEN <<>>
  ELSE (IF i \in Dups(T, req) THEN <<>> ELSE <<req.wrs[i]>>) \o EffWrsFrom(T, req, i + 1)
EffWrs(T, req) == EffWrsFrom(T, req, 1)

ApplyWrite(T, req) ==
  LET ew   == EffWrs(T, req)
      keep == (DOMAIN T) \ EffDels(T, req)
      newk == {ew[i].key : i \in DOMAIN ew}
  IN [k \in keep \cup newk |->
        IF k \in newk THEN (CHOOSE c \in {ew[i].cond : i \in {j \in DOMAIN ew : ew[j].key = k}} : TRUE) ELSE T[k]]

\* The changelog entries a successful write appends: one DELETE per effective
\* delete (any order among them, condition redacted), then one WRITE per effective
\* write in request order.
IsLogSuffixFor(T, req, suffix) ==
  LET nd == Cardinality(EffDels(T, req))
      ew == EffWrs(T, req)
  IN /\ Len(suffix) = nd + Len(ew)
     /\ {suffix[i].key : i \in 1..nd} = EffDels(T, req)
     /\ \A i \in 1..nd : suffix[i].op = "delete"
     /\ \A i \in 1..Len(ew) : suffix[nd + i] = [op |-> "write", key |-> ew[i].key, cond |-> ew[i].cond]

\* generator form used by the design-level model (delete entries carry cond "none")
Perms(S) == {p \in [1..Cardinality(S) -> S] : \A i, j \in DOMAIN p : i # j => p[i] # p[j]}
LogSuffixes(T, req) ==
  LET ew == EffWrs(T, req) IN
  {[i \in 1..Len(p) |-> [op |-> "delete", key |-> p[i], cond |-> "none"]] \o
   [i \in 1..Len(ew) |-> [op |-> "write", key |-> ew[i].key, cond |-> ew[i].cond]] : p \in Perms(EffDels(T, req))}

\* Replaying a changelog oldest-first onto the empty store
RECURSIVE FoldLog(_, _)
FoldLog(log, T) ==
  IF log = <<>> THEN T
  ELSE LET e == Head(log)
           T2 == IF e.op = "write"
                 THEN [k \in (DOMAIN T) \cup {e.key} |-> IF k = e.key THEN e.cond ELSE T[k]]
                 ELSE [k \in (DOMAIN T) \ {e.key} |-> T[k]]
       IN FoldLog(Tail(log), T2)

EmptyT == [k \in {} |-> "none"]

\* each change is effective: a write of an absent key, a delete of a present one
RECURSIVE LogEffective(_, _)
LogEffective(log, T) ==
  IF log = <<>> THEN TRUE
  ELSE LET e == Head(log) IN
       /\ IF e.op = "write" THEN e.key \notin DOMAIN T ELSE e.key \in DOMAIN T
       /\ LogEffective(Tail(log), FoldLog(<<e>>, T))

---------------------------------------------------------------------------
\* Pagination (DESIGN D.6): pages is a sequence of sequences.
RECURSIVE Flatten(_)
Flatten(pages) == IF pages = <<>> THEN <<>> ELSE Head(pages) \o Flatten(Tail(pages))

\* following tokens from the first page visits `expected` exactly once, in order,
\* no page exceeds the page size and no page but the last is empty
PagesOK(pages, expected, size) ==
  /\ Flatten(pages) = expected
  /\ \A i \in DOMAIN pages : Len(pages[i]) <= size
  /\ \A i \in DOMAIN pages : i < Len(pages) => Len(pages[i]) > 0

\* same, when the order of items is not specified (Read): a permutation without repetition
PagesOKUnordered(pages, expectedSet, size) ==
  LET f == Flatten(pages) IN
  /\ SeqSet(f) = expectedSet /\ Len(f) = Cardinality(expectedSet)
  /\ \A i \in DOMAIN pages : Len(pages[i]) <= size

\* the pages a correct server cuts from a sequence
RECURSIVE Cut(_, _)
Cut(s, n) == IF Len(s) <= n THEN <<s>> ELSE <<SubSeq(s, 1, n)>> \o Cut(SubSeq(s, n + 1, Len(s)), n)

Reverse(s) == [i \in DOMAIN s |-> s[Len(s) + 1 - i]]

=============================================================================
