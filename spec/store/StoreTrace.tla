------------------------------ MODULE StoreTrace ------------------------------
(***************************************************************************)
(* Trace validation of store histories recorded from the real server and   *)
(* datastores (memory, sqlite) against the store state machine:            *)
(*   C12 write atomicity + on_duplicate/on_missing, incl. injected faults  *)
(*       and crashes at every statement boundary of the SQL transaction    *)
(*   C14 pagination walks      C15 changelog faithfulness                  *)
(*   C16 store isolation       C17 model ids / latest model                *)
(*   C18 tuple validation      C31 assertions                              *)
(*                                                                         *)
(* Spec state: per store id  [alive, models, T (key -> cond), log,         *)
(* pend (the last accepted write not yet seen in a dump), alt (the other   *)
(* permitted outcome of a write that was hit by a fault), asserts].        *)
(* Store and model ids appear as integer ranks (the driver replaces the    *)
(* opaque ULIDs by their rank in lexicographic order, an order isomorphism).*)
(***************************************************************************)
EXTENDS FGACore, FGAStoreOps, Json

Trace == ndJsonDeserialize("trace.ndjson")

VARIABLES l, st, bad, counts, judged
vars == <<l, st, bad, counts, judged>>

NoPend == [k |-> "none"]
NewStore(name) == [alive |-> TRUE, name |-> name, models |-> <<>>, mdefs |-> <<>>, T |-> EmptyT, log |-> <<>>,
                   pend |-> NoPend, alt |-> NoPend, asserts |-> [m \in {} |-> <<>>]]

Init == l = 1 /\ st = [s \in {} |-> 0] /\ bad = <<>> /\ counts = [x \in {"OK"} |-> 0] /\ judged = 0

Ev1 == Trace[l]
IsEvent(e) == l <= Len(Trace) /\ Trace[l].e = e /\ l' = l + 1

Bump(c, cls) == [x \in DOMAIN c \cup {cls} |-> IF x = cls THEN (IF x \in DOMAIN c THEN c[x] ELSE 0) + 1 ELSE c[x]]
IsOK(cls) == cls \in {"OK", "OK_WRITE", "OK_REJECT", "OK_DUMP", "OK_WALK", "OK_FAULT", "OK_TOKEN", "OK_MODEL", "OK_MODEL_REJECT",
                      "OK_ASSERT", "OK_STORES", "OK_CHECK", "OK_DUMP_ALT", "OK_GONE", "OK_READ"}
Judge(cls, note) ==
  /\ counts' = Bump(counts, cls) /\ judged' = judged + 1
  /\ bad' = IF IsOK(cls) THEN bad ELSE Append(bad, [l |-> l, cls |-> cls, ref |-> note, note |-> ""])
NoJudge == UNCHANGED <<bad, counts, judged>>

Upd(s, rec) == [x \in DOMAIN st \cup {s} |-> IF x = s THEN rec ELSE st[x]]

KeyOf(t)  == [o |-> t.o, r |-> t.r, u |-> t.u]
CondOf(t) == [c |-> t.c, cctx |-> t.cctx]
\* request in the form FGAStoreOps expects
ReqOf(ev) == [dels |-> [i \in DOMAIN ev.dels |-> KeyOf(ev.dels[i])],
              wrs  |-> [i \in DOMAIN ev.wrs |-> [key |-> KeyOf(ev.wrs[i]), cond |-> CondOf(ev.wrs[i])]],
              onDup |-> ev.onDup, onMiss |-> ev.onMiss]

LatestModel(s) == st[s].mdefs[Len(st[s].mdefs)]

---------------------------------------------------------------------------
\* C18: a tuple is writable exactly when it is valid for the model (read-time
\* meaning of FGACore) and is not a userset that points at itself.
TupleWritable(M, t) ==
  /\ TupleReadValid(M, t)
  /\ ~(IsUserset(t.u) /\ t.u.t = t.o.t /\ t.u.id = t.o.id /\ t.u.rel = t.r)
  /\ t.o.id # "*"
\* deletes are validated as keys only: object type/relation exist and the user is well formed for some type
\* (Write validates only the well-formedness of a delete's user string, so that tuples
\*  left over from older models can still be removed; every generated delete is well formed.)
DeleteOK(M, t) == TRUE

---------------------------------------------------------------------------
TrReset == IsEvent("Reset") /\ st' = [s \in {} |-> 0] /\ NoJudge

TrCreateStore == IsEvent("CreateStore") /\ st' = Upd(Ev1.sid, NewStore(Ev1.name)) /\ NoJudge

TrDeleteStore ==
  /\ IsEvent("DeleteStore")
  /\ st' = Upd(Ev1.sid, [st[Ev1.sid] EXCEPT !.alive = FALSE]) /\ NoJudge

\* GetStore / ListStores observe exactly the live stores (C16), in id order (C14)
TrListStores ==
  /\ IsEvent("ListStores")
  /\ LET live == {s \in DOMAIN st : st[s].alive /\ ("name" \notin DOMAIN Ev1 \/ Ev1.name = "" \/ st[s].name = Ev1.name)}   \* optional name filter
         f == Flatten(Ev1.pages)
     IN Judge(IF /\ SeqSet(f) = live /\ Len(f) = Cardinality(live)
                 /\ \A i, j \in DOMAIN f : i < j => f[i] < f[j]
                 /\ \A i \in DOMAIN Ev1.pages : Len(Ev1.pages[i]) <= Ev1.size
              THEN "OK_STORES" ELSE "BAD_LIST_STORES", ToString(live))
  /\ UNCHANGED st
TrGetStore ==
  /\ IsEvent("GetStore")
  /\ Judge(IF Ev1.found = (Ev1.sid \in DOMAIN st /\ st[Ev1.sid].alive) THEN "OK_GONE" ELSE "BAD_GET_STORE", "")
  /\ UNCHANGED st

\* C17: accepted models get an id greater than every earlier one of the store
TrWriteModel ==
  /\ IsEvent("WriteModel")
  /\ LET s == st[Ev1.sid] IN
     IF Ev1.ok
     THEN /\ st' = Upd(Ev1.sid, [s EXCEPT !.models = Append(s.models, Ev1.mid), !.mdefs = Append(s.mdefs, Ev1.model)])
          /\ Judge(IF ~ValidModelBasic(Ev1.model) THEN "BAD_MODEL_ACCEPTED_INVALID"
                   ELSE IF \A i \in DOMAIN s.models : s.models[i] < Ev1.mid THEN "OK_MODEL" ELSE "BAD_MODEL_ID_NOT_INCREASING", "")
     ELSE UNCHANGED st /\ Judge("OK_MODEL_REJECT", "")

\* ReadAuthorizationModel returns the model unchanged (C17): compared up to the order
\* of types, relations, restrictions and condition parameters
NormModel(m) ==
  [types |-> SeqToSet(m.types),
   rels  |-> {[t |-> e.t, r |-> e.r, rw |-> e.rw, restr |-> SeqToSet(e.restr)] : e \in SeqToSet(m.rels)},
   conds |-> {[name |-> c.name, params |-> SeqToSet(c.params), cel |-> c.cel] : c \in SeqToSet(m.conds)}]
TrReadModel ==
  /\ IsEvent("ReadModel")
  /\ LET s == st[Ev1.sid]
         idx == {i \in DOMAIN s.models : s.models[i] = Ev1.mid}
     IN Judge(IF ~Ev1.found THEN (IF idx = {} THEN "OK_GONE" ELSE "BAD_MODEL_LOST")
              ELSE IF idx = {} THEN "BAD_MODEL_UNKNOWN"
              ELSE IF NormModel(Ev1.model) = NormModel(s.mdefs[CHOOSE i \in idx : TRUE]) THEN "OK_MODEL" ELSE "BAD_MODEL_CHANGED", "")
  /\ UNCHANGED st

\* A request without model id is evaluated with the latest model of the store (C17):
\* the resolved id is the newest one and the answer is the reference value under it.
TupleSetOf(T) == {[o |-> k.o, r |-> k.r, u |-> k.u, c |-> T[k].c, cctx |-> T[k].cctx] : k \in DOMAIN T}
TrModelessCheck ==
  /\ IsEvent("ModelessCheck")
  /\ LET s == st[Ev1.sid]
         ref == Holds(LatestModel(Ev1.sid), TupleSetOf(s.T), Ev1.ctx, Ev1.o, Ev1.r, Ev1.u)
     IN Judge(IF Len(s.models) = 0 THEN "BAD_EVENT"
              ELSE IF Ev1.mid # s.models[Len(s.models)] THEN "BAD_NOT_LATEST_MODEL"
              ELSE IF (Ev1.got = "T" /\ ref = "T") \/ (Ev1.got = "F" /\ ref = "F") THEN "OK_CHECK"
              ELSE "BAD_MODELESS_ANSWER", ref)
  /\ UNCHANGED st

\* ReadAuthorizationModels walk: newest first, every model exactly once (C14, C17)
TrReadModels ==
  /\ IsEvent("ReadModels")
  /\ Judge(IF PagesOK(Ev1.pages, Reverse(st[Ev1.sid].models), Ev1.size) THEN "OK_WALK" ELSE "BAD_WALK_MODELS",
           ToString(st[Ev1.sid].models))
  /\ UNCHANGED st

\* a model-less request was evaluated with this model id (C17)
TrUsedModel ==
  /\ IsEvent("UsedModel")
  /\ LET s == st[Ev1.sid] IN
     Judge(IF Len(s.models) > 0 /\ Ev1.mid = s.models[Len(s.models)] THEN "OK_CHECK" ELSE "BAD_NOT_LATEST_MODEL", ToString(s.models))
  /\ UNCHANGED st

---------------------------------------------------------------------------
\* Write (C12, C18).  ev.fault = "" for an undisturbed write; "fail" / "crash" when a
\* failure or a process kill was injected at statement boundary ev.at.
ExpectedOutcome(s, ev) ==
  LET M == LatestModel(ev.sid) req == ReqOf(ev) IN
  IF \E i \in DOMAIN ev.wrs : ~TupleWritable(M, ev.wrs[i]) THEN "invalid_tuple"
  ELSE IF \E i \in DOMAIN ev.dels : ~DeleteOK(M, ev.dels[i]) THEN "invalid_delete"
  ELSE WriteOutcome(s.T, req)

TrWrite ==
  /\ IsEvent("Write")
  /\ LET s == st[Ev1.sid]
         req == ReqOf(Ev1)
         exp == ExpectedOutcome(s, Ev1)
         post == [s EXCEPT !.T = ApplyWrite(s.T, req), !.pend = [k |-> "write", pre |-> s.T, req |-> req], !.alt = NoPend]
     IN
     IF Ev1.fault = ""
     THEN IF Ev1.got = "ok"
          THEN /\ Judge(IF exp = "ok" THEN "OK_WRITE" ELSE "BAD_WRITE_ACCEPTED", exp)
               /\ st' = Upd(Ev1.sid, IF exp = "ok" THEN post
                                      ELSE [s EXCEPT !.pend = [k |-> "resync"]])
          ELSE /\ Judge(IF exp # "ok" THEN "OK_REJECT" ELSE "BAD_WRITE_REJECTED", exp)
               /\ st' = Upd(Ev1.sid, [s EXCEPT !.pend = IF exp # "ok" THEN s.pend ELSE [k |-> "resync"]])
     ELSE \* a fault hit the write: all or nothing; a reported success means all
          /\ Judge(IF exp # "ok" /\ Ev1.got = "ok" THEN "BAD_WRITE_ACCEPTED" ELSE "OK_FAULT", exp)
          /\ st' = Upd(Ev1.sid,
                IF exp # "ok" THEN (IF Ev1.got = "ok" THEN [s EXCEPT !.pend = [k |-> "resync"]] ELSE s)
                ELSE IF Ev1.got = "ok" THEN post
                ELSE [s EXCEPT !.alt = [k |-> "write", pre |-> s.T, req |-> req]])

\* the changes of a dump are the confirmed log followed by the entries of the pending write
LogMatches(s, changes, pend) ==
  /\ Len(changes) >= Len(s.log)
  /\ SubSeq(changes, 1, Len(s.log)) = s.log
  /\ LET rest == SubSeq(changes, Len(s.log) + 1, Len(changes)) IN
     IF pend.k = "write" THEN IsLogSuffixFor(pend.pre, pend.req, rest) ELSE rest = <<>>

DumpT(ev) == [k \in {KeyOf(ev.tuples[i]) : i \in DOMAIN ev.tuples} |->
                CondOf(CHOOSE t \in SeqSet(ev.tuples) : KeyOf(t) = k)]
DumpLog(ev) == [i \in DOMAIN ev.changes |->
                  [op |-> ev.changes[i].op, key |-> KeyOf(ev.changes[i].t),
                   cond |-> IF ev.changes[i].op = "write" THEN CondOf(ev.changes[i].t) ELSE [c |-> "", cctx |-> <<>>]]]

\* Dump: the store as observed through Read + ReadChanges (C12 atomicity, C15, C16)
TrDump ==
  /\ IsEvent("Dump")
  /\ LET s == st[Ev1.sid]
         T == DumpT(Ev1)
         lg == DumpLog(Ev1)
         nodup == Len(Ev1.tuples) = Cardinality(DOMAIN T)
         faithful == FoldLog(lg, EmptyT) = T /\ LogEffective(lg, EmptyT)
         main == nodup /\ T = s.T /\ LogMatches(s, lg, s.pend) /\ faithful
         \* the other permitted outcome of a faulted write: it was applied completely
         altok == /\ s.alt.k = "write" /\ nodup /\ faithful
                  /\ T = ApplyWrite(s.alt.pre, s.alt.req)
                  /\ LogMatches(s, lg, s.alt)
         cls == IF s.pend.k = "resync" THEN (IF nodup /\ faithful THEN "OK_DUMP" ELSE "BAD_DUMP_UNFAITHFUL")
                ELSE IF main THEN "OK_DUMP"
                ELSE IF altok THEN "OK_DUMP_ALT"
                ELSE IF ~faithful THEN "BAD_DUMP_UNFAITHFUL"
                ELSE IF s.alt.k = "write" THEN "BAD_NOT_ATOMIC"
                ELSE "BAD_DUMP_STATE"
     IN /\ Judge(cls, "")
        /\ st' = Upd(Ev1.sid, [s EXCEPT !.T = T, !.log = lg, !.pend = NoPend, !.alt = NoPend])

---------------------------------------------------------------------------
\* Pagination walks over one store (C14).  "Read": unordered, "ReadChanges": commit
\* order, optionally filtered by object type; desc = exact reverse.
TrWalk ==
  /\ IsEvent("Walk")
  /\ LET s == st[Ev1.sid]
         cls == CASE Ev1.api = "Read" ->
                       IF PagesOKUnordered([i \in DOMAIN Ev1.pages |-> [j \in DOMAIN Ev1.pages[i] |-> KeyOf(Ev1.pages[i][j])]],
                                           DOMAIN s.T, Ev1.size)
                       THEN "OK_WALK" ELSE "BAD_WALK_READ"
                  [] Ev1.api = "ReadChanges" ->
                       LET want == SelectSeq(s.log, LAMBDA e : Ev1.type = "" \/ e.key.o.t = Ev1.type)
                           got == [i \in DOMAIN Ev1.pages |-> [j \in DOMAIN Ev1.pages[i] |->
                                     [op |-> Ev1.pages[i][j].op, key |-> KeyOf(Ev1.pages[i][j].t)]]]
                           wantk == [i \in DOMAIN want |-> [op |-> want[i].op, key |-> want[i].key]]
                       IN IF PagesOK(got, IF Ev1.desc THEN Reverse(wantk) ELSE wantk, Ev1.size) THEN "OK_WALK" ELSE "BAD_WALK_CHANGES"
                  [] OTHER -> "BAD_EVENT"
     IN Judge(cls, "")
  /\ UNCHANGED st

\* a tampered or foreign continuation token must be rejected, never misread (C14)
TrToken ==
  /\ IsEvent("Token")
  /\ Judge(IF ~Ev1.accepted THEN "OK_TOKEN"
           \* the SQL backends use the bare id as ListStores / ReadAuthorizationModels position:
           \* any decodable string is taken as a position (known finding KF-7)
           ELSE IF Ev1.backend = "sqlite" /\ Ev1.malformed /\ Ev1.api \in {"ListStores", "ReadAuthorizationModels"}
                THEN "KF_SqlBareIdTokenMisread"
           ELSE "BAD_TOKEN_ACCEPTED", Ev1.kind)
  /\ UNCHANGED st

---------------------------------------------------------------------------
\* Assertions (C31): ReadAssertions returns exactly the last list written for
\* (store, model); a pair never written returns the empty list.
TrWriteAssertions ==
  /\ IsEvent("WriteAssertions")
  /\ LET s == st[Ev1.sid] IN
     IF Ev1.ok
     THEN st' = Upd(Ev1.sid, [s EXCEPT !.asserts = [m \in DOMAIN s.asserts \cup {Ev1.mid} |->
                                                       IF m = Ev1.mid THEN Ev1.items ELSE s.asserts[m]]])
     ELSE UNCHANGED st
  /\ NoJudge
TrReadAssertions ==
  /\ IsEvent("ReadAssertions")
  /\ LET s == st[Ev1.sid]
         want == IF Ev1.mid \in DOMAIN s.asserts THEN s.asserts[Ev1.mid] ELSE <<>>
     IN Judge(IF Ev1.got = want THEN "OK_ASSERT" ELSE "BAD_ASSERTIONS", "")
  /\ UNCHANGED st

---------------------------------------------------------------------------
TrEnd ==
  /\ IsEvent("End")
  /\ PrintT(<<"VERIF", "END", ToJson([l |-> l, judged |-> judged, skipped |-> 0, bad |-> bad, counts |-> counts])>>)
  /\ UNCHANGED <<st, bad, counts, judged>>

Next == \/ TrReset \/ TrCreateStore \/ TrDeleteStore \/ TrListStores \/ TrGetStore \/ TrWriteModel \/ TrReadModels
        \/ TrReadModel \/ TrModelessCheck
        \/ TrUsedModel \/ TrWrite \/ TrDump \/ TrWalk \/ TrToken \/ TrWriteAssertions \/ TrReadAssertions \/ TrEnd

Spec == Init /\ [][Next]_vars
TraceAccepted == TLCGet("stats").diameter - 1 = Len(Trace)
=============================================================================
