SPECIFICATION Spec
POSTCONDITION TraceAccepted
CHECK_DEADLOCK FALSE
