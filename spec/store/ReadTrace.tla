------------------------------ MODULE ReadTrace ------------------------------
(***************************************************************************)
(* C13: every storage backend implements the documented meaning of the     *)
(* tuple read operations.  The state is the set of stored tuples (the      *)
(* result of a write history applied to all backends alike); each Read     *)
(* line is one read call issued against one backend with its filter and    *)
(* the tuples it returned.  The documented meaning of each filter is       *)
(* written below as a set comprehension; a backend's answer is compared    *)
(* with it as a multiset (no duplicates), including condition name and     *)
(* context of every returned tuple.                                        *)
(*                                                                         *)
(* filter encoding:  obj = [t, id] ("" = unspecified); user = [t, id, rel];*)
(*   conds = sequence of condition names ("" = unconditioned), empty = no  *)
(*   filter; restr = sequence of [t, rel, wc]; users = sequence of         *)
(*   [t, id, rel]; oids = [present, ids]                                   *)
(***************************************************************************)
EXTENDS Integers, Sequences, FiniteSets, TLC, Json

Trace == ndJsonDeserialize("trace.ndjson")
VARIABLES l, state, idorder, bad, counts, judged
vars == <<l, state, idorder, bad, counts, judged>>
Ev1 == Trace[l]
IsEvent(e) == l <= Len(Trace) /\ Trace[l].e = e /\ l' = l + 1
Bump(c, cls) == [x \in DOMAIN c \cup {cls} |-> IF x = cls THEN (IF x \in DOMAIN c THEN c[x] ELSE 0) + 1 ELSE c[x]]
SeqToSet(s) == {s[i] : i \in DOMAIN s}
Init == l = 1 /\ state = {} /\ idorder = <<>> /\ bad = <<>> /\ counts = [x \in {"OK"} |-> 0] /\ judged = 0

IsUsersetUser(u) == u.rel # "" \/ u.id = "*"      \* a userset or a typed wildcard

ObjMatch(f, o)  == (f.t = "" \/ f.t = o.t) /\ (f.id = "" \/ f.id = o.id)
\* a user filter names a type ("user:"), or one subject exactly
UserMatch(f, u) == f.t = "" \/ (IF f.id = "" THEN f.t = u.t ELSE f = u)
CondMatch(cs, t) == cs = <<>> \/ t.c \in SeqToSet(cs)

ReadSet(S, f) == {t \in S : ObjMatch(f.obj, t.o) /\ (f.rel = "" \/ f.rel = t.r) /\ UserMatch(f.user, t.u) /\ CondMatch(f.conds, t)}

RestrMatch(x, u) == x.t = u.t /\ ((x.wc /\ u.id = "*" /\ u.rel = "") \/ (~x.wc /\ x.rel # "" /\ u.rel = x.rel /\ u.id # "*"))
UsersetSet(S, f) == {t \in S : /\ ObjMatch(f.obj, t.o) /\ (f.rel = "" \/ f.rel = t.r) /\ IsUsersetUser(t.u)
                                /\ (f.restr = <<>> \/ \E x \in SeqToSet(f.restr) : RestrMatch(x, t.u))
                                /\ CondMatch(f.conds, t)}

StartingWithUserSet(S, f) == {t \in S : /\ t.o.t = f.obj.t /\ t.r = f.rel
                                       /\ t.u \in SeqToSet(f.users)
                                       /\ (f.oids.present => t.o.id \in SeqToSet(f.oids.ids))
                                       /\ CondMatch(f.conds, t)}

Want(S, ev) ==
  CASE ev.op \in {"Read", "ReadPage"} -> ReadSet(S, ev.f)
    [] ev.op = "ReadUserTuple" -> ReadSet(S, ev.f)                \* exact key: at most one tuple
    [] ev.op = "ReadUsersetTuples" -> UsersetSet(S, ev.f)
    [] ev.op = "ReadStartingWithUser" -> StartingWithUserSet(S, ev.f)

Key(t) == <<t.o, t.r, t.u>>
\* TLC has no order on strings: the State line lists the universe's object ids in ascending (byte) order
Rank(id) == CHOOSE i \in DOMAIN idorder : idorder[i] = id
SortedByObject(s) == \A i \in 1..(Len(s) - 1) : Rank(s[i].o.id) <= Rank(s[i + 1].o.id)

\* ---- known-finding call sites (see known_findings.json)
\* sqlite reads a subject given without a relation as "any relation of that object"
SqlUserWithoutRelation(ev, extra) ==
  /\ ev.backend = "sqlite"
  /\ \/ ev.op \in {"Read", "ReadPage"} /\ ev.f.user.id # "" /\ ev.f.user.rel = "" /\ \A t \in extra : t.u.t = ev.f.user.t /\ t.u.id = ev.f.user.id /\ t.u.rel # ""
     \/ ev.op = "ReadStartingWithUser" /\ \A t \in extra : \E x \in SeqToSet(ev.f.users) : x.rel = "" /\ t.u.t = x.t /\ t.u.id = x.id /\ t.u.rel # ""
\* sqlite treats a present but empty object-id set as "no restriction" (KF-11)
SqlEmptyObjectIDs(ev) == ev.backend = "sqlite" /\ ev.op = "ReadStartingWithUser" /\ ev.f.oids.present /\ ev.f.oids.ids = <<>>

Class(S, ev) ==
  LET want == Want(S, ev)
      got  == SeqToSet(ev.got)
      gotK == {Key(t) : t \in got}
      extra == {t \in got : Key(t) \notin {Key(w) : w \in want}}
      missing == {w \in want : Key(w) \notin gotK}
  IN IF ev.op = "ReadUserTuple" THEN
          (IF want = {} THEN (IF ev.err = "notfound" /\ ev.got = <<>> THEN "OK_READ_NOTFOUND" ELSE "BAD_READ_EXTRA")
           ELSE IF ev.err # "" THEN "BAD_READ_MISSING"
           ELSE IF Len(ev.got) = 1 /\ ev.got[1] \in want THEN "OK_READ" ELSE "BAD_READ_WRONG_TUPLE")
     ELSE IF ev.err # "" THEN "BAD_READ_ERROR"
     ELSE IF extra # {} THEN
          (IF SqlEmptyObjectIDs(ev) THEN "KF_RswuEmptyObjectIDsKey"
           ELSE IF SqlUserWithoutRelation(ev, extra) THEN "KF_SqlUserWithoutRelation" ELSE "BAD_READ_EXTRA")
     ELSE IF missing # {} THEN "BAD_READ_MISSING"
     ELSE IF Len(ev.got) # Cardinality(gotK) THEN "BAD_READ_DUPLICATE"
     ELSE IF got # want THEN "BAD_READ_CONDITION_CHANGED"       \* same keys, different condition name / context
     ELSE IF ev.op = "ReadStartingWithUser" /\ ev.sorted /\ ~SortedByObject(ev.got) THEN "BAD_READ_ORDER"
     ELSE "OK_READ"

OKs == {"OK_READ", "OK_READ_NOTFOUND"}
TrState ==
  /\ IsEvent("State") /\ state' = SeqToSet(Ev1.tuples) /\ idorder' = Ev1.idorder /\ UNCHANGED <<bad, counts, judged>>
TrRead ==
  /\ IsEvent("Read")
  /\ LET c == Class(state, Ev1) IN
     /\ counts' = Bump(counts, c) /\ judged' = judged + 1
     /\ bad' = IF c \in OKs THEN bad ELSE Append(bad, [l |-> l, cls |-> c, ref |-> ToString(Want(state, Ev1)), note |-> Ev1.backend])
  /\ UNCHANGED <<state, idorder>>
TrEnd ==
  /\ IsEvent("End")
  /\ PrintT(<<"VERIF", "END", ToJson([l |-> l, judged |-> judged, skipped |-> 0, bad |-> bad, counts |-> counts])>>)
  /\ UNCHANGED <<state, idorder, bad, counts, judged>>
Spec == Init /\ [][TrState \/ TrRead \/ TrEnd]_vars
TraceAccepted == TLCGet("stats").diameter - 1 = Len(Trace)
=============================================================================
