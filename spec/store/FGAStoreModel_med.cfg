SPECIFICATION Spec
CONSTANTS
  Keys = {k1, k2, k3}
  Conds = {"none", "c1"}
  MaxLog = 3
CONSTRAINT Bounded
INVARIANTS TypeOK LogFaithful PagesCover
PROPERTIES Atomic AppendOnly
CHECK_DEADLOCK FALSE
