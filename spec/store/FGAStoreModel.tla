----------------------------- MODULE FGAStoreModel -----------------------------
(***************************************************************************)
(* Design-level model of one store's tuple table and changelog, checked    *)
(* exhaustively with small constants: the in-memory backend (one atomic    *)
(* step) and the SQL backend (Begin / SelectExisting / decide / stage /    *)
(* Commit with an abort - failed statement, lost connection, killed        *)
(* process - possible before Commit).  Operators come from FGAStoreOps,    *)
(* the same definitions the trace spec StoreTrace judges the real code by. *)
(***************************************************************************)
EXTENDS FGAStoreOps

CONSTANTS Keys,      \* tuple keys (object#relation@user) of the small universe
          Conds,     \* condition variants a tuple may carry (must contain "none")
          MaxLog     \* bound on the changelog length explored

ASSUME "none" \in Conds

---------------------------------------------------------------------------
(* Design-level model *)
VARIABLES tuples,   \* key -> cond
          log,      \* changelog
          tx        \* in-flight SQL write transaction or NoTx

vars == <<tuples, log, tx>>

NoTx == [phase |-> "none"]

KeySeqs(n) == UNION {[1..k -> Keys] : k \in 0..n}
WrSeqs(n)  == UNION {[1..k -> [key : Keys, cond : Conds]] : k \in 0..n}
Requests   == [dels : KeySeqs(2), wrs : WrSeqs(2), onDup : {"error", "ignore"}, onMiss : {"error", "ignore"}]

Init == tuples = EmptyT /\ log = <<>> /\ tx = NoTx

\* the in-memory backend: one atomic step
MemWrite(req) ==
  /\ tx = NoTx
  /\ IF WriteOutcome(tuples, req) = "ok"
     THEN /\ tuples' = ApplyWrite(tuples, req)
          /\ \E suffix \in LogSuffixes(tuples, req) : log' = log \o suffix
     ELSE UNCHANGED <<tuples, log>>
  /\ tx' = tx

\* The SQL backend: Begin -> SelectExisting -> (decision) -> Delete* -> Insert* -> InsertLog* -> Commit,
\* all inside one transaction whose effects become visible at Commit only.
TxBegin(req) == tx = NoTx /\ tx' = [phase |-> "begun", req |-> req, seen |-> EmptyT, sd |-> {}, sw |-> <<>>, sl |-> <<>>] /\ UNCHANGED <<tuples, log>>
TxSelect == tx.phase = "begun" /\ tx' = [tx EXCEPT !.phase = "selected", !.seen = tuples] /\ UNCHANGED <<tuples, log>>
TxDecide ==
  /\ tx.phase = "selected"
  /\ IF WriteOutcome(tx.seen, tx.req) = "ok"
     THEN tx' = [tx EXCEPT !.phase = "staging", !.sd = EffDels(tx.seen, tx.req), !.sw = EffWrs(tx.seen, tx.req)]
     ELSE tx' = NoTx     \* rollback
  /\ UNCHANGED <<tuples, log>>
TxStageLog ==
  /\ tx.phase = "staging"
  /\ \E suffix \in LogSuffixes(tx.seen, tx.req) :
       tx' = [tx EXCEPT !.phase = "logged", !.sl = suffix]
  /\ UNCHANGED <<tuples, log>>
TxCommit ==
  /\ tx.phase = "logged"
  /\ tx.seen = tuples            \* serialisable: no concurrent committed change to the rows read (else the commit fails)
  /\ tuples' = ApplyWrite(tuples, tx.req)
  /\ log' = log \o tx.sl
  /\ tx' = NoTx
\* a failed statement, a lost connection or a killed process at any point before Commit
TxAbort == tx.phase # "none" /\ tx' = NoTx /\ UNCHANGED <<tuples, log>>

Next ==
  \/ \E req \in Requests : MemWrite(req) \/ TxBegin(req)
  \/ TxSelect \/ TxDecide \/ TxStageLog \/ TxCommit \/ TxAbort

Spec == Init /\ [][Next]_vars

Bounded == Len(log) <= MaxLog

---------------------------------------------------------------------------
\* Properties

TypeOK == /\ DOMAIN tuples \subseteq Keys /\ \A k \in DOMAIN tuples : tuples[k] \in Conds

\* C15: replaying the changelog reproduces the store, every entry is effective
LogFaithful == FoldLog(log, EmptyT) = tuples /\ LogEffective(log, EmptyT)

\* C12: every step either leaves <<tuples, log>> alone or applies one whole request
Atomic == [][ \/ UNCHANGED <<tuples, log>>
              \/ \E req \in Requests :
                   /\ WriteOutcome(tuples, req) = "ok"
                   /\ tuples' = ApplyWrite(tuples, req)
                   /\ Len(log') >= Len(log) /\ SubSeq(log', 1, Len(log)) = log
                   /\ IsLogSuffixFor(tuples, req, SubSeq(log', Len(log) + 1, Len(log'))) ]_vars

\* C15: append only
AppendOnly == [][Len(log') >= Len(log) /\ SubSeq(log', 1, Len(log)) = log]_vars

\* C14: cutting the changelog / the tuple set into pages of any size and following
\* them visits everything exactly once; descending is the exact reverse
PagesCover ==
  \A n \in 1..(Len(log) + 1) :
     /\ PagesOK(Cut(log, n), log, n)
     /\ Flatten(Cut(Reverse(log), n)) = Reverse(Flatten(Cut(log, n)))
=============================================================================
