SPECIFICATION Spec
CONSTANTS
  Keys = {k1, k2}
  Conds = {"none", "c1"}
  MaxLog = 4
CONSTRAINT Bounded
INVARIANTS TypeOK LogFaithful PagesCover
PROPERTIES Atomic AppendOnly
CHECK_DEADLOCK FALSE
