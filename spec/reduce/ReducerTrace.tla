---------------------------- MODULE ReducerTrace ----------------------------
(***************************************************************************)
(* Conformance of the real reducers to ReducerOps.  The driver runs the    *)
(* real LocalChecker on a model whose operands / fan-out children are      *)
(* answered by a scripted resolver: child i reports out[i] and the children*)
(* complete in the order ord.  One line per run:                           *)
(*   Reduce(kind, out, ord, dec, cyc, tries)                               *)
(* dec/cyc = what Check reported (allowed / not allowed / failed and the   *)
(* CycleDetected flag of the result).                                      *)
(***************************************************************************)
EXTENDS ReducerOps, Json

Trace == ndJsonDeserialize("trace.ndjson")
VARIABLES l, bad, counts, judged
vars == <<l, bad, counts, judged>>
Ev1 == Trace[l]
IsEvent(e) == l <= Len(Trace) /\ Trace[l].e = e /\ l' = l + 1
Bump(c, cls) == [x \in DOMAIN c \cup {cls} |-> IF x = cls THEN (IF x \in DOMAIN c THEN c[x] ELSE 0) + 1 ELSE c[x]]
Init == l = 1 /\ bad = <<>> /\ counts = [x \in {"OK"} |-> 0] /\ judged = 0

TrReduce ==
  /\ IsEvent("Reduce")
  /\ LET want == ResOf(Ev1.kind, Ev1.out, Ev1.ord)
         c == IF Ev1.dec # want.dec THEN "BAD_REDUCE_RESULT"
              ELSE IF Ev1.cyc # want.cyc THEN
                     (IF want.cyc THEN "BAD_REDUCE_CYCLE_FLAG_LOST" ELSE "BAD_REDUCE_CYCLE_FLAG_SPURIOUS")
              ELSE IF Definitive(want) THEN "OK_REDUCE_DEFINITIVE" ELSE "OK_REDUCE_PATH_DEPENDENT"
     IN /\ counts' = Bump(counts, c) /\ judged' = judged + 1
        /\ bad' = IF c \in {"OK_REDUCE_DEFINITIVE", "OK_REDUCE_PATH_DEPENDENT"} THEN bad
                  ELSE Append(bad, [l |-> l, cls |-> c, ref |-> ToString(want), note |-> Ev1.kind])
TrEnd ==
  /\ IsEvent("End")
  /\ PrintT(<<"VERIF", "END", ToJson([l |-> l, judged |-> judged, skipped |-> 0, bad |-> bad, counts |-> counts])>>)
  /\ UNCHANGED <<bad, counts, judged>>
Spec == Init /\ [][TrReduce \/ TrEnd]_vars
TraceAccepted == TLCGet("stats").diameter - 1 = Len(Trace)
=============================================================================
