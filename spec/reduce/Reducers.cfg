SPECIFICATION Spec
CONSTANTS N = 3
          LastWins = FALSE
INVARIANTS TypeOK Sound FoldAgrees Complete
CHECK_DEADLOCK FALSE
