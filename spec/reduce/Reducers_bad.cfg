SPECIFICATION Spec
CONSTANTS N = 3
          LastWins = TRUE
INVARIANTS Sound
CHECK_DEADLOCK FALSE
