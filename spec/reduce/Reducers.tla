------------------------------ MODULE Reducers ------------------------------
(***************************************************************************)
(* Transition system over ReducerOps: children complete in any order, one  *)
(* Consume action per outcome taken from the outcome channel.  Checked     *)
(* exhaustively by TLC for up to N children and every outcome vector.      *)
(***************************************************************************)
EXTENDS ReducerOps
CONSTANT N          \* greatest number of children

---------------------------------------------------------------------------
VARIABLES kind, out, done, acc
vars == <<kind, out, done, acc>>

Init == /\ kind \in Kinds
        /\ \E n \in 1..N : /\ (kind = "excl" => n = 2) /\ (kind = "inter" => n >= 2)
                           /\ out \in [1..n -> Outcomes]
        /\ done = <<>> /\ acc = Acc0

Consume(c) == /\ acc.dec = "none" /\ c \in DOMAIN out /\ \A i \in DOMAIN done : done[i] # c
              /\ acc' = Step(kind, acc, c, out[c]) /\ done' = Append(done, c)
              /\ UNCHANGED <<kind, out>>
Next == \E c \in DOMAIN out : Consume(c)
Spec == Init /\ [][Next]_vars

Finished == acc.dec # "none" \/ Len(done) = Cardinality(DOMAIN out)
Result == Final(kind, acc)

TypeOK == kind \in Kinds /\ acc.dec \in {"none", "T", "F"} /\ Len(done) <= Cardinality(DOMAIN out)
\* a definitive result is the Kleene value - whatever the completion order was
Sound == Finished /\ Definitive(Result) => Result.dec = Kleene(kind, out)
\* the step-by-step machine and the fold agree (the trace specification uses the fold)
FoldAgrees == Finished => Result = ResOf(kind, out, done)
\* a determined operator with every child consumed and none failed is answered definitively
Complete == (Len(done) = Cardinality(DOMAIN out) /\ acc.dec = "none" /\ ~acc.err /\ Kleene(kind, out) # "U") => Definitive(Result)
=============================================================================
