SPECIFICATION Spec
CONSTANTS LastWins = FALSE
POSTCONDITION TraceAccepted
CHECK_DEADLOCK FALSE
