----------------------------- MODULE ReducerOps -----------------------------
(***************************************************************************)
(* The result reducers of the default Check engine (internal/graph):       *)
(* union, intersection, exclusion over rewrite operands, and the fan-out   *)
(* over the usersets / tupleset parents of one relation                    *)
(* (consumeDispatches).  Children are evaluated concurrently; the reducer  *)
(* consumes their outcomes in COMPLETION order and may stop early.         *)
(*                                                                         *)
(* A child outcome is  "T"  allowed,  "F"  not allowed,                    *)
(*   "Fc"  not allowed because the evaluation ran into its own path (the   *)
(*         CycleDetected flag: "false on this path", not a fact about the  *)
(*         store),  "E"  failed.                                           *)
(* A reducer result is  [dec |-> "T" | "F" | "E", cyc |-> BOOLEAN].        *)
(* The sub-problem cache (C08) stores a result only when it is definitive: *)
(* dec = "T", or dec = "F" with cyc = FALSE.  The design obligation is     *)
(* `Sound`: a definitive result equals the three-valued (Kleene) value of  *)
(* the operator over the children's outcomes, with "Fc" and "E" unknown -  *)
(* hence it does not depend on the completion order.                       *)
(*                                                                         *)
(* This module holds the operators; Reducers.tla is the transition system  *)
(* (one Consume action per outcome taken from the outcome channel, as in   *)
(* the code's consumer loops), ReducerTrace.tla judges recorded runs.      *)
(***************************************************************************)
EXTENDS Integers, Sequences, FiniteSets, TLC

CONSTANTS LastWins    \* TRUE models the defect "the flag of the last outcome decides" (must violate Sound)

Outcomes == {"T", "F", "Fc", "E"}
Kinds == {"union", "fan", "inter", "excl"}

Acc0 == [dec |-> "none", cyc |-> FALSE, err |-> FALSE]

\* consuming outcome o of child c (exclusion: child 1 = base, child 2 = subtract)
Step(kind, acc, c, o) ==
  IF acc.dec # "none" THEN acc
  ELSE IF kind \in {"union", "fan"} THEN
         (CASE o = "T"  -> [acc EXCEPT !.dec = "T", !.cyc = FALSE]
            [] o = "E"  -> [acc EXCEPT !.err = TRUE]
            [] o = "Fc" -> [acc EXCEPT !.cyc = TRUE]
            [] o = "F"  -> IF LastWins /\ kind = "fan" THEN [acc EXCEPT !.cyc = FALSE] ELSE acc)
  ELSE IF kind = "inter" \/ (kind = "excl" /\ c = 1) THEN     \* intersection operand / exclusion base
         (CASE o = "E"  -> [acc EXCEPT !.err = TRUE]
            [] o = "T"  -> acc
            [] OTHER    -> [acc EXCEPT !.dec = "F", !.cyc = (o = "Fc")])
  ELSE                                                         \* exclusion subtract
         (CASE o = "E" -> [acc EXCEPT !.err = TRUE]
            [] o = "F" -> acc
            [] OTHER   -> [acc EXCEPT !.dec = "F", !.cyc = (o = "Fc")])

\* every child consumed and nothing decided
Final(kind, acc) ==
  IF acc.dec # "none" THEN [dec |-> acc.dec, cyc |-> acc.cyc]
  ELSE IF acc.err THEN [dec |-> "E", cyc |-> FALSE]
  ELSE IF kind \in {"union", "fan"} THEN [dec |-> "F", cyc |-> acc.cyc]
  ELSE [dec |-> "T", cyc |-> FALSE]

\* the result for outcomes out (a function child -> outcome) consumed in the order ord (a sequence of children)
RECURSIVE Fold(_, _, _, _)
Fold(kind, acc, out, ord) == IF ord = <<>> THEN acc ELSE Fold(kind, Step(kind, acc, Head(ord), out[Head(ord)]), out, Tail(ord))
ResOf(kind, out, ord) == Final(kind, Fold(kind, Acc0, out, ord))

\* three-valued value of the operator: "U" = not determined by definitive children
Kleene(kind, out) ==
  LET C == DOMAIN out IN
  CASE kind \in {"union", "fan"} -> (IF \E c \in C : out[c] = "T" THEN "T" ELSE IF \A c \in C : out[c] = "F" THEN "F" ELSE "U")
    [] kind = "inter" -> (IF \E c \in C : out[c] = "F" THEN "F" ELSE IF \A c \in C : out[c] = "T" THEN "T" ELSE "U")
    [] kind = "excl"  -> (IF out[1] = "F" \/ out[2] = "T" THEN "F" ELSE IF out[1] = "T" /\ out[2] = "F" THEN "T" ELSE "U")

Definitive(r) == r.dec = "T" \/ (r.dec = "F" /\ ~r.cyc)

=============================================================================
