---------------------------- MODULE CycleGroupMC ----------------------------
(* Configurations of CycleGroup for exhaustive checking. *)
EXTENDS CycleGroup
CONSTANTS a, b, c
\* two members, each feeding the other
M2 == {a, b}
Ring2 == (a :> b) @@ (b :> a)
Std2 == (a :> 1) @@ (b :> 1)
NoStdFrom2 == (a :> {}) @@ (b :> {})
Cyc2 == {<<a, b>>, <<b, a>>, <<a, a>>}
\* three members in a ring with a chord
M3 == {a, b, c}
Ring3 == (a :> c) @@ (c :> b) @@ (b :> a)
Std3 == (a :> 1) @@ (b :> 0) @@ (c :> 1)
Std3b == (a :> 2) @@ (b :> 1) @@ (c :> 1)
NoStdFrom3 == (a :> {}) @@ (b :> {}) @@ (c :> {})
Cyc3 == {<<a, b>>, <<b, c>>, <<c, a>>, <<a, c>>}
\* the same two members with an additional NON-cyclic edge a -> b inside the group
StdFromBad2 == (a :> {}) @@ (b :> {a})
=============================================================================
