----------------------------- MODULE CycleGroup -----------------------------
(***************************************************************************)
(* Teardown protocol of a cycle group in the streaming ListObjects         *)
(* pipeline (internal/listobjects/pipeline: track/reporting.go StatusPool, *)
(* worker/cycle.go Membership, worker/basic.go Execute, pipeline.go        *)
(* MsgFunc).                                                               *)
(*                                                                         *)
(* A group is a set of member workers joined in a ring (the last member    *)
(* to join is the leader).  Each member has                                *)
(*   - standard inputs: finitely many messages from outside the cycle      *)
(*     (Std[m]) and, optionally, standard edges from other members of the   *)
(*     same group (StdFrom[m]): a standard input ends when its upstream     *)
(*     closes;                                                              *)
(*   - cyclic edges CycEdges (m -> n): a message put on a cyclic edge       *)
(*     increments the group's in-flight counter before it is queued and     *)
(*     decrements it when the receiver has processed it (Message.Done).     *)
(* Every member starts with one in-flight unit (Join) that it releases in   *)
(* SignalReady, after its standard inputs are exhausted.  The first time    *)
(* the counter reaches zero a one-shot latch (quiescence) fires.  A member  *)
(* then waits until all members reported ready and the latch fired; the     *)
(* leader closes its outputs (Cleanup) and wakes the next member of the     *)
(* ring, which closes its outputs and wakes the next, and so on.  A         *)
(* member's cyclic receivers end when their upstream closed and the queue   *)
(* is drained.                                                              *)
(*                                                                         *)
(* Processing a message may derive new objects and so emit one message on   *)
(* any subset of the member's outgoing cyclic edges; Fuel bounds the total  *)
(* number of emissions (in the code de-duplication makes them finite).      *)
(***************************************************************************)
EXTENDS Integers, FiniteSets, Sequences, TLC, Functions

CONSTANTS Members,     \* set of members
          Ring,        \* Ring[m] = the member m wakes after its own cleanup
          Leader,      \* the member that starts the teardown
          Std,         \* Std[m] = number of external standard-input messages of m
          StdFrom,     \* StdFrom[m] = members of the same group feeding m through a NON-cyclic edge
          CycEdges,    \* set of <<m, n>>: cyclic edge from m to n
          Fuel,
          FailMode     \* "none": processing never fails; "dec": a failing (panicking) message handler still
                       \* releases its message (the deferred Done); "nodec": the release is lost - the defect
                       \* a seeded change introduced; must violate Termination

VARIABLES stdLeft, queue, inflight, latched, reported, allReady, pc, closed, awake, fuel, lost, sentAfterLatch
vars == <<stdLeft, queue, inflight, latched, reported, allReady, pc, closed, awake, fuel, lost, sentAfterLatch>>

Out(m) == {e \in CycEdges : e[1] = m}
In(m)  == {e \in CycEdges : e[2] = m}

Init ==
  /\ stdLeft = Std
  /\ queue = [e \in CycEdges |-> 0]
  /\ inflight = Cardinality(Members)          \* Join: one unit per member
  /\ latched = FALSE
  /\ reported = [m \in Members |-> FALSE]
  /\ allReady = FALSE
  /\ pc = [m \in Members |-> "std"]
  /\ closed = [m \in Members |-> FALSE]
  /\ awake = [m \in Members |-> FALSE]
  /\ fuel = Fuel
  /\ lost = FALSE
  /\ sentAfterLatch = FALSE

\* m emits on the cyclic edges S (Inc before enqueue); a send on a closed output loses the message
Emit(m, S) ==
  /\ Cardinality(S) <= fuel
  /\ fuel' = fuel - Cardinality(S)
  /\ IF closed[m] /\ S # {}
     THEN /\ lost' = TRUE /\ UNCHANGED <<queue, sentAfterLatch>>
     ELSE /\ queue' = [e \in CycEdges |-> IF e \in S THEN queue[e] + 1 ELSE queue[e]]
          /\ sentAfterLatch' = (sentAfterLatch \/ (latched /\ S # {}))
          /\ UNCHANGED lost

Dec(n) == /\ inflight' = n
          /\ latched' = (latched \/ n = 0)

\* a standard-input message is processed (ProcessSender of a non-cyclic edge)
StdConsume(m) ==
  /\ pc[m] = "std" /\ stdLeft[m] > 0
  /\ stdLeft' = [stdLeft EXCEPT ![m] = @ - 1]
  /\ \E S \in SUBSET Out(m) :
       /\ Emit(m, S)
       /\ inflight' = inflight + (IF closed[m] THEN 0 ELSE Cardinality(S))
  /\ UNCHANGED <<latched, reported, allReady, pc, closed, awake>>

\* wgStandard.Wait returns: external inputs exhausted and every intra-group standard upstream closed
StdDone(m) ==
  /\ pc[m] = "std" /\ stdLeft[m] = 0 /\ \A u \in StdFrom[m] : closed[u]
  /\ pc' = [pc EXCEPT ![m] = "report"]
  /\ UNCHANGED <<stdLeft, queue, inflight, latched, reported, allReady, closed, awake, fuel, lost, sentAfterLatch>>

\* SignalReady, first half: Reporter.Report
Report(m) ==
  /\ pc[m] = "report"
  /\ reported' = [reported EXCEPT ![m] = TRUE]
  /\ allReady' = (\A x \in Members : reported'[x])
  /\ pc' = [pc EXCEPT ![m] = "release"]
  /\ UNCHANGED <<stdLeft, queue, inflight, latched, closed, awake, fuel, lost, sentAfterLatch>>

\* SignalReady, second half: Reporter.Dec releases the unit taken in Join
Release(m) ==
  /\ pc[m] = "release"
  /\ Dec(inflight - 1)
  /\ pc' = [pc EXCEPT ![m] = "wait"]
  /\ UNCHANGED <<stdLeft, queue, reported, allReady, closed, awake, fuel, lost, sentAfterLatch>>

\* WaitForAllReady: all reported, then the latch
Proceed(m) ==
  /\ pc[m] = "wait" /\ allReady /\ latched
  /\ pc' = [pc EXCEPT ![m] = IF m = Leader THEN "cleanup" ELSE "sleep"]
  /\ UNCHANGED <<stdLeft, queue, inflight, latched, reported, allReady, closed, awake, fuel, lost, sentAfterLatch>>

Woken(m) ==
  /\ pc[m] = "sleep" /\ awake[m]
  /\ pc' = [pc EXCEPT ![m] = "cleanup"]
  /\ UNCHANGED <<stdLeft, queue, inflight, latched, reported, allReady, closed, awake, fuel, lost, sentAfterLatch>>

\* Cleanup closes the member's outputs; Wake passes the teardown on
Cleanup(m) ==
  /\ pc[m] = "cleanup"
  /\ closed' = [closed EXCEPT ![m] = TRUE]
  /\ pc' = [pc EXCEPT ![m] = "wake"]
  /\ UNCHANGED <<stdLeft, queue, inflight, latched, reported, allReady, awake, fuel, lost, sentAfterLatch>>
Wake(m) ==
  /\ pc[m] = "wake"
  /\ awake' = [awake EXCEPT ![Ring[m]] = TRUE]
  /\ pc' = [pc EXCEPT ![m] = "drain"]
  /\ UNCHANGED <<stdLeft, queue, inflight, latched, reported, allReady, closed, fuel, lost, sentAfterLatch>>

\* a message on a cyclic edge is processed by its receiver (alive until upstream closed and queue empty)
CycConsume(e) ==
  /\ queue[e] > 0 /\ pc[e[2]] # "done"
  /\ \E S \in SUBSET Out(e[2]) :
       /\ Cardinality(S) <= fuel
       /\ fuel' = fuel - Cardinality(S)
       /\ IF closed[e[2]] /\ S # {}
          THEN /\ lost' = TRUE
               /\ queue' = [queue EXCEPT ![e] = @ - 1]
               /\ UNCHANGED sentAfterLatch
               /\ Dec(inflight - 1)
          ELSE /\ queue' = [x \in CycEdges |-> IF x = e THEN queue[x] - 1 + (IF x \in S THEN 1 ELSE 0) ELSE IF x \in S THEN queue[x] + 1 ELSE queue[x]]
               /\ sentAfterLatch' = (sentAfterLatch \/ (latched /\ S # {}))
               /\ UNCHANGED lost
               /\ Dec(inflight + Cardinality(S) - 1)
  /\ UNCHANGED <<stdLeft, reported, allReady, pc, closed, awake>>

\* the handler of a message on a cyclic edge fails (a panic in the storage layer is recovered by the
\* worker and reported as the pipeline's error): nothing is emitted; the message's in-flight unit must
\* still be released or the group can never become quiet
CycFail(e) ==
  /\ FailMode # "none" /\ queue[e] > 0 /\ pc[e[2]] # "done"
  /\ queue' = [queue EXCEPT ![e] = @ - 1]
  /\ IF FailMode = "dec" THEN Dec(inflight - 1) ELSE UNCHANGED <<inflight, latched>>
  /\ UNCHANGED <<stdLeft, reported, allReady, pc, closed, awake, fuel, lost, sentAfterLatch>>

\* wgRecursive.Wait returns: every cyclic upstream closed and drained
Drained(m) ==
  /\ pc[m] = "drain"
  /\ \A e \in In(m) : closed[e[1]] /\ queue[e] = 0
  /\ pc' = [pc EXCEPT ![m] = "done"]
  /\ UNCHANGED <<stdLeft, queue, inflight, latched, reported, allReady, closed, awake, fuel, lost, sentAfterLatch>>

Next == \/ \E m \in Members : StdConsume(m) \/ StdDone(m) \/ Report(m) \/ Release(m) \/ Proceed(m) \/ Woken(m) \/ Cleanup(m) \/ Wake(m) \/ Drained(m)
        \/ \E e \in CycEdges : CycConsume(e) \/ CycFail(e)
Spec == Init /\ [][Next]_vars /\ WF_vars(Next)

----------------------------------------------------------------------------
Quiet == /\ \A m \in Members : stdLeft[m] = 0
         /\ \A e \in CycEdges : queue[e] = 0
\* the counter is exactly the units not yet released plus the messages in flight
Accounting == inflight = Cardinality({m \in Members : pc[m] \in {"std", "report", "release"}}) + FoldFunction(LAMBDA x, y : x + y, 0, queue)
\* a group is torn down only after all its non-cyclic inputs are exhausted and no cyclic message is in flight
TeardownOnlyWhenQuiet == \A m \in Members : closed[m] => Quiet
LatchOnlyWhenQuiet == latched => (Quiet /\ \A m \in Members : pc[m] \notin {"std", "report", "release"})
NoWorkLost == ~lost /\ ~sentAfterLatch
\* teardown follows the ring from the leader
OrderedTeardown == \A m \in Members : (closed[m] /\ m # Leader) => awake[m]
\* teardown always completes
AllDone == \A m \in Members : pc[m] = "done"
Termination == <>AllDone
=============================================================================
