SPECIFICATION Spec
CONSTANTS
  a = a
  b = b
  c = c
  Members <- M3
  Ring <- Ring3
  Leader = b
  Std <- Std3b
  StdFrom <- NoStdFrom3
  CycEdges <- Cyc3
  FailMode = "none"
  Fuel = 5
INVARIANTS Accounting TeardownOnlyWhenQuiet LatchOnlyWhenQuiet NoWorkLost OrderedTeardown
PROPERTIES Termination
CHECK_DEADLOCK FALSE
