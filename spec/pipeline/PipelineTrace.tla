--------------------------- MODULE PipelineTrace ---------------------------
(***************************************************************************)
(* Validation of event traces recorded from the real ListObjects pipeline  *)
(* (verif build: internal/verifhook events in track/reporting.go,          *)
(* worker/cycle.go, worker/basic.go, worker/core.go, pipeline.go) against  *)
(* the teardown protocol of CycleGroup.tla.                                *)
(*                                                                         *)
(* Lines of one request, in hook order (global sequence number):           *)
(*   Begin                                                                 *)
(*   join(pool, label)        a worker joins the cycle group of that pool  *)
(*   edge(from, to, cyc)      worker "to" feeds worker "from" (cyc: the    *)
(*                            edge is cyclical)                            *)
(*   inc(pool)                logged BEFORE the counter is incremented     *)
(*   dec(pool, v) / latch(pool)  logged AFTER the decrement                *)
(*   ready(label) allready(pool) stddone(label) cleanup(label, leader)     *)
(*   wake(label) drop(label, cyc, cancelled)                               *)
(*   EndReq(hung, cancelled)                                               *)
(* The spec keeps, per pool, the CycleGroup state that the events reveal   *)
(* (members, reported, allReady, latched, closed, awake) and checks each    *)
(* event against the enabling condition of the corresponding action.       *)
(***************************************************************************)
EXTENDS Integers, Sequences, FiniteSets, TLC, Json

Trace == ndJsonDeserialize("trace.ndjson")
VARIABLES l, groupOf, members, edges, reported, allReady, latched, closed, awake, cleanups, flags, bad, counts, judged
vars == <<l, groupOf, members, edges, reported, allReady, latched, closed, awake, cleanups, flags, bad, counts, judged>>
Ev1 == Trace[l]
IsEvent(e) == l <= Len(Trace) /\ Trace[l].e = e /\ l' = l + 1
Bump(c, cls) == [x \in DOMAIN c \cup {cls} |-> IF x = cls THEN (IF x \in DOMAIN c THEN c[x] ELSE 0) + 1 ELSE c[x]]
Upd(f, k, v) == [x \in DOMAIN f \cup {k} |-> IF x = k THEN v ELSE f[x]]
Get(f, k, d) == IF k \in DOMAIN f THEN f[k] ELSE d

Reset == /\ groupOf' = <<>> /\ members' = <<>> /\ edges' = {} /\ reported' = {} /\ allReady' = {} /\ latched' = {}
         /\ closed' = {} /\ awake' = {} /\ cleanups' = <<>> /\ flags' = {}
Init == /\ l = 1 /\ groupOf = <<>> /\ members = <<>> /\ edges = {} /\ reported = {} /\ allReady = {} /\ latched = {}
        /\ closed = {} /\ awake = {} /\ cleanups = <<>> /\ flags = {}
        /\ bad = <<>> /\ counts = [x \in {"OK"} |-> 0] /\ judged = 0

Keep == UNCHANGED <<bad, counts, judged>>
Flag(f) == flags' = flags \cup {f}

TrBegin == IsEvent("Begin") /\ Reset /\ Keep

TrJoin ==
  /\ IsEvent("join")
  /\ groupOf' = Upd(groupOf, Ev1.label, Ev1.pool)
  /\ members' = Upd(members, Ev1.pool, Get(members, Ev1.pool, {}) \cup {Ev1.label})
  /\ UNCHANGED <<edges, reported, allReady, latched, closed, awake, cleanups, flags>> /\ Keep
TrEdge ==
  /\ IsEvent("edge")
  /\ edges' = edges \cup {[from |-> Ev1.from, to |-> Ev1.to, cyc |-> Ev1.cyc]}
  /\ UNCHANGED <<groupOf, members, reported, allReady, latched, closed, awake, cleanups, flags>> /\ Keep

\* CycleGroup!Emit: no message is put on a cyclic edge once the group has reached quiescence
TrInc ==
  /\ IsEvent("inc")
  /\ IF Ev1.pool \in latched THEN Flag("BAD_PIPELINE_INC_AFTER_QUIESCENCE") ELSE UNCHANGED flags
  /\ UNCHANGED <<groupOf, members, edges, reported, allReady, latched, closed, awake, cleanups>> /\ Keep
TrDec ==
  /\ IsEvent("dec")
  /\ IF Ev1.v < 0 THEN Flag("BAD_PIPELINE_NEGATIVE_INFLIGHT") ELSE UNCHANGED flags
  /\ UNCHANGED <<groupOf, members, edges, reported, allReady, latched, closed, awake, cleanups>> /\ Keep
\* CycleGroup!Release reaching zero: every member has reported (its standard inputs are exhausted)
TrLatch ==
  /\ IsEvent("latch")
  /\ latched' = latched \cup {Ev1.pool}
  /\ IF Get(members, Ev1.pool, {}) \subseteq reported THEN UNCHANGED flags ELSE Flag("BAD_PIPELINE_PREMATURE_QUIESCENCE")
  /\ UNCHANGED <<groupOf, members, edges, reported, allReady, closed, awake, cleanups>> /\ Keep
\* CycleGroup!Report
TrReady ==
  /\ IsEvent("ready")
  /\ reported' = reported \cup {Ev1.label}
  /\ UNCHANGED <<groupOf, members, edges, allReady, latched, closed, awake, cleanups, flags>> /\ Keep
TrAllReady ==
  /\ IsEvent("allready")
  /\ allReady' = allReady \cup {Ev1.pool}
  /\ IF Get(members, Ev1.pool, {}) \subseteq reported THEN UNCHANGED flags ELSE Flag("BAD_PIPELINE_READY_TOO_EARLY")
  /\ UNCHANGED <<groupOf, members, edges, reported, latched, closed, awake, cleanups>> /\ Keep
TrStdDone ==
  /\ IsEvent("stddone")
  /\ UNCHANGED <<groupOf, members, edges, reported, allReady, latched, closed, awake, cleanups, flags>> /\ Keep
\* CycleGroup!Proceed / Woken / Cleanup: after all ready and quiescence; the leader first, the others once woken
TrCleanup ==
  /\ IsEvent("cleanup")
  /\ LET g == Get(groupOf, Ev1.label, 0)
         first == ~\E x \in closed : Get(groupOf, x, -1) = g
     IN /\ closed' = closed \cup {Ev1.label}
        /\ cleanups' = Append(cleanups, Ev1.label)
        /\ IF g \notin latched \/ g \notin allReady THEN Flag("BAD_PIPELINE_TEARDOWN_BEFORE_QUIESCENCE")
           ELSE IF Ev1.leader /\ ~first THEN Flag("BAD_PIPELINE_TEARDOWN_ORDER")
           ELSE IF ~Ev1.leader /\ (first \/ Ev1.label \notin awake) THEN Flag("BAD_PIPELINE_TEARDOWN_ORDER")
           ELSE UNCHANGED flags
  /\ UNCHANGED <<groupOf, members, edges, reported, allReady, latched, awake>> /\ Keep
TrWake ==
  /\ IsEvent("wake")
  /\ awake' = awake \cup {Ev1.label}
  /\ UNCHANGED <<groupOf, members, edges, reported, allReady, latched, closed, cleanups, flags>> /\ Keep
\* a message that could not be delivered although the request was not cancelled is lost work
TrDrop ==
  /\ IsEvent("drop")
  /\ IF ~Ev1.cancelled THEN Flag("BAD_PIPELINE_WORK_LOST") ELSE UNCHANGED flags
  /\ UNCHANGED <<groupOf, members, edges, reported, allReady, latched, closed, awake, cleanups>> /\ Keep

\* A standard input of a group member that can only end when another member of the SAME group closes
\* its outputs: a path of non-cyclic edges (possibly through workers outside the group) from one
\* member to another.  This is StdFrom # {} in CycleGroup.tla, the topology for which
\* CycleGroup_bad.cfg shows that teardown cannot complete (known finding KF-6).
StdSucc(S) == {x.from : x \in {x \in edges : ~x.cyc /\ x.to \in S}}      \* data flows to -> from
RECURSIVE StdReach(_, _)
StdReach(frontier, seen) ==
  LET nxt == StdSucc(frontier) \ seen IN
  IF nxt = {} THEN seen ELSE StdReach(nxt, seen \cup nxt)
StdEdgeInsideGroup ==
  \E m \in DOMAIN groupOf :
     \E n \in StdReach({m}, {}) : n # m /\ n \in DOMAIN groupOf /\ groupOf[n] = groupOf[m]
MultiGroups == {g \in DOMAIN members : Cardinality(members[g]) > 1}

TrEndReq ==
  /\ IsEvent("EndReq")
  /\ LET \* a group that started executing (some member reported) must have closed every member
         incomplete == \E g \in DOMAIN members : (members[g] \cap reported # {}) /\ ~(members[g] \subseteq closed)
         cls == IF Ev1.hung THEN (IF StdEdgeInsideGroup THEN "KF_PipelineCycleHang" ELSE "BAD_PIPELINE_HANG")
                ELSE IF flags # {} THEN CHOOSE f \in flags : TRUE
                ELSE IF incomplete /\ ~Ev1.cancelled THEN "BAD_PIPELINE_TEARDOWN_INCOMPLETE"
                ELSE IF MultiGroups # {} THEN "OK_PIPELINE_CYCLE_GROUP" ELSE "OK_PIPELINE"
     IN /\ counts' = Bump(counts, cls) /\ judged' = judged + 1
        /\ bad' = IF cls \in {"OK_PIPELINE_CYCLE_GROUP", "OK_PIPELINE"} THEN bad
                  ELSE Append(bad, [l |-> l, cls |-> cls, ref |-> ToString(flags), note |-> ToString(cleanups)])
  /\ UNCHANGED <<groupOf, members, edges, reported, allReady, latched, closed, awake, cleanups, flags>>

\* failure path (CycleGroup!CycFail): a storage read panicked at read position k of the request.  The
\* worker recovers; the message's in-flight unit is still released, so the pipeline closes, and the
\* failure surfaces as the pipeline's error; what was delivered before is part of the real answer.
TrPanicRun ==
  /\ IsEvent("PanicRun")
  /\ LET c == IF ~Ev1.closed THEN "BAD_PIPELINE_TEARDOWN_BLOCKED_AFTER_PANIC"
              ELSE IF Ev1.fired /\ ~Ev1.err THEN "BAD_PIPELINE_PANIC_SWALLOWED"
              ELSE IF Ev1.extra > 0 THEN "BAD_PIPELINE_RESULT_AFTER_PANIC"
              ELSE IF Ev1.fired THEN "OK_PIPELINE_FAILED_AND_CLOSED" ELSE "OK_PIPELINE_NOT_REACHED"
     IN /\ counts' = Bump(counts, c) /\ judged' = judged + 1
        /\ bad' = IF c \in {"OK_PIPELINE_FAILED_AND_CLOSED", "OK_PIPELINE_NOT_REACHED"} THEN bad
                  ELSE Append(bad, [l |-> l, cls |-> c, ref |-> "", note |-> Ev1.spec])
  /\ UNCHANGED <<groupOf, members, edges, reported, allReady, latched, closed, awake, cleanups, flags>>
TrEnd ==
  /\ IsEvent("End")
  /\ PrintT(<<"VERIF", "END", ToJson([l |-> l, judged |-> judged, skipped |-> 0, bad |-> bad, counts |-> counts])>>)
  /\ UNCHANGED <<groupOf, members, edges, reported, allReady, latched, closed, awake, cleanups, flags, bad, counts, judged>>
Next == TrBegin \/ TrJoin \/ TrEdge \/ TrInc \/ TrDec \/ TrLatch \/ TrReady \/ TrAllReady \/ TrStdDone \/ TrCleanup \/ TrWake \/ TrDrop \/ TrEndReq \/ TrPanicRun \/ TrEnd
Spec == Init /\ [][Next]_vars
TraceAccepted == TLCGet("stats").diameter - 1 = Len(Trace)
=============================================================================
