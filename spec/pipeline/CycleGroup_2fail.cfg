SPECIFICATION Spec
CONSTANTS
  a = a
  b = b
  c = c
  Members <- M2
  Ring <- Ring2
  Leader = b
  Std <- Std2
  StdFrom <- NoStdFrom2
  CycEdges <- Cyc2
  FailMode = "dec"
  Fuel = 3
INVARIANTS Accounting TeardownOnlyWhenQuiet LatchOnlyWhenQuiet NoWorkLost OrderedTeardown
PROPERTIES Termination
CHECK_DEADLOCK FALSE
