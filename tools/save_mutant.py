#!/usr/bin/env python3
"""tools/save_mutant.py <seeded-id> <src mutant dir> <property> <status: caught|missed|...> <needs...>"""
import sys, os, shutil, json, glob
sid, src, prop, status = sys.argv[1:5]
needs = " ".join(sys.argv[5:])
dst = f"/verif/seeded/{sid}"
os.makedirs(dst, exist_ok=True)
shutil.copy(os.path.join(src, "patch.diff"), dst)
for f in glob.glob(os.path.join(src, "demo*")) + glob.glob(os.path.join(src, "README.md")):
    shutil.copy(f, dst)
meta = {"id": sid, "property": prop, "needs_to_manifest": needs, "detected_by_checks": status,
        "confirmed": "tools/confirm_mutant.sh: patch applies and builds; demo fails with the patch and passes without; existing tests of the touched packages pass with the patch (docker-only tests excluded)",
        "source": "independent sub-agent given only the property text and a scratch worktree"}
json.dump(meta, open(os.path.join(dst, "meta.json"), "w"), indent=1)
print("saved", dst)
