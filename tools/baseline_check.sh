#!/bin/bash
# Runs the repository suite (guard OFF) with -json and compares against BASELINE.json stable_pass.
# usage: tools/baseline_check.sh [pkg patterns...]   (default ./...)
export GOFLAGS=-mod=mod GOPROXY=off GOSUMDB=off GOTOOLCHAIN=local
OUT=${BASELINE_OUT:-/var/tmp/baseline-run.json}
cd /repo || exit 2
PK="${@:-./...}"
go1.26 test -json -vet=off -count=1 -timeout 25m $PK > "$OUT" 2>/dev/null
python3 - "$OUT" "$PK" <<'PY'
import json,sys
out=sys.argv[1]
passed=set(); failed=set(); pkgs=set()
for l in open(out, errors='replace'):
    try: e=json.loads(l)
    except Exception: continue
    if e.get('Package'): pkgs.add(e['Package'])
    if e.get('Test') and e.get('Action') in ('pass','fail'):
        k=e['Package']+'::'+e['Test']
        (passed if e['Action']=='pass' else failed).add(k)
base=json.load(open('/root/.vp/BASELINE.json'))['stable_pass']
rel=[t for t in base if t.split('::')[0] in pkgs]
missing=[t for t in rel if t not in passed]
print(f"packages run: {len(pkgs)}; baseline stable_pass in those packages: {len(rel)}; passed now: {len(rel)-len(missing)}; NOT passing: {len(missing)}")
for t in missing[:40]: print("  NOT PASSING:", t, "(failed)" if t in failed else "(not run)")
sys.exit(1 if missing else 0)
PY
