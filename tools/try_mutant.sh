#!/bin/bash
# tools/try_mutant.sh <patch.diff> <prop> [seeds...]  -- applies the patch to a scratch worktree of /repo HEAD,
# runs the property's quick check against it for each seed, removes the worktree. Prints one line per run.
PATCH="$1"; PROP="$2"; shift 2
SEEDS="${@:-1 2 3}"
WT="$(mktemp -d /var/tmp/verif-mut-XXXXXX)"
git -C /repo worktree add -q --detach "$WT/repo" HEAD || exit 2
if ! git -C "$WT/repo" apply "$PATCH"; then echo "PATCH DOES NOT APPLY"; git -C /repo worktree remove --force "$WT/repo"; rm -rf "$WT"; exit 2; fi
for s in $SEEDS; do
  out="$(VERIF_REPO="$WT/repo" VERIF_SEED=$s VERIF_TIER="${TIER:-quick}" /verif/check "$PROP" 2>&1)"; rc=$?
  echo "seed=$s exit=$rc $(echo "$out" | grep -c '^VIOLATION') violations; $(echo "$out" | grep '^VIOLATION\|INCONCLUSIVE' | head -1) $(echo "$out" | grep -A1 '^VIOLATION' | grep detail | head -1 | cut -c1-300)"
done
git -C /repo worktree remove --force "$WT/repo"; rm -rf "$WT"
