#!/usr/bin/env python3
"""Generates /verif/MANIFEST.json from the table below (single source of truth)."""
import json, os, sys
ROOT = os.path.dirname(os.path.dirname(os.path.abspath(__file__)))

CHECKS = {k: tuple(v) for k, v in json.load(open(os.path.join(ROOT, "tools", "checks.json"))).items()}
NOT_APPLICABLE = {
}
PENDING_REASON = "check not built yet in this round (see DESIGN.md §10 build order); will be claimed once its quick and thorough tiers run clean"

def main():
    props = [json.loads(l)["id"] for l in open(os.path.join(ROOT, "properties.jsonl"))]
    checks = []
    for pid in props:
        if pid not in CHECKS: continue
        level, tech, text, note, ref = CHECKS[pid]
        checks.append({
            "property_id": pid,
            "quick_cmd": f"./check {pid} quick",
            "thorough_cmd": f"./check {pid} thorough",
            "evidence_file": f"/verif/evidence/{pid}.json",
            "replay_cmd_template": f"./check {pid} --replay {{path}}",
            "engine": "tlc-trace",
            "level_claimed": {"category": level, "text": text, "design_ref": ref},
            "level_note": note,
            "technique": tech,
        })
    na = []
    for pid in props:
        if pid in CHECKS: continue
        na.append({"property_id": pid, "reason": NOT_APPLICABLE.get(pid, PENDING_REASON)})
    hooks_commits = []
    hc = os.path.join(ROOT, "hooks_commits.txt")
    if os.path.exists(hc):
        hooks_commits = [l.split()[0] for l in open(hc) if l.strip() and not l.startswith("#")]
    m = {
        "version": 1,
        "setup_cmd": "./setup.sh",
        "hooks": {
            "guard": "verif",
            "enable": "go build -tags verif (the ./check script builds the harness and /repo with -tags verif)",
            "baseline_off_cmd": "cd /repo && GOFLAGS=-mod=mod go test -vet=off -count=1 -timeout 25m ./...",
            "source_commits": hooks_commits,
            "add_only": True,
        },
        "engines": [
            {"name": "tlc-trace", "path": "/verif/spec", "serves_properties": [c["property_id"] for c in checks],
             "kind_free_text": "TLA+ specifications checked by TLC: exhaustive design-level configs, trace validation of logs recorded from the real code, and TLC-generated behaviours replayed on the real code; Go harness in /verif/harness builds against /repo's working tree"},
        ],
        "checks": checks,
        "not_applicable": na,
        "notes": "Model-based verification with explicit TLA+ specifications; see DESIGN.md. Exit codes: 0 held, 1 violation (VIOLATION line), 2 inconclusive (infrastructure).",
    }
    json.dump(m, open(os.path.join(ROOT, "MANIFEST.json"), "w"), indent=1)
    print("MANIFEST.json:", len(checks), "checks,", len(na), "not claimed")

main()
