#!/bin/bash
# tools/confirm_mutant.sh <mutant-dir> <demo-target-dir-relative-to-repo> <demo-test-regex> [extra test pkgs...]
# Confirms in a scratch worktree: patch applies+builds, demo FAILS with patch, touched packages' existing tests PASS with patch,
# demo PASSES without patch. Prints CONFIRMED or NOT-CONFIRMED with reasons.
export GOFLAGS=-mod=mod GOPROXY=off GOSUMDB=off GOTOOLCHAIN=local
M="$1"; TGT="$2"; RE="$3"; shift 3; EXTRA="$@"
WT="$(mktemp -d /var/tmp/verif-confirm-XXXXXX)"
git -C /repo worktree add -q --detach "$WT/repo" HEAD || exit 2
cd "$WT/repo"
ok=1
git apply "$M/patch.diff" || { echo "NOT-CONFIRMED: patch does not apply"; ok=0; }
if [ $ok = 1 ]; then
  go1.26 build ./... || { echo "NOT-CONFIRMED: build fails"; ok=0; }
fi
PKGS=$(git diff --name-only | xargs -n1 dirname | sort -u | sed 's#^#./#')
if [ $ok = 1 ]; then
  echo "existing tests with patch: $PKGS $EXTRA"
  if ! timeout 1500 go1.26 test -count=1 -p 4 $PKGS $EXTRA > "$WT/pkgtests.log" 2>&1; then
     if grep -q "^--- FAIL\|^FAIL" "$WT/pkgtests.log" && ! grep "^--- FAIL" "$WT/pkgtests.log" | grep -qv "Postgres\|MySQL\|Mysql\|Docker"; then echo "  (only docker-related failures)"; else echo "NOT-CONFIRMED: existing tests fail with patch"; grep "^--- FAIL\|^FAIL" "$WT/pkgtests.log" | head; ok=0; fi
  fi
fi
cp "$M"/demo*_test.go "$TGT"/ 2>/dev/null || cp "$M"/demo_test.go "$TGT"/
if [ $ok = 1 ]; then
  if timeout 600 go1.26 test -count=1 "./$TGT" -run "$RE" > "$WT/demo_with.log" 2>&1; then echo "NOT-CONFIRMED: demo passes WITH patch"; ok=0; else echo "demo fails with patch (expected)"; fi
fi
git apply -R "$M/patch.diff"
if [ $ok = 1 ]; then
  if timeout 600 go1.26 test -count=1 "./$TGT" -run "$RE" > "$WT/demo_without.log" 2>&1; then echo "demo passes without patch (expected)"; else echo "NOT-CONFIRMED: demo fails WITHOUT patch"; tail -5 "$WT/demo_without.log"; ok=0; fi
fi
cd /; git -C /repo worktree remove --force "$WT/repo"; rm -rf "$WT"
[ $ok = 1 ] && echo "CONFIRMED $M" || echo "FAILED $M"
