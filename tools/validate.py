#!/usr/bin/env python3
import json,jsonschema,glob,sys
jsonschema.validate(json.load(open('/verif/MANIFEST.json')), json.load(open('/root/.vp/MANIFEST.schema.json')))
es=json.load(open('/root/.vp/EVIDENCE.schema.json'))
for f in sorted(glob.glob('/verif/evidence/*.json')):
    jsonschema.validate(json.load(open(f)), es)
print('manifest + %d evidence files valid' % len(glob.glob('/verif/evidence/*.json')))
