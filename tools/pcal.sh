#!/bin/bash
# Regenerates spec/queue/*.tla from the PlusCal sources in spec/queue/src (pcal translation).
set -e
cd /verif/spec/queue
for f in src/*.tla; do
  b=$(basename $f)
  T=$(mktemp -d /var/tmp/pcal-XXXXXX)
  cp $f $T/$b
  (cd $T && pcal -nocfg $b > pcal.log 2>&1) || { cat $T/pcal.log; exit 1; }
  grep -q "Translation completed" $T/pcal.log || { cat $T/pcal.log; exit 1; }
  cp $T/$b ./$b
  rm -rf $T
  echo "translated $b"
done
