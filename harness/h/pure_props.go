package h

import (
	"math/rand"
	"path/filepath"
	"time"
	"unicode/utf8"

	"github.com/openfga/openfga/pkg/tuple"
)

var PureSpecDir = func() string { return filepath.Join(VerifRoot(), "spec", "pure") }

// validatePure runs a trace spec of spec/pure over events (no Setup structure; shards cut anywhere).
func validatePure(run *Run, module string, events []any, shards int) *TraceSummary {
	return validatePureCut(run, module, events, shards, func(int) bool { return true })
}

// validatePureCut: shards may only start at events for which mayCut is true.
func validatePureCut(run *Run, module string, events []any, shards int, mayCut func(int) bool) *TraceSummary {
	if len(events) == 0 {
		run.Inconclusive("driver produced no events")
	}
	sum, err := ValidateTrace([]string{PureSpecDir()}, module, events, shards, mayCut, 20*time.Minute)
	if err != nil {
		run.Inconclusive("%s validation failed: %v", module, err)
	}
	for _, b := range sum.Bad {
		run.Classified(b.Cls, map[string]any{"prop": run.Prop, "class": b.Cls, "event": events[b.L], "ref": b.Ref}, b.Ref)
	}
	run.Coverage["judged_by_tlc"] = sum.Judged
	run.Coverage["verdict_classes"] = sum.Counts
	run.Coverage["traces_validated_against_impl"] = sum.Lines
	return sum
}

// ---------------------------------------------------------------- C29

var classChars = map[string][]string{
	"a": {"x", "y", "Z", "0", "-", "_", ".", "|", "/"},
	"m": {"é", "日", "ß", "😀"},
	":": {":"}, "#": {"#"}, "@": {"@"}, " ": {" "}, "*": {"*"},
	"c": {"\n", "\t", "\x00", "\x7f", "\u0085", "\r"},
}
var classOrder = []string{"a", "m", ":", "#", "@", " ", "*", "c"}

type strEv struct {
	E       string   `json:"e"`
	S       []string `json:"s"`
	Text    string   `json:"text"`
	Obj     bool     `json:"obj"`
	Rel     bool     `json:"rel"`
	UID     bool     `json:"uid"`
	Uset    bool     `json:"uset"`
	User    bool     `json:"user"`
	TWild   bool     `json:"twild"`
	TLen    int      `json:"tlen"`
	IDLen   int      `json:"idlen"`
	OLen    int      `json:"olen"`
	RLen    int      `json:"rlen"`
	RtObj   bool     `json:"rtobj"`
	RtUset  bool     `json:"rtuset"`
	RtUser  bool     `json:"rtuser"`
	TupleOK bool     `json:"tupleok"`
}

func strCase(r *rand.Rand, classes []string) *strEv {
	s := ""
	for _, c := range classes {
		s += pick(r, classChars[c])
	}
	ev := &strEv{E: "Str", S: classes, Text: s}
	ev.Obj, ev.Rel, ev.UID, ev.Uset, ev.User = tuple.IsValidObject(s), tuple.IsValidRelation(s), tuple.IsValidUserID(s), tuple.IsValidUserset(s), tuple.IsValidUser(s)
	ev.TWild = tuple.IsTypedWildcard(s)
	t, id := tuple.SplitObject(s)
	ev.TLen, ev.IDLen = utf8.RuneCountInString(t), utf8.RuneCountInString(id)
	o, rel := tuple.SplitObjectRelation(s)
	ev.OLen, ev.RLen = utf8.RuneCountInString(o), utf8.RuneCountInString(rel)
	ev.RtObj = tuple.BuildObject(t, id) == s
	ev.RtUset = tuple.ToObjectRelationString(o, rel) == s
	if ev.Obj || ev.Uset {
		ev.RtUser = tuple.UserProtoToString(tuple.StringToUserProto(s)) == s && tuple.FromUserParts(tuple.ToUserParts(s)) == s
	}
	tk, err := tuple.ParseTupleString("d:1#r@" + s)
	ev.TupleOK = err == nil && tk.GetObject() == "d:1" && tk.GetRelation() == "r" && tk.GetUser() == s
	if ev.S == nil {
		ev.S = []string{}
	}
	return ev
}

func C29(run *Run) {
	r := rand.New(rand.NewSource(run.Seed))
	maxLen := run.Pick(5, 6)
	var events []any
	var rec func(prefix []string)
	rec = func(prefix []string) {
		events = append(events, strCase(r, append([]string{}, prefix...)))
		run.Evals++
		if len(prefix) == maxLen {
			return
		}
		for _, c := range classOrder {
			rec(append(prefix, c))
		}
	}
	rec(nil)
	// random longer strings
	for i := 0; i < run.Pick(2000, 20000); i++ {
		n := maxLen + 1 + r.Intn(14)
		cs := make([]string, n)
		for j := range cs {
			cs[j] = pick(r, []string{"a", "a", "a", "a", "m", ":", "#", "@", " ", "*", "c"})
		}
		events = append(events, strCase(r, cs))
		run.Evals++
	}
	for _, e := range events {
		se := e.(*strEv)
		if se.User || se.Obj || se.Rel {
			run.Nontrivial(se.Text)
		}
	}
	run.AddSample(events[100])
	run.AddSample(events[len(events)-1])
	validatePure(run, "GrammarTrace", events, 16)
	run.Coverage["exhaustive"] = true
	run.Coverage["rule"] = "every string over the 8 character classes {ordinary, multi-byte, ':', '#', '@', space, '*', control} up to length 5 (quick) / 6 (thorough), each class instantiated with a random representative, plus random longer strings; the real pkg/tuple validity functions, split functions and render/parse round trips are recorded and judged by TLC against Grammar.tla; non-trivial = strings valid as object, relation or user"
	run.Assumptions = []string{"exhaustive over character classes, not over characters: one random representative per position"}
}
