package h

import (
	"encoding/json"
	"fmt"
	"os"
	"path/filepath"
	"sort"
	"strconv"
	"strings"
	"time"
)

// Exit codes: 0 held, 1 violation, 2 inconclusive (infrastructure).
const (
	ExitOK           = 0
	ExitViolation    = 1
	ExitInconclusive = 2
)

type KnownFinding struct {
	ID       string `json:"id"`
	Properties []string `json:"properties"`
	Class    string `json:"class"`
	Where    string `json:"where"`
	What     string `json:"what"`
	Status   string `json:"status"` // known | fixed
	Commit   string `json:"commit,omitempty"`
	Example  any    `json:"example,omitempty"`
}

func (k KnownFinding) Has(prop string) bool {
	for _, p := range k.Properties {
		if p == prop {
			return true
		}
	}
	return false
}

func LoadKnownFindings() []KnownFinding {
	b, err := os.ReadFile(filepath.Join(VerifRoot(), "known_findings.json"))
	if err != nil {
		return nil
	}
	var out []KnownFinding
	if err := json.Unmarshal(b, &out); err != nil {
		panic("known_findings.json: " + err.Error())
	}
	return out
}

type Run struct {
	Prop   string
	Tier   string
	Seed   int64
	Level  string
	Start  time.Time
	Replay string // path when replaying

	Coverage    map[string]any
	Assumptions []string
	Samples     []any

	violations []string // replay paths
	kfCount    map[string]int
	kfExample  map[string]string
	kfs        []KnownFinding
	nontrivial map[string]bool
	Evals      int
	notes      []string

	divergences []string // runs the model could not follow although their outcome was fine
}

func NewRun(prop, level string) *Run {
	tier := os.Getenv("VERIF_TIER")
	if tier == "" {
		tier = "quick"
	}
	seed := int64(1)
	if s := os.Getenv("VERIF_SEED"); s != "" {
		if v, err := strconv.ParseInt(s, 10, 64); err == nil {
			seed = v
		}
	}
	return &Run{Prop: prop, Tier: tier, Seed: seed, Level: level, Start: time.Now(), Coverage: map[string]any{},
		kfCount: map[string]int{}, kfExample: map[string]string{}, kfs: LoadKnownFindings(), nontrivial: map[string]bool{}}
}

func (r *Run) Thorough() bool { return r.Tier == "thorough" }

// Pick returns q in the quick tier and t in the thorough tier.
func (r *Run) Pick(q, t int) int {
	if r.Thorough() {
		return t
	}
	return q
}

// Nontrivial records a canonical key of a distinct non-trivial case.
func (r *Run) Nontrivial(key string) { r.nontrivial[key] = true }

func (r *Run) AddSample(s any) {
	if len(r.Samples) < 3 {
		r.Samples = append(r.Samples, s)
	}
}

func (r *Run) Note(format string, a ...any) {
	s := fmt.Sprintf(format, a...)
	r.notes = append(r.notes, s)
	fmt.Println("note:", s)
}

// Violation writes a replay file and prints the VIOLATION line.
func (r *Run) Violation(replay any, summary string) {
	dir := filepath.Join(VerifRoot(), "replays")
	os.MkdirAll(dir, 0o755)
	path := filepath.Join(dir, fmt.Sprintf("%s-%d-%d.json", r.Prop, r.Seed, len(r.violations)))
	b, _ := json.MarshalIndent(replay, "", " ")
	// record seed and tier so that drivers without a dedicated replay path can re-run the same exploration
	var asMap map[string]any
	if json.Unmarshal(b, &asMap) == nil && asMap != nil {
		if _, ok := asMap["verif_seed"]; !ok {
			asMap["verif_seed"], asMap["verif_tier"] = r.Seed, r.Tier
			b, _ = json.MarshalIndent(asMap, "", " ")
		}
	}
	os.WriteFile(path, b, 0o644)
	r.violations = append(r.violations, path)
	if len(r.violations) <= 20 {
		fmt.Printf("VIOLATION property=%s replay=%s\n", r.Prop, path)
		fmt.Printf("  detail: %s\n", summary)
	}
}

// Classified handles one non-OK verdict class: a listed known finding of this
// property prints KNOWN-FINDING (once, at Finish); anything else is a violation.
func (r *Run) Classified(cls string, replay any, summary string) {
	for _, k := range r.kfs {
		if k.Has(r.Prop) && k.Class == cls && k.Status == "known" {
			r.kfCount[k.ID]++
			if _, ok := r.kfExample[k.ID]; !ok {
				r.kfExample[k.ID] = summary
			}
			return
		}
	}
	r.Violation(replay, cls+": "+summary)
}

func (r *Run) Violations() int { return len(r.violations) }

// Inconclusive aborts with exit 2 (never a violation).
func (r *Run) Inconclusive(format string, a ...any) {
	fmt.Printf("INCONCLUSIVE property=%s: %s\n", r.Prop, fmt.Sprintf(format, a...))
	os.Exit(ExitInconclusive)
}

// Finish writes the evidence file and returns the exit code.
func (r *Run) Finish() int {
	if r.Replay != "" {
		if len(r.violations) > 0 {
			return ExitViolation
		}
		fmt.Println("replay: no violation reproduced")
		return ExitOK
	}
	if strings.HasPrefix(r.Prop, "dbg-") {
		return ExitOK // debugging commands are not checks and write no evidence
	}
	ids := make([]string, 0, len(r.kfCount))
	for id := range r.kfCount {
		ids = append(ids, id)
	}
	sort.Strings(ids)
	for _, id := range ids {
		fmt.Printf("KNOWN-FINDING: property=%s %s %d occurrence(s), e.g. %s\n", r.Prop, id, r.kfCount[id], r.kfExample[id])
	}
	cov := r.Coverage
	if _, ok := cov["evaluations"]; !ok {
		cov["evaluations"] = r.Evals
	}
	cov["distinct_nontrivial"] = len(r.nontrivial)
	if len(r.Samples) > 0 {
		cov["samples"] = r.Samples
	}
	if len(r.kfCount) > 0 {
		cov["known_findings_seen"] = r.kfCount
	}
	if len(r.notes) > 0 {
		cov["notes"] = r.notes
	}
	ev := map[string]any{
		"property_id": r.Prop,
		"tier":        r.Tier,
		"seed":        r.Seed,
		"level":       r.Level,
		"coverage":    cov,
		"assumptions": r.Assumptions,
		"wall_s":      time.Since(r.Start).Seconds(),
		"violations":  len(r.violations),
	}
	if r.Assumptions == nil {
		ev["assumptions"] = []string{}
	}
	dir := filepath.Join(VerifRoot(), "evidence")
	if d := os.Getenv("VERIF_EVIDENCE_DIR"); d != "" {
		dir = d // runs against a scratch checkout (seeded changes) must not overwrite the evidence of the real tree
	}
	os.MkdirAll(dir, 0o755)
	b, _ := json.MarshalIndent(ev, "", " ")
	if err := os.WriteFile(filepath.Join(dir, r.Prop+".json"), b, 0o644); err != nil {
		fmt.Println("cannot write evidence:", err)
		return ExitInconclusive
	}
	if len(r.violations) > 0 {
		fmt.Printf("%s: %d violation(s)\n", r.Prop, len(r.violations))
		return ExitViolation
	}
	fmt.Printf("%s: held on everything explored (%v evaluations, %d distinct non-trivial, %.1fs)\n", r.Prop, cov["evaluations"], len(r.nontrivial), time.Since(r.Start).Seconds())
	return ExitOK
}
