package h

import (
	"context"
	"errors"
	"fmt"
	"math/rand"
	"sort"
	"sync"
	"time"

	openfgav1 "github.com/openfga/api/proto/openfga/v1"
	parser "github.com/openfga/language/pkg/go/transformer"
	"google.golang.org/grpc/codes"
	"google.golang.org/grpc/status"

	"github.com/openfga/openfga/pkg/authclaims"
	"github.com/openfga/openfga/pkg/server"
	"github.com/openfga/openfga/pkg/storage"
	"github.com/openfga/openfga/pkg/storage/memory"
	"github.com/openfga/openfga/pkg/tuple"
	"github.com/openfga/openfga/pkg/typesystem"
)

// The access-control model of the repository's own access-control tests
// (pkg/server/server_authz_test.go), i.e. the documented FGA-on-FGA model.
const controlModelDSL = `
model
  schema 1.1

type system
  relations
    define can_call_create_stores: [application, application:*] or admin
    define can_call_list_stores: [application, application:*] or admin
    define admin: [application]

type application

type module
  relations
    define can_call_write: [application] or writer or writer from store
    define store: [store]
    define writer: [application]

type store
  relations
    define system: [system]
    define creator: [application]
    define can_call_delete_store: [application] or admin
    define can_call_get_store: [application] or admin
    define can_call_check: [application] or reader
    define can_call_expand: [application] or reader
    define can_call_list_objects: [application] or reader
    define can_call_list_users: [application] or reader
    define can_call_read: [application] or reader
    define can_call_read_assertions: [application] or reader or model_writer
    define can_call_read_authorization_models: [application] or reader or model_writer
    define can_call_read_changes: [application] or reader
    define can_call_write: [application] or writer
    define can_call_write_assertions: [application] or model_writer
    define can_call_write_authorization_models: [application] or model_writer
    define model_writer: [application] or admin
    define reader: [application] or admin
    define writer: [application] or admin
    define admin: [application] or creator or admin from system
`

// RecDS records, per call, the datastore operations performed outside the control
// store, and can make tuple reads of the control store fail.
type RecDS struct {
	storage.OpenFGADatastore
	mu      sync.Mutex
	Control string
	ops     map[string]bool
	// FaultMode: "" none, "all" every tuple read of the control store fails, "some" each fails with probability 1/2
	FaultMode string
	rnd       *rand.Rand
}

var errInjected = errors.New("verif: injected control-store read failure")

func (d *RecDS) Begin() {
	d.mu.Lock()
	d.ops = map[string]bool{}
	d.mu.Unlock()
}
func (d *RecDS) Ops() []string {
	d.mu.Lock()
	defer d.mu.Unlock()
	out := []string{}
	for k := range d.ops {
		out = append(out, k)
	}
	sort.Strings(out)
	return out
}
func (d *RecDS) note(store, op string) {
	d.mu.Lock()
	if store != d.Control && d.ops != nil {
		d.ops[op] = true
	}
	d.mu.Unlock()
}
func (d *RecDS) fail(store string) bool {
	d.mu.Lock()
	defer d.mu.Unlock()
	if store != d.Control {
		return false
	}
	switch d.FaultMode {
	case "all":
		return true
	case "some":
		return d.rnd.Intn(2) == 0
	}
	return false
}

func (d *RecDS) Read(ctx context.Context, store string, f storage.ReadFilter, o storage.ReadOptions) (storage.TupleIterator, error) {
	d.note(store, "Read")
	if d.fail(store) {
		return nil, errInjected
	}
	return d.OpenFGADatastore.Read(ctx, store, f, o)
}
func (d *RecDS) ReadPage(ctx context.Context, store string, f storage.ReadFilter, o storage.ReadPageOptions) ([]*openfgav1.Tuple, string, error) {
	d.note(store, "ReadPage")
	return d.OpenFGADatastore.ReadPage(ctx, store, f, o)
}
func (d *RecDS) ReadUserTuple(ctx context.Context, store string, f storage.ReadUserTupleFilter, o storage.ReadUserTupleOptions) (*openfgav1.Tuple, error) {
	d.note(store, "ReadUserTuple")
	if d.fail(store) {
		return nil, errInjected
	}
	return d.OpenFGADatastore.ReadUserTuple(ctx, store, f, o)
}
func (d *RecDS) ReadUsersetTuples(ctx context.Context, store string, f storage.ReadUsersetTuplesFilter, o storage.ReadUsersetTuplesOptions) (storage.TupleIterator, error) {
	d.note(store, "ReadUsersetTuples")
	if d.fail(store) {
		return nil, errInjected
	}
	return d.OpenFGADatastore.ReadUsersetTuples(ctx, store, f, o)
}
func (d *RecDS) ReadStartingWithUser(ctx context.Context, store string, f storage.ReadStartingWithUserFilter, o storage.ReadStartingWithUserOptions) (storage.TupleIterator, error) {
	d.note(store, "ReadStartingWithUser")
	if d.fail(store) {
		return nil, errInjected
	}
	return d.OpenFGADatastore.ReadStartingWithUser(ctx, store, f, o)
}
func (d *RecDS) Write(ctx context.Context, store string, del storage.Deletes, w storage.Writes, opts ...storage.TupleWriteOption) error {
	d.note(store, "Write")
	return d.OpenFGADatastore.Write(ctx, store, del, w, opts...)
}
func (d *RecDS) ReadAuthorizationModel(ctx context.Context, store, id string) (*openfgav1.AuthorizationModel, error) {
	d.note(store, "ReadAuthorizationModel")
	return d.OpenFGADatastore.ReadAuthorizationModel(ctx, store, id)
}
func (d *RecDS) ReadAuthorizationModels(ctx context.Context, store string, o storage.ReadAuthorizationModelsOptions) ([]*openfgav1.AuthorizationModel, string, error) {
	d.note(store, "ReadAuthorizationModels")
	return d.OpenFGADatastore.ReadAuthorizationModels(ctx, store, o)
}
func (d *RecDS) FindLatestAuthorizationModel(ctx context.Context, store string) (*openfgav1.AuthorizationModel, error) {
	d.note(store, "FindLatestAuthorizationModel")
	return d.OpenFGADatastore.FindLatestAuthorizationModel(ctx, store)
}
func (d *RecDS) WriteAuthorizationModel(ctx context.Context, store string, m *openfgav1.AuthorizationModel) error {
	d.note(store, "WriteAuthorizationModel")
	return d.OpenFGADatastore.WriteAuthorizationModel(ctx, store, m)
}
func (d *RecDS) CreateStore(ctx context.Context, s *openfgav1.Store) (*openfgav1.Store, error) {
	d.note("", "CreateStore")
	return d.OpenFGADatastore.CreateStore(ctx, s)
}
func (d *RecDS) DeleteStore(ctx context.Context, id string) error {
	d.note(id, "DeleteStore")
	return d.OpenFGADatastore.DeleteStore(ctx, id)
}
func (d *RecDS) GetStore(ctx context.Context, id string) (*openfgav1.Store, error) {
	d.note(id, "GetStore")
	return d.OpenFGADatastore.GetStore(ctx, id)
}
func (d *RecDS) ListStores(ctx context.Context, o storage.ListStoresOptions) ([]*openfgav1.Store, string, error) {
	d.note("", "ListStores")
	return d.OpenFGADatastore.ListStores(ctx, o)
}
func (d *RecDS) WriteAssertions(ctx context.Context, store, modelID string, a []*openfgav1.Assertion) error {
	d.note(store, "WriteAssertions")
	return d.OpenFGADatastore.WriteAssertions(ctx, store, modelID, a)
}
func (d *RecDS) ReadAssertions(ctx context.Context, store, modelID string) ([]*openfgav1.Assertion, error) {
	d.note(store, "ReadAssertions")
	return d.OpenFGADatastore.ReadAssertions(ctx, store, modelID)
}
func (d *RecDS) ReadChanges(ctx context.Context, store string, f storage.ReadChangesFilter, o storage.ReadChangesOptions) ([]*openfgav1.TupleChange, string, error) {
	d.note(store, "ReadChanges")
	return d.OpenFGADatastore.ReadChanges(ctx, store, f, o)
}

type modEntry struct {
	T string `json:"t"`
	R string `json:"r"`
	M string `json:"m"`
}
type wrEntry struct {
	T string `json:"t"`
	R string `json:"r"`
	D bool   `json:"d"` // the tuple is deleted rather than written
}
type authzCallEv struct {
	E      string    `json:"e"`
	Method string    `json:"method"`
	Client string    `json:"client"`
	Store  string    `json:"store"`
	Wr     []wrEntry `json:"wr"`
	Fault  string    `json:"fault"`
	Got    string    `json:"got"`
	Ops    []string  `json:"ops"`
	Listed []string  `json:"listed"`
	Err    string    `json:"err,omitempty"`
}

// the model of the stores the calls target: two modules, a relation-level module override and a type without a module
func targetTypeDefs() []*openfgav1.TypeDefinition {
	direct := func() map[string]*openfgav1.Userset {
		return map[string]*openfgav1.Userset{"member": {Userset: &openfgav1.Userset_This{}}, "extra": {Userset: &openfgav1.Userset_This{}}}
	}
	meta := func(mod, extraMod string) *openfgav1.Metadata {
		rt := []*openfgav1.RelationReference{{Type: "user"}}
		return &openfgav1.Metadata{Module: mod, Relations: map[string]*openfgav1.RelationMetadata{
			"member": {DirectlyRelatedUserTypes: rt},
			"extra":  {DirectlyRelatedUserTypes: rt, Module: extraMod},
		}}
	}
	return []*openfgav1.TypeDefinition{
		{Type: "user"},
		{Type: "alpha", Relations: direct(), Metadata: meta("m0", "")},
		{Type: "beta", Relations: direct(), Metadata: meta("m1", "m0")},
		{Type: "plain", Relations: direct(), Metadata: meta("", "")},
	}
}

var authzModmap = []modEntry{{"alpha", "member", "m0"}, {"alpha", "extra", "m0"}, {"beta", "member", "m1"}, {"beta", "extra", "m0"}, {"plain", "member", ""}, {"plain", "extra", ""}}

var storeRelations = []string{"admin", "creator", "reader", "writer", "model_writer", "can_call_delete_store", "can_call_get_store", "can_call_check", "can_call_expand",
	"can_call_list_objects", "can_call_list_users", "can_call_read", "can_call_read_assertions", "can_call_read_authorization_models", "can_call_read_changes",
	"can_call_write", "can_call_write_assertions", "can_call_write_authorization_models"}

var storeMethods = []string{"ReadAuthorizationModel", "ReadAuthorizationModels", "Read", "Write", "ListObjects", "StreamedListObjects", "Check", "BatchCheck", "ListUsers",
	"WriteAssertions", "ReadAssertions", "WriteAuthorizationModel", "GetStore", "Expand", "ReadChanges", "DeleteStore"}

// write shapes: which (type, relation) pairs the request's writes and deletes touch
var writeShapes = [][]wrEntry{
	{{"alpha", "member", false}},
	{{"alpha", "member", false}, {"alpha", "extra", false}},
	{{"beta", "member", false}},
	{{"beta", "extra", false}},                            // relation-level module m0
	{{"beta", "member", false}, {"beta", "extra", false}},  // m1 and m0
	{{"alpha", "member", false}, {"beta", "member", false}}, // two modules
	{{"plain", "member", false}},
	{{"alpha", "member", false}, {"plain", "member", false}}, // module + unmoduled
	{{"plain", "extra", false}, {"alpha", "extra", false}},
	// writes and deletes in different modules / outside any module
	{{"alpha", "member", false}, {"plain", "member", true}},
	{{"plain", "member", false}, {"alpha", "member", true}},
	{{"alpha", "member", true}},
	{{"alpha", "member", false}, {"beta", "member", true}},
	{{"alpha", "member", true}, {"alpha", "extra", false}},
	{{"plain", "member", true}},
}

func C26(run *Run) {
	r := rand.New(rand.NewSource(run.Seed))
	ctx := context.Background()
	rounds := run.Pick(8, 120)
	mem := memory.New()
	defer mem.Close()
	ds := &RecDS{OpenFGADatastore: mem, rnd: rand.New(rand.NewSource(run.Seed + 1))}
	boot := server.MustNewServerWithOpts(server.WithDatastore(ds))
	defer boot.Close()
	cs, err := boot.CreateStore(ctx, &openfgav1.CreateStoreRequest{Name: "control"})
	if err != nil {
		run.Inconclusive("create control store: %v", err)
	}
	pm := parser.MustTransformDSLToProto(controlModelDSL)
	wm, err := boot.WriteAuthorizationModel(ctx, &openfgav1.WriteAuthorizationModelRequest{StoreId: cs.GetId(), SchemaVersion: typesystem.SchemaVersion1_1, TypeDefinitions: pm.GetTypeDefinitions()})
	if err != nil {
		run.Inconclusive("write control model: %v", err)
	}
	ds.Control = cs.GetId()
	ctlModel := wm.GetAuthorizationModelId()
	var stores []string
	models := map[string]string{}
	names := map[string]string{}
	for i := 0; i < 3; i++ {
		st, err := boot.CreateStore(ctx, &openfgav1.CreateStoreRequest{Name: fmt.Sprintf("target-%d", i)})
		if err != nil {
			run.Inconclusive("create store: %v", err)
		}
		m, err := boot.WriteAuthorizationModel(ctx, &openfgav1.WriteAuthorizationModelRequest{StoreId: st.GetId(), SchemaVersion: typesystem.SchemaVersion1_1, TypeDefinitions: targetTypeDefs()})
		if err != nil {
			run.Inconclusive("write target model: %v", err)
		}
		stores = append(stores, st.GetId())
		models[st.GetId()] = m.GetAuthorizationModelId()
		names[st.GetId()] = st.GetName()
		if _, err := boot.Write(ctx, &openfgav1.WriteRequest{StoreId: st.GetId(), Writes: &openfgav1.WriteRequestWrites{TupleKeys: []*openfgav1.TupleKey{
			tuple.NewTupleKey("alpha:1", "member", "user:u"), tuple.NewTupleKey("plain:1", "member", "user:u")}}}); err != nil {
			run.Inconclusive("seed target store: %v", err)
		}
	}
	srv := server.MustNewServerWithOpts(server.WithDatastore(ds), server.WithExperimentals("enable-access-control"),
		server.WithAccessControlParams(true, ds.Control, ctlModel, "oidc"))
	defer srv.Close()
	if !srv.IsAccessControlEnabled() {
		run.Inconclusive("access control is not enabled on the server under test")
	}
	clients := []string{"c1", "c2", "c3"}
	modmap := map[string][]modEntry{}
	for _, s := range stores {
		modmap[s] = authzModmap
	}
	ctlM := ModelFromProto(&openfgav1.AuthorizationModel{SchemaVersion: typesystem.SchemaVersion1_1, TypeDefinitions: pm.GetTypeDefinitions()})
	events := []any{}
	cuts := map[int]bool{}

	// pool of control tuples
	var pool []*openfgav1.TupleKey
	for _, s := range stores {
		for _, c := range clients {
			for _, rel := range storeRelations {
				pool = append(pool, tuple.NewTupleKey("store:"+s, rel, "application:"+c))
			}
			for _, m := range []string{"m0", "m1"} {
				pool = append(pool, tuple.NewTupleKey("module:"+s+"|"+m, "writer", "application:"+c), tuple.NewTupleKey("module:"+s+"|"+m, "can_call_write", "application:"+c))
			}
		}
		pool = append(pool, tuple.NewTupleKey("store:"+s, "system", "system:fga"))
		for _, m := range []string{"m0", "m1"} {
			for _, s2 := range stores {
				pool = append(pool, tuple.NewTupleKey("module:"+s+"|"+m, "store", "store:"+s2))
			}
		}
	}
	for _, c := range append([]string{"*"}, clients...) {
		pool = append(pool, tuple.NewTupleKey("system:fga", "can_call_create_stores", "application:"+c), tuple.NewTupleKey("system:fga", "can_call_list_stores", "application:"+c))
		if c != "*" {
			pool = append(pool, tuple.NewTupleKey("system:fga", "admin", "application:"+c))
		}
	}
	var current []*openfgav1.TupleKey
	setControl := func(want []*openfgav1.TupleKey) {
		ds.FaultMode = ""
		var dels []*openfgav1.TupleKeyWithoutCondition
		for _, t := range current {
			dels = append(dels, tuple.TupleKeyToTupleKeyWithoutCondition(t))
		}
		for len(dels) > 0 {
			n := min(len(dels), 40)
			if _, err := boot.Write(ctx, &openfgav1.WriteRequest{StoreId: ds.Control, AuthorizationModelId: ctlModel, Deletes: &openfgav1.WriteRequestDeletes{TupleKeys: dels[:n]}}); err != nil {
				run.Inconclusive("control delete: %v", err)
			}
			dels = dels[n:]
		}
		w := want
		for len(w) > 0 {
			n := min(len(w), 40)
			if _, err := boot.Write(ctx, &openfgav1.WriteRequest{StoreId: ds.Control, AuthorizationModelId: ctlModel, Writes: &openfgav1.WriteRequestWrites{TupleKeys: w[:n]}}); err != nil {
				run.Inconclusive("control write: %v", err)
			}
			w = w[n:]
		}
		current = want
		// read back what the control store holds
		benv := &Env{DS: ds, S: boot, StoreID: ds.Control, ModelID: ctlModel}
		got, err := benv.ReadAll(ctx)
		if err != nil {
			run.Inconclusive("control read back: %v", err)
		}
		for i := range got {
			got[i] = got[i].Norm()
		}
		if got == nil {
			got = []Tuple{}
		}
		cuts[len(events)] = true
		events = append(events, map[string]any{"e": "Control", "model": ctlM, "modmap": modmap, "emptyctx": map[string]any{}, "tuples": got, "stores": stores})
	}
	call := func(method, client, store string, wr []wrEntry, fault string) {
		c := ctx
		if client != "" {
			c = authclaims.ContextWithAuthClaims(ctx, &authclaims.AuthClaims{ClientID: client})
		} else if r.Intn(2) == 0 {
			c = authclaims.ContextWithAuthClaims(ctx, &authclaims.AuthClaims{ClientID: "", Subject: "someone"})
		}
		ev := &authzCallEv{E: "Call", Method: method, Client: client, Store: store, Wr: wr, Fault: fault, Listed: []string{}}
		if ev.Wr == nil {
			ev.Wr = []wrEntry{}
		}
		ds.FaultMode = fault
		if fault == "none" {
			ds.FaultMode = ""
		}
		ds.Begin()
		var err error
		mid := models[store]
		tk := &openfgav1.CheckRequestTupleKey{User: "user:u", Relation: "member", Object: "alpha:1"}
		switch method {
		case "Check":
			_, err = srv.Check(c, &openfgav1.CheckRequest{StoreId: store, TupleKey: tk})
		case "BatchCheck":
			_, err = srv.BatchCheck(c, &openfgav1.BatchCheckRequest{StoreId: store, Checks: []*openfgav1.BatchCheckItem{{CorrelationId: "a", TupleKey: tk}}})
		case "Expand":
			_, err = srv.Expand(c, &openfgav1.ExpandRequest{StoreId: store, TupleKey: &openfgav1.ExpandRequestTupleKey{Relation: "member", Object: "alpha:1"}})
		case "ListObjects":
			_, err = srv.ListObjects(c, &openfgav1.ListObjectsRequest{StoreId: store, Type: "alpha", Relation: "member", User: "user:u"})
		case "StreamedListObjects":
			err = srv.StreamedListObjects(&openfgav1.StreamedListObjectsRequest{StoreId: store, Type: "alpha", Relation: "member", User: "user:u"}, &loStream{ctx: c})
		case "ListUsers":
			_, err = srv.ListUsers(c, &openfgav1.ListUsersRequest{StoreId: store, Object: &openfgav1.Object{Type: "alpha", Id: "1"}, Relation: "member", UserFilters: []*openfgav1.UserTypeFilter{{Type: "user"}}})
		case "Read":
			_, err = srv.Read(c, &openfgav1.ReadRequest{StoreId: store})
		case "ReadChanges":
			_, err = srv.ReadChanges(c, &openfgav1.ReadChangesRequest{StoreId: store})
		case "ReadAuthorizationModel":
			_, err = srv.ReadAuthorizationModel(c, &openfgav1.ReadAuthorizationModelRequest{StoreId: store, Id: mid})
		case "ReadAuthorizationModels":
			_, err = srv.ReadAuthorizationModels(c, &openfgav1.ReadAuthorizationModelsRequest{StoreId: store})
		case "WriteAuthorizationModel":
			_, err = srv.WriteAuthorizationModel(c, &openfgav1.WriteAuthorizationModelRequest{StoreId: store, SchemaVersion: typesystem.SchemaVersion1_1, TypeDefinitions: targetTypeDefs()})
		case "WriteAssertions":
			_, err = srv.WriteAssertions(c, &openfgav1.WriteAssertionsRequest{StoreId: store, AuthorizationModelId: mid, Assertions: []*openfgav1.Assertion{{TupleKey: &openfgav1.AssertionTupleKey{User: "user:u", Relation: "member", Object: "alpha:1"}, Expectation: true}}})
		case "ReadAssertions":
			_, err = srv.ReadAssertions(c, &openfgav1.ReadAssertionsRequest{StoreId: store, AuthorizationModelId: mid})
		case "GetStore":
			_, err = srv.GetStore(c, &openfgav1.GetStoreRequest{StoreId: store})
		case "DeleteStore":
			_, err = srv.DeleteStore(c, &openfgav1.DeleteStoreRequest{StoreId: store})
			// put the store record back if the call deleted it (models and tuples are untouched by DeleteStore on this backend)
			if _, gerr := mem.GetStore(ctx, store); gerr != nil {
				if _, cerr := mem.CreateStore(ctx, &openfgav1.Store{Id: store, Name: names[store]}); cerr != nil {
					run.Inconclusive("cannot restore store record: %v", cerr)
				}
			}
		case "CreateStore":
			_, err = srv.CreateStore(c, &openfgav1.CreateStoreRequest{Name: fmt.Sprintf("made-%d", len(events))})
		case "ListStores":
			var resp *openfgav1.ListStoresResponse
			resp, err = srv.ListStores(c, &openfgav1.ListStoresRequest{})
			for _, s := range resp.GetStores() {
				ev.Listed = append(ev.Listed, s.GetId())
			}
		case "Write":
			req := &openfgav1.WriteRequest{StoreId: store}
			for _, w := range wr {
				obj := fmt.Sprintf("%s:w%d", w.T, r.Intn(1000000))
				if w.D {
					if req.Deletes == nil {
						req.Deletes = &openfgav1.WriteRequestDeletes{}
					}
					req.Deletes.TupleKeys = append(req.Deletes.TupleKeys, &openfgav1.TupleKeyWithoutCondition{Object: obj, Relation: w.R, User: "user:u"})
				} else {
					if req.Writes == nil {
						req.Writes = &openfgav1.WriteRequestWrites{}
					}
					req.Writes.TupleKeys = append(req.Writes.TupleKeys, tuple.NewTupleKey(obj, w.R, "user:u"))
				}
			}
			_, err = srv.Write(c, req)
		default:
			run.Inconclusive("unknown method %s", method)
		}
		ev.Ops = ds.Ops()
		ds.FaultMode = ""
		ev.Got = "passed"
		if err != nil {
			ev.Err = err.Error()
			if st, ok := status.FromError(err); ok && st.Code() == codes.Code(openfgav1.AuthErrorCode_forbidden) {
				ev.Got = "forbidden"
			}
		}
		events = append(events, ev)
		run.Evals++
		run.Nontrivial(fmt.Sprintf("%s|%s|%s|%v|%s|%d", method, client, store, wr, fault, len(current)))
		if len(run.Samples) < 3 && ev.Got == "passed" && client != "" {
			run.AddSample(ev)
		}
	}
	for round := 0; round < rounds; round++ {
		// a grant set: few to many tuples, biased to produce every kind of grant
		var want []*openfgav1.TupleKey
		seen := map[string]bool{}
		n := []int{0, 3, 8, 20, 45}[r.Intn(5)]
		if round == 0 {
			n = 0
		}
		for len(want) < n {
			t := pool[r.Intn(len(pool))]
			k := tuple.TupleKeyToString(t)
			if !seen[k] {
				seen[k] = true
				want = append(want, t)
			}
		}
		if round == 1 { // list_stores allowed but no store may be got
			want = []*openfgav1.TupleKey{tuple.NewTupleKey("system:fga", "can_call_list_stores", "application:c1"), tuple.NewTupleKey("store:"+stores[0], "reader", "application:c2"),
				tuple.NewTupleKey("system:fga", "can_call_list_stores", "application:c2")}
		}
		if round == 2 { // module grants: c1 writes both modules of store 0, c2 one, c3 through the module's store link
			s0 := stores[0]
			want = []*openfgav1.TupleKey{
				tuple.NewTupleKey("module:"+s0+"|m0", "writer", "application:c1"), tuple.NewTupleKey("module:"+s0+"|m1", "can_call_write", "application:c1"),
				tuple.NewTupleKey("module:"+s0+"|m0", "can_call_write", "application:c2"),
				tuple.NewTupleKey("module:"+stores[1]+"|m1", "store", "store:"+stores[2]), tuple.NewTupleKey("store:"+stores[2], "writer", "application:c3"),
			}
		}
		setControl(want)
		fault := "none"
		if round%6 == 4 {
			fault = "all"
		} else if round%6 == 5 {
			fault = "some"
		}
		for _, client := range append([]string{""}, clients...) {
			call("CreateStore", client, "", nil, fault)
			call("ListStores", client, "", nil, fault)
			for _, s := range stores {
				for _, m := range storeMethods {
					if m == "Write" {
						for _, sh := range writeShapes {
							call(m, client, s, sh, fault)
						}
						continue
					}
					call(m, client, s, nil, fault)
				}
			}
		}
	}
	sum, err := ValidateTrace(CoreSpecDirs(), "AuthzTrace", events, 8, func(i int) bool { return cuts[i] }, 20*time.Minute)
	if err != nil {
		run.Inconclusive("AuthzTrace validation failed: %v", err)
	}
	for _, b := range sum.Bad {
		run.Classified(b.Cls, map[string]any{"prop": run.Prop, "class": b.Cls, "event": events[b.L], "ref": b.Ref, "note": b.Note}, b.Ref)
	}
	run.Coverage["judged_by_tlc"] = sum.Judged
	run.Coverage["verdict_classes"] = sum.Counts
	run.Coverage["traces_validated_against_impl"] = sum.Lines
	run.Coverage["rule"] = "real server with access control enabled over the documented FGA-on-FGA control model; per round a random grant set (store roles and per-method relations, system admin / wildcard grants, module writers, stored and cross-store module->store links, stored store->system links) is written to the control store and read back; then every API method x every caller (3 identities, none, empty client id) x every store, Write in 9 module shapes (one module, relation-level module override, two modules, unmoduled mixes, writes+deletes), with control-store reads healthy, all failing, or failing at random; TLC judges each outcome against the grant relation computed by the reference semantics (FGACore Holds) and checks ListStores results and the datastore operations of denied calls; non-trivial = distinct (method, caller, store, shape, fault, grant-set) combinations"
	run.Assumptions = []string{"caches off; memory backend", "authn middleware not in the loop: identities are placed in the context as the authn interceptor would"}
}
