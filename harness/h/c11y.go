package h

import (
	"context"
	"fmt"
	"math/rand"
	"time"

	openfgav1 "github.com/openfga/api/proto/openfga/v1"

	"github.com/openfga/openfga/internal/graph"
	"github.com/openfga/openfga/pkg/storage"
	"github.com/openfga/openfga/pkg/storage/memory"
	"github.com/openfga/openfga/pkg/tuple"
	"github.com/openfga/openfga/pkg/typesystem"
)

// Check query cache conformance (spec/cache/CheckCacheTrace.tla): the real resolver chain
// CachedCheckResolver -> LocalChecker is driven one request at a time; the driver plays the cache
// controller (it decides which invalidation time a request is given), flips the child fact between
// requests and compares every answer with the design model CheckCache, whose actions the trace
// specification reuses.

func checkCacheRun(r *rand.Rand, steps int) ([]any, error) {
	ctx := context.Background()
	this := &Rewrite{K: "this"}
	m := &Model{Types: []string{"user", "folder", "doc"}, Conds: []CondDef{}, Rels: []RelDef{
		{T: "folder", R: "viewer", Rw: this, Restr: []Restr{{T: "user"}}},
		{T: "doc", R: "parent", Rw: this, Restr: []Restr{{T: "folder"}}},
		{T: "doc", R: "viewer", Rw: &Rewrite{K: "ttu", TS: "parent", Rel: "viewer"}, Restr: []Restr{}},
	}}
	env := NewEnv(memory.New())
	defer env.Close()
	childT := tp("folder:1", "viewer", "user:a")
	if err := env.Setup(ctx, m, []Tuple{tp("doc:1", "parent", "folder:1"), childT}); err != nil {
		return nil, err
	}
	ts, _, err := env.Typesystem(ctx, m)
	if err != nil {
		return nil, err
	}
	cache, err := storage.NewInMemoryLRUCache[any]()
	if err != nil {
		return nil, err
	}
	defer cache.Stop()
	resolver, closer, err := graph.NewOrderedCheckResolvers(
		graph.WithCachedCheckResolverOpts(true, graph.WithExistingCache(cache), graph.WithCacheTTL(time.Hour)),
		graph.WithLocalCheckerOpts(graph.WithPlanner(&Forced{"default"}))).Build()
	if err != nil {
		return nil, err
	}
	defer closer()
	rctx := storage.ContextWithRelationshipTupleReader(typesystem.ContextWithTypesystem(ctx, ts), env.DS)

	events := []any{map[string]any{"e": "CReset"}}
	times := map[int]time.Time{}
	clock := 1 // the model's clock: one tick per operation
	last := time.Now()
	tick := func() {
		now := time.Now()
		for !now.After(last) {
			now = time.Now()
		}
		for !time.Now().After(now) {
		}
		times[clock], last = now, now
	}
	present, running := true, false
	lastChange, snap, inv := 0, 0, -1
	for s := 0; s < steps; s++ {
		tick()
		switch x := r.Intn(100); {
		case x < 18:
			var err error
			if present {
				err = env.DS.Write(ctx, env.StoreID, []*openfgav1.TupleKeyWithoutCondition{tuple.TupleKeyToTupleKeyWithoutCondition(childT.ToProto())}, nil)
			} else {
				err = env.DS.Write(ctx, env.StoreID, nil, []*openfgav1.TupleKey{childT.ToProto()})
			}
			if err != nil {
				return nil, err
			}
			present = !present
			lastChange = clock
			events = append(events, map[string]any{"e": "CWrite"})
		case x < 30:
			if running {
				running, inv = false, snap
				events = append(events, map[string]any{"e": "CRunEnd"})
			} else {
				running, snap = true, lastChange
				events = append(events, map[string]any{"e": "CRunBegin"})
			}
		default:
			k := pick(r, []string{"child", "parent", "parent"})
			kind := pick(r, []string{"check", "check", "check", "followup", "hc"})
			tk := tuple.NewTupleKey("folder:1", "viewer", "user:a")
			if k == "parent" {
				tk = tuple.NewTupleKey("doc:1", "viewer", "user:a")
			}
			p := graph.ResolveCheckRequestParams{StoreID: env.StoreID, TupleKey: tk, AuthorizationModelID: ts.GetAuthorizationModelID()}
			switch kind {
			case "hc":
				p.Consistency = openfgav1.ConsistencyPreference_HIGHER_CONSISTENCY
			case "check":
				if inv > 0 {
					p.LastCacheInvalidationTime = times[inv]
				}
			}
			req, err := graph.NewResolveCheckRequest(p)
			if err != nil {
				return nil, err
			}
			resp, err := resolver.ResolveCheck(rctx, req)
			if err != nil {
				return nil, fmt.Errorf("resolve: %w", err)
			}
			events = append(events, map[string]any{"e": "CRequest", "k": k, "kind": kind, "got": resp.GetAllowed()})
		}
		clock++
	}
	return events, nil
}

func checkCacheConformance(run *Run) {
	r := rand.New(rand.NewSource(run.Seed + 1111))
	var events []any
	cuts := map[int]bool{}
	for i := 0; i < run.Pick(100, 1200); i++ {
		evs, err := checkCacheRun(r, 60+r.Intn(60))
		if err != nil {
			run.Inconclusive("check cache conformance run: %v", err)
		}
		cuts[len(events)] = true
		events = append(events, evs...)
	}
	sum, err := ValidateTrace(CacheSpecDirs(), "CheckCacheTrace", events, 8, func(i int) bool { return cuts[i] }, 15*time.Minute)
	if err != nil {
		run.Inconclusive("CheckCacheTrace validation failed: %v", err)
	}
	for _, b := range sum.Bad {
		lo := b.L
		for lo > 0 && !cuts[lo] {
			lo--
		}
		run.Classified(b.Cls, map[string]any{"prop": run.Prop, "class": b.Cls, "kind": "checkcache", "line": b.L - lo, "run": events[lo : b.L+1], "want": b.Ref}, fmt.Sprintf("%s line %s want %s", b.Cls, jsonOf(events[b.L]), b.Ref))
	}
	run.Evals += sum.Judged
	run.Coverage["checkcache_requests_judged"] = sum.Judged
	run.Coverage["checkcache_classes"] = sum.Counts
}

// DebugCheckCache runs the check-cache conformance alone (./check dbg-checkcache).
func DebugCheckCache(run *Run) {
	checkCacheConformance(run)
	fmt.Println("checkcache classes:", run.Coverage["checkcache_classes"], "violations:", run.Violations())
}
