package h

import (
	"context"
	"encoding/json"
	"fmt"
	"math/rand"
	"strings"

	openfgav1 "github.com/openfga/api/proto/openfga/v1"
	"google.golang.org/protobuf/types/known/structpb"

	"github.com/openfga/openfga/pkg/server/commands/v2breaking"
	"github.com/openfga/openfga/pkg/typesystem"
)

// ---------------------------------------------------------------- C07 BatchCheck

type batchItem struct {
	id string
	q  Req
	ct []Tuple
}

func batchErrKind(e *openfgav1.CheckError) string {
	msg := e.GetMessage()
	switch {
	case e.GetInputError() == openfgav1.ErrorCode_validation_error && (strings.Contains(msg, "condition") || strings.Contains(msg, "context parameters")):
		return "cond"
	case e.GetInputError() == openfgav1.ErrorCode_authorization_model_resolution_too_complex:
		return "depth"
	case e.GetInputError() != openfgav1.ErrorCode_no_error:
		return "validation"
	case e.GetInternalError() == openfgav1.InternalErrorCode_deadline_exceeded:
		return "deadline"
	}
	return "internal"
}

func C07(run *Run) {
	ctx := context.Background()
	if run.Replay != "" {
		replayCore(run)
		return
	}
	r := rand.New(rand.NewSource(run.Seed))
	v := NewVariants()
	defer v.Close()
	nCases := run.Pick(100, 1200)
	rec := &Recorder{}
	for c := 0; c < nCases; c++ {
		cs, _ := GenCase(r, c, GenOpts{MinTuples: 8})
		stored, ctxt := splitTuples(r, cs)
		if err := v.Base.Setup(ctx, cs.Model, stored); err != nil {
			run.Inconclusive("setup failed: %v", err)
		}
		ts, mg, err := v.Base.Typesystem(ctx, cs.Model)
		if err != nil {
			run.Inconclusive("typesystem: %v", err)
		}
		se := cs.SetupEv()
		se.Tuples = normTuples(stored)
		rec.Setup(se)
		reqs := GenRequests(r, cs, 12)
		ctxs := GenReqCtxs(r, cs.Model)
		for b := 0; b < 2; b++ {
			env := v.Base
			engName := "batch"
			if b == 1 {
				env = v.Get("server:r1") // concurrency-limited variant
				engName = "batch:r1"
			}
			var items []batchItem
			n := 3 + r.Intn(18)
			for i := 0; i < n; i++ {
				var it batchItem
				switch {
				case i > 0 && chance(r, 0.25): // exact duplicate under another correlation id
					it = items[r.Intn(len(items))]
				case i > 0 && chance(r, 0.3): // near duplicate: same tuple key, different context
					it = items[r.Intn(len(items))]
					it.q.Ctx = pick(r, ctxs)
				case i > 0 && chance(r, 0.3): // near duplicate: same tuple key, different contextual tuples
					it = items[r.Intn(len(items))]
					if len(it.ct) > 0 {
						it.ct = nil
					} else {
						it.ct = ctxt
					}
				default:
					it = batchItem{q: reqs[r.Intn(len(reqs))]}
					if chance(r, 0.4) {
						it.ct = ctxt
					}
				}
				it.id = fmt.Sprintf("c%d-b%d-i%d", c, b, i)
				items = append(items, it)
			}
			req := &openfgav1.BatchCheckRequest{StoreId: env.StoreID, AuthorizationModelId: env.ModelID}
			bev := &BatchEv{E: "BatchCheck", IDs: []string{}, ResIDs: []string{}}
			for _, it := range items {
				req.Checks = append(req.Checks, &openfgav1.BatchCheckItem{CorrelationId: it.id,
					TupleKey:         &openfgav1.CheckRequestTupleKey{Object: it.q.O.String(), Relation: it.q.R, User: it.q.U.String()},
					ContextualTuples: CtxTuples(it.ct), Context: normCtx(it.q.Ctx).ToProto()})
				bev.IDs = append(bev.IDs, it.id)
			}
			resp, err := env.S.BatchCheck(ctx, req)
			if err != nil {
				// an item rejected by request validation fails the whole batch; not a C07 case
				if strings.Contains(err.Error(), "nvalid") || ErrKind(err) == "validation" {
					continue
				}
				bev.IsErr, bev.Err = true, err.Error()
				rec.Add(bev)
				continue
			}
			for id := range resp.GetResult() {
				bev.ResIDs = append(bev.ResIDs, id)
			}
			rec.Add(bev)
			run.Evals++
			for _, it := range items {
				res, ok := resp.GetResult()[it.id]
				if !ok {
					continue // reported by the BatchCheck event
				}
				ev := &CheckEv{Eng: engName, O: it.q.O, R: it.q.R, U: it.q.U, Ctx: it.q.Ctx, Ctxt: it.ct}
				ev.E, ev.Ctx, ev.Ctxt = "Check", normCtx(ev.Ctx), normTuples(ev.Ctxt)
				if e := res.GetError(); e != nil {
					ev.Got, ev.Errk, ev.Err = "ERR", batchErrKind(e), e.GetMessage()
				} else if res.GetAllowed() {
					ev.Got = "T"
				} else {
					ev.Got = "F"
				}
				solo := &CheckEv{Eng: "server", O: it.q.O, R: it.q.R, U: it.q.U, Ctx: it.q.Ctx, Ctxt: it.ct}
				env.RunCheck(ctx, solo, ts, mg)
				if solo.Got == "ERR" && solo.Errk != "cond" && len(it.ct) > 0 && strings.Contains(solo.Err, "nvalid") {
					continue
				}
				ev.Solo = solo.Got
				rec.Add(ev)
				rec.Add(solo)
				run.Evals += 2
				run.Nontrivial(hashOf([]any{cs.Model, stored, it.q, it.ct}))
			}
		}
		if c < 2 {
			run.AddSample(map[string]any{"model": cs.Model.String(), "stored": tupleStrings(stored), "last_event": rec.Events[len(rec.Events)-1]})
		}
	}
	sum := rec.Validate(run, 16)
	run.Coverage["rule"] = "C01 cases; batches of 3-20 items drawn from the request space with exact duplicates, near-duplicates differing only in context or only in contextual tuples, default and concurrency-1 servers; TLC checks: the set of result correlation ids equals the set of request ids (each once); each item's outcome equals the standalone Check issued in the same run and the reference Chk; non-trivial = distinct (model, stored, request, contextual tuples)"
	run.Coverage["cases"] = nCases
	run.Coverage["judged_by_tlc"] = sum.Judged
	run.Coverage["verdict_classes"] = sum.Counts
	run.Assumptions = []string{"reference = FGACore.Chk", "batches containing a contextual tuple refused by validation are skipped"}
}

// ---------------------------------------------------------------- C03 weighted-graph Check (v2)

// V2Ev is a Check event answered by the v2 engine, with the v1 answer to the same
// input and the verdict of the breaking-change detector.
type V2Ev struct {
	CheckEv
	V1      string `json:"v1"`      // v1 outcome T/F/ERR
	Reason  string `json:"reason"`  // v2breaking.CheckReason (may be "")
	XReason string `json:"xreason"` // v2breaking.CheckExclusionReason
	Fell    bool   `json:"fell"`    // answered by fallback
	Shape   string `json:"shape"`   // "", "userset", "wildcard": documented request-shape error class
}

func C03(run *Run) {
	ctx := context.Background()
	if run.Replay != "" {
		replayC03(run)
		return
	}
	r := rand.New(rand.NewSource(run.Seed))
	v := NewVariants()
	defer v.Close()
	nCases := run.Pick(100, 1200)
	perCase := run.Pick(30, 50)
	rec := &Recorder{}
	nograph := 0
	defer func() { run.Coverage["cases_without_model_graph"] = nograph }()
	scripted := v2AliasCases()
	for c := 0; c < nCases+len(scripted); c++ {
		var cs *Case
		var reqs []Req
		if c < nCases {
			cs, _ = GenCase(r, c, GenOpts{})
		} else {
			cs, reqs = scripted[c-nCases].cs, scripted[c-nCases].reqs // the documented alias shape, enumerated
		}
		stored, ctxt := cs.Tuples, []Tuple(nil)
		if c%2 == 1 && c < nCases { // part of the tuples travel with the requests as contextual tuples
			stored, ctxt = splitTuples(r, cs)
		}
		if reqs == nil {
			reqs = GenRequests(r, cs, perCase)
		}
		if err := v.Base.Setup(ctx, cs.Model, stored); err != nil {
			run.Inconclusive("setup failed: %v", err)
		}
		ts, mg, err := v.Base.Typesystem(ctx, cs.Model)
		if err != nil {
			run.Inconclusive("typesystem: %v", err)
		}
		if mg == nil {
			nograph++
			if nograph <= 3 {
				run.Note("model graph could not be built for case %d: %s (model %s)", c, LastModelGraphErr, cs.Model)
			}
			continue
		}
		se := cs.SetupEv()
		se.Tuples = normTuples(stored)
		rec.Setup(se)
		sv2 := v.Get("server:v2")
		for _, q := range reqs {
			v1 := &CheckEv{Eng: "v1:default", O: q.O, R: q.R, U: q.U, Ctx: q.Ctx, Ctxt: ctxt}
			v.Base.RunCheck(ctx, v1, ts, mg)
			for _, eng := range []string{"v2:default", "v2:weight2", "v2:recursive", "server:v2"} {
				if (eng == "v2:weight2" || eng == "v2:recursive") && !IsPlainSubj(q.U) {
					// Once (thorough tier, seed 2, beyond case 1200) the driver was killed at 53 GB while running
					// v2:recursive doc:2#owner@folder:1#viewer; not reproduced in isolation. Until it is understood the
					// forced non-default strategies are exercised with object subjects only (DESIGN 12.7).
					continue
				}
				ev := &V2Ev{CheckEv: CheckEv{Eng: eng, O: q.O, R: q.R, U: q.U, Ctx: q.Ctx, Ctxt: ctxt}}
				if eng == "server:v2" {
					sv2.RunCheck(ctx, &ev.CheckEv, ts, mg)
				} else {
					v.Base.RunCheck(ctx, &ev.CheckEv, ts, mg)
				}
				fillV2(ev, v1, cs, ts, q)
				rec.Add(ev)
				run.Evals++
				if V2RanAway.Load() {
					break // KF-28: the abandoned call keeps spawning goroutines; judge what was recorded and finish
				}
			}
			if V2RanAway.Load() {
				run.Note("KF-28: a weighted-graph Check neither answered nor stopped when cancelled (case %d); exploration cut short there, input in replays/v2-runaway-*.txt", c)
				break
			}
			if nontrivialCheck(cs, q.O, q.R) {
				run.Nontrivial(hashOf([]any{cs.Model, cs.Tuples, q}))
			}
		}
		if V2RanAway.Load() {
			break
		}
		if c < 2 {
			run.AddSample(map[string]any{"model": cs.Model.String(), "tuples": tupleStrings(cs.Tuples), "last_event": rec.Events[len(rec.Events)-1]})
		}
	}
	sum := rec.Validate(run, 16)
	run.Coverage["rule"] = "C01 input space answered by the weighted-graph engine (CheckQueryV2 with the planner forced to default / weight2 / recursive, and Server.Check with the weighted_graph_check flag, which falls back to v1); judged by TLC: object subjects must equal Chk; userset/wildcard subjects may differ from the v1 answer only if the breaking-change detector names a reason for that model and tuple key; errors must be a documented request-shape error, an accepted condition error, or lead to fallback; non-trivial as in C01"
	run.Coverage["cases"] = nCases
	run.Coverage["judged_by_tlc"] = sum.Judged
	run.Coverage["verdict_classes"] = sum.Counts
	run.Assumptions = []string{"reference = FGACore.Chk", "the breaking-change detector (v2breaking) is code under test: the spec states only the implication difference => reason reported"}
}

func fillV2(ev *V2Ev, v1 *CheckEv, cs *Case, ts *typesystem.TypeSystem, q Req) {
	ev.V1 = v1.Got
	ev.E = "V2Check"
	tk := &openfgav1.CheckRequestTupleKey{Object: q.O.String(), Relation: q.R, User: q.U.String()}
	ev.Reason, ev.XReason = detectReason(ts, tk)
	if ev.Got == "ERR" {
		switch {
		case strings.Contains(ev.Err, "userset"):
			ev.Shape = "userset"
		case strings.Contains(ev.Err, "wildcard"):
			ev.Shape = "wildcard"
		}
	}
}

func detectReason(ts *typesystem.TypeSystem, tk *openfgav1.CheckRequestTupleKey) (reason, xreason string) {
	defer func() {
		if p := recover(); p != nil {
			reason = fmt.Sprintf("PANIC:%v", p)
		}
	}()
	if strings.Contains(tk.GetUser(), "#") {
		reason = v2breaking.CheckReason(ts, tk)
	}
	return reason, v2breaking.CheckExclusionReason(ts, tk)
}

func replayC03(run *Run) {
	ctx := context.Background()
	rf := LoadReplay(run.Replay)
	v := NewVariants()
	defer v.Close()
	cs := &Case{Model: rf.Setup.Model, Tuples: rf.Setup.Tuples}
	if err := v.Base.Setup(ctx, cs.Model, cs.Tuples); err != nil {
		run.Inconclusive("setup failed: %v", err)
	}
	ts, mg, err := v.Base.Typesystem(ctx, cs.Model)
	if err != nil {
		run.Inconclusive("typesystem: %v", err)
	}
	var ev V2Ev
	if err := json.Unmarshal(rf.Event, &ev); err != nil {
		run.Inconclusive("decode: %v", err)
	}
	q := Req{O: ev.O, R: ev.R, U: ev.U, Ctx: ev.Ctx}
	v1 := &CheckEv{Eng: "v1:default", O: q.O, R: q.R, U: q.U, Ctx: q.Ctx, Ctxt: ev.Ctxt}
	v.Base.RunCheck(ctx, v1, ts, mg)
	was := ev.Got
	if strings.HasPrefix(ev.Eng, "server:") {
		v.Get(ev.Eng).RunCheck(ctx, &ev.CheckEv, ts, mg)
	} else {
		v.Base.RunCheck(ctx, &ev.CheckEv, ts, mg)
	}
	fillV2(&ev, v1, cs, ts, q)
	fmt.Printf("replay v2 Check %s#%s@%s eng=%s: recorded %s, now %s (v1 %s, reason %q) %s\n", ev.O, ev.R, ev.U, ev.Eng, was, ev.Got, ev.V1, ev.Reason, ev.Err)
	rec := &Recorder{}
	rec.Setup(rf.Setup)
	rec.Add(&ev)
	rec.Validate(run, 1)
}

var _ = structpb.NewNullValue
