package h

import (
	"bytes"
	"fmt"
	"runtime"
	"strconv"
	"sync"
	"time"

	"github.com/openfga/openfga/internal/verifhook"
)

// Gate is a deterministic scheduler for goroutines instrumented with
// verifhook.Yield: a registered goroutine reaching a scheduling point parks until
// the driver releases it, so exactly one registered goroutine runs at a time and a
// schedule chosen by the driver (or by TLC) is executed exactly.

type gateArrival struct {
	name  string
	label string // "" = the goroutine finished
}

type gateG struct {
	name    string
	at      string // label of the gate it is parked at ("" if not at a gate)
	release chan struct{}
	done    bool
}

type Gate struct {
	mu       sync.Mutex
	byID     map[uint64]*gateG
	byName   map[string]*gateG
	arrivals chan gateArrival
}

func NewGate() *Gate {
	return &Gate{byID: map[uint64]*gateG{}, byName: map[string]*gateG{}, arrivals: make(chan gateArrival, 64)}
}

func goid() uint64 {
	var buf [64]byte
	n := runtime.Stack(buf[:], false)
	// "goroutine 123 [running]:"
	b := bytes.TrimPrefix(buf[:n], []byte("goroutine "))
	i := bytes.IndexByte(b, ' ')
	id, _ := strconv.ParseUint(string(b[:i]), 10, 64)
	return id
}

// Go starts f as a registered goroutine named name. The goroutine first parks at
// the pseudo gate "start".
func (g *Gate) Go(name string, f func()) {
	gg := &gateG{name: name, release: make(chan struct{})}
	g.mu.Lock()
	g.byName[name] = gg
	g.mu.Unlock()
	go func() {
		g.mu.Lock()
		g.byID[goid()] = gg
		g.mu.Unlock()
		f()
		g.mu.Lock()
		gg.done, gg.at = true, ""
		g.mu.Unlock()
		g.arrivals <- gateArrival{name: name}
	}()
}

// Yield implements verifhook.Scheduler.
func (g *Gate) Yield(label string) {
	g.mu.Lock()
	gg := g.byID[goid()]
	if gg == nil {
		g.mu.Unlock()
		return // not one of ours
	}
	gg.at = label
	g.mu.Unlock()
	g.arrivals <- gateArrival{name: gg.name, label: label}
	<-gg.release
}

// Release lets the named goroutine pass the gate it is parked at.
func (g *Gate) Release(name string) error {
	g.mu.Lock()
	gg := g.byName[name]
	if gg == nil || gg.done || gg.at == "" {
		g.mu.Unlock()
		return fmt.Errorf("goroutine %s is not parked at a gate", name)
	}
	gg.at = ""
	g.mu.Unlock()
	gg.release <- struct{}{}
	return nil
}

// Await waits for the next arrival (a goroutine reaching a gate or finishing).
func (g *Gate) Await(d time.Duration) (gateArrival, bool) {
	t := time.NewTimer(d)
	defer t.Stop()
	select {
	case a := <-g.arrivals:
		return a, true
	case <-t.C:
		return gateArrival{}, false
	}
}

// TryAwait returns an arrival only if one is pending within a short grace period.
func (g *Gate) TryAwait(d time.Duration) (gateArrival, bool) { return g.Await(d) }

// WaitBlocked waits until the named goroutine (released from a gate) is blocked in
// the Go runtime in one of the given wait states (e.g. "select", "chan receive",
// "sync.Cond.Wait"), as reported by runtime.Stack. It reports false on timeout.
func (g *Gate) WaitBlocked(name string, d time.Duration, states ...string) bool {
	g.mu.Lock()
	var id uint64
	for k, gg := range g.byID {
		if gg.name == name {
			id = k
		}
	}
	g.mu.Unlock()
	if id == 0 {
		return false
	}
	hdr := []byte(fmt.Sprintf("goroutine %d [", id))
	deadline := time.Now().Add(d)
	buf := make([]byte, 1<<20)
	for {
		n := runtime.Stack(buf, true)
		if i := bytes.Index(buf[:n], hdr); i >= 0 {
			rest := buf[i+len(hdr) : n]
			if j := bytes.IndexByte(rest, ']'); j >= 0 {
				st := string(rest[:j])
				for _, s := range states {
					if len(st) >= len(s) && st[:len(s)] == s {
						return true
					}
				}
			}
		}
		if time.Now().After(deadline) {
			return false
		}
		time.Sleep(50 * time.Microsecond)
	}
}

func (g *Gate) Install()   { verifhook.Install(g) }
func (g *Gate) Uninstall() { verifhook.Install(nil) }

// ReleaseAll frees every parked goroutine repeatedly until all have finished or the
// deadline passes (used to let a schedule that was abandoned run to completion).
func (g *Gate) Drain(d time.Duration) bool {
	deadline := time.Now().Add(d)
	for time.Now().Before(deadline) {
		g.mu.Lock()
		allDone := true
		var parked []string
		for n, gg := range g.byName {
			if !gg.done {
				allDone = false
				if gg.at != "" {
					parked = append(parked, n)
				}
			}
		}
		g.mu.Unlock()
		if allDone {
			return true
		}
		for _, n := range parked {
			g.Release(n)
		}
		select {
		case <-g.arrivals:
		case <-time.After(20 * time.Millisecond):
		}
	}
	return false
}
