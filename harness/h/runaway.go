package h

import (
	"fmt"
	"os"
	"path/filepath"
	"sync/atomic"
	"time"
)

// V2RunawayLimit is the deadline the driver imposes on a direct CheckQueryV2 call whose caller gave none.
// Healthy requests on the generated models answer in milliseconds.
var V2RunawayLimit = 20 * time.Second

var runawaySeq atomic.Int64

// V2RanAway is set when a weighted-graph Check neither answered nor honoured its cancelled context: its goroutines
// keep multiplying, so the driver stops generating requests, has TLC judge what was recorded and finishes.
var V2RanAway atomic.Bool

// recordRunaway writes the complete input of a weighted-graph Check that did not answer (engine, request, model and
// tuples as last set up) next to the evidence, so that the request can be replayed.
func recordRunaway(ev *CheckEv) {
	n := runawaySeq.Add(1)
	a, _ := Activity.Load().(string)
	dir := filepath.Join(VerifRoot(), "replays")
	_ = os.MkdirAll(dir, 0o755)
	p := filepath.Join(dir, fmt.Sprintf("v2-runaway-%d-%d.txt", os.Getpid(), n))
	_ = os.WriteFile(p, []byte(a+"\n"), 0o644)
	fmt.Fprintf(os.Stderr, "NOTE: weighted-graph Check gave no answer within %s (eng=%s %s#%s@%s); input in %s\n",
		V2RunawayLimit, ev.Eng, ev.O.String(), ev.R, ev.U.String(), p)
	if !V2RanAway.Load() {
		// let the abandoned resolver goroutines observe the cancellation and unwind before the next request
		time.Sleep(2 * time.Second)
	}
}

func init() {
	// self-test only: VERIF_V2_LIMIT=1us makes every direct weighted-graph Check run into the limit, which
	// exercises the KF_V2Runaway path end to end (recorded input, TLC class, KNOWN-FINDING line)
	if v := os.Getenv("VERIF_V2_LIMIT"); v != "" {
		if d, err := time.ParseDuration(v); err == nil {
			V2RunawayLimit = d
		}
	}
}
