package h

import (
	"context"
	"math/rand"
	"sync"
	"time"

	"github.com/openfga/openfga/pkg/storage/memory"
)

// C09: iterator caches and shared iterators never change answers, including after
// requests cancelled at every read position of the datastore.
func C09(run *Run) {
	if run.Replay != "" {
		if replayKind(run.Replay) == "itercache" {
			iterCacheConformance(run)
			return
		}
		replayCore(run)
		return
	}
	// the iterator cache as a sequential object, including reads abandoned after the first tuple: what
	// is served later must be a complete answer of the right version (IterCacheTrace.tla)
	iterCacheConformance(run)
	r := rand.New(rand.NewSource(run.Seed))
	ds := NewCancelDS(memory.New())
	v := NewVariantsDS(ds)
	defer v.Close()
	combos := []string{"server:ic:lic:shi", "server:ic:lic", "server:shi", "server:v2:ic:shi"}
	nCases := run.Pick(40, 600)
	rec := &Recorder{}
	cancelled, positions, concurrent := 0, 0, 0
	for c := 0; c < nCases; c++ {
		ctx := context.Background()
		cs, _ := GenCase(r, c, GenOpts{MinTuples: 10, MaxTuples: 20})
		if err := v.Base.Setup(ctx, cs.Model, cs.Tuples); err != nil {
			run.Inconclusive("setup failed: %v", err)
		}
		ts, mg, err := v.Base.Typesystem(ctx, cs.Model)
		if err != nil {
			run.Inconclusive("typesystem: %v", err)
		}
		rec.Setup(cs.SetupEv())
		combo := combos[c%len(combos)]
		env := v.Get(combo)
		reqs := GenRequests(r, cs, 8)
		askAll := func() {
			for _, q := range reqs {
				if combo == "server:v2:ic:shi" && !IsPlainSubj(q.U) {
					continue
				}
				ev := &CheckEv{Eng: combo, O: q.O, R: q.R, U: q.U, Ctx: q.Ctx}
				if combo == "server:v2:ic:shi" { // judged as in C03 (known v2 deviations are classified there)
					v1 := &CheckEv{Eng: "v1:default", O: q.O, R: q.R, U: q.U, Ctx: q.Ctx}
					v.Base.RunCheck(ctx, v1, ts, mg)
					vev := &V2Ev{CheckEv: *ev}
					env.RunCheck(ctx, &vev.CheckEv, ts, mg)
					fillV2(vev, v1, cs, ts, q)
					rec.Add(vev)
				} else {
					env.RunCheck(ctx, ev, ts, mg)
					rec.Add(ev)
				}
				run.Evals++
			}
			q := reqs[0]
			if IsPlainSubj(q.U) || combo != "server:v2:ic:shi" {
				for _, eng := range []string{"classic", "pipeline"} {
					lo := &ListObjectsEv{Eng: eng + combo[len("server"):], T: q.O.T, R: q.R, U: q.U, Ctx: q.Ctx}
					if v.RunLO(ctx, lo) {
						rec.Add(lo)
						run.Evals++
					}
				}
			}
		}
		concurrentPhase := func() {
			// the same requests from six goroutines at once, half of which are cancelled on the way: what the
			// others are told must not depend on it (shared iterators and cache fills are shared between them)
			if combo != "server:v2:ic:shi" {
				// during this phase the datastore behaves like a SQL backend: reads take a little time and an
				// iterator read under a dead context fails
				jr := rand.New(rand.NewSource(run.Seed + int64(c)))
				var jmu sync.Mutex
				ds.StrictCtx = true
				ds.Jitter = func() time.Duration {
					jmu.Lock()
					defer jmu.Unlock()
					return time.Duration(jr.Intn(120)) * time.Microsecond
				}
				var wg sync.WaitGroup
				outs := make([][]*CheckEv, 6)
				for g := 0; g < 6; g++ {
					wg.Add(1)
					order := r.Perm(len(reqs))
					cancelAfter := time.Duration(50+r.Intn(600)) * time.Microsecond
					go func(g int, order []int, cancelAfter time.Duration) {
						defer wg.Done()
						gctx := ctx
						if g%2 == 1 {
							c2, cancel := context.WithTimeout(ctx, cancelAfter)
							defer cancel()
							gctx = c2
						}
						for _, i := range order {
							q := reqs[i]
							ev := &CheckEv{Eng: combo, O: q.O, R: q.R, U: q.U, Ctx: q.Ctx}
							env.RunCheck(gctx, ev, ts, mg)
							if g%2 == 0 {
								outs[g] = append(outs[g], ev)
							}
						}
					}(g, order, cancelAfter)
				}
				wg.Wait()
				for _, evs := range outs {
					for _, ev := range evs {
						rec.Add(ev)
						run.Evals++
						concurrent++
					}
				}
				ds.StrictCtx, ds.Jitter = false, nil
				time.Sleep(2 * time.Millisecond)
				askAll()
			}
		}
		concurrentPhase() // on cold caches: every goroutine reads through the shared iterators
		// cancel the first request (and a ListObjects) at every read position, then ask everything
		victim := reqs[0]
		most := -1
		for _, q := range GenRequests(r, cs, 40) { // the request that reads the most (on the uncached base server)
			before := ds.Reads
			ev := &CheckEv{Eng: "server", O: q.O, R: q.R, U: q.U, Ctx: q.Ctx}
			v.Base.RunCheck(ctx, ev, ts, mg)
			if n := ds.Reads - before; n > most && (combo != "server:v2:ic:shi" || IsPlainSubj(q.U)) {
				most, victim = n, q
			}
		}
		reqs[0] = victim
		for k := 1; k <= 40; k++ {
			cctx, cancel := context.WithCancel(ctx)
			ds.Arm(k, cancel)
			ev := &CheckEv{Eng: combo, O: victim.O, R: victim.R, U: victim.U, Ctx: victim.Ctx}
			env.RunCheck(cctx, ev, ts, mg)
			trig, _ := ds.Disarm()
			cancel()
			if !trig {
				// ran undisturbed: judged like any other answer (the weighted-graph engine as in C03)
				if combo == "server:v2:ic:shi" {
					if IsPlainSubj(victim.U) {
						v1 := &CheckEv{Eng: "v1:default", O: victim.O, R: victim.R, U: victim.U, Ctx: victim.Ctx}
						v.Base.RunCheck(ctx, v1, ts, mg)
						vev := &V2Ev{CheckEv: *ev}
						fillV2(vev, v1, cs, ts, victim)
						rec.Add(vev)
						run.Evals++
					}
				} else {
					rec.Add(ev)
					run.Evals++
				}
				break
			}
			cancelled++
			positions++
			if k%3 == 0 {
				lctx, lcancel := context.WithCancel(ctx)
				ds.Arm(k, lcancel)
				lo := &ListObjectsEv{Eng: "classic" + combo[len("server"):], T: victim.O.T, R: victim.R, U: victim.U, Ctx: victim.Ctx}
				v.Get(lo.Eng).RunListObjects(lctx, lo)
				ds.Disarm()
				lcancel()
			}
			time.Sleep(2 * time.Millisecond) // background cache fills finish on their own
			if k%4 == 1 {
				askAll()
			}
		}
		time.Sleep(5 * time.Millisecond)
		askAll()
		askAll()
		concurrentPhase()
		run.Nontrivial(hashOf([]any{cs.Model, cs.Tuples, reqs, combo}))
		if c < 2 {
			run.AddSample(map[string]any{"model": cs.Model.String(), "tuples": tupleStrings(cs.Tuples), "combo": combo, "victim": victim})
		}
	}
	sum := rec.Validate(run, 16)
	run.Coverage["rule"] = "C01 cases on an unchanged store with the Check iterator cache, the ListObjects iterator cache and shared iterators on (four combinations incl. the weighted-graph engine); the first request of each history is cancelled at every read position k = 1, 2, ... of a counting datastore wrapper (Read*, iterator Next/Head) until it runs undisturbed, a ListObjects likewise at every third position; after the cancellations (background cache fills given time to finish) and at the end, all requests of the history are asked repeatedly and every answer is judged by TLC against Chk; non-trivial = distinct (case, requests, combination)"
	run.Coverage["cases"] = nCases
	run.Coverage["cancelled_requests"] = cancelled
	run.Coverage["cancel_positions"] = positions
	run.Coverage["answers_of_concurrent_uncancelled_requests"] = concurrent
	run.Coverage["judged_by_tlc"] = sum.Judged
	run.Coverage["verdict_classes"] = sum.Counts
	run.Assumptions = []string{"reference = FGACore.Chk", "background cache fills are given 2-5 ms to finish (not awaited explicitly)", "the content of individual iterator-cache entries is not inspected; a partial entry shows up as a wrong answer of a later request"}
}
