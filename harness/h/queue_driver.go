package h

import (
	"bytes"
	"context"
	"encoding/json"
	"fmt"
	"math/rand"
	"path/filepath"
	"sort"
	"strings"
	"time"

	"github.com/openfga/openfga/internal/containers/mpmc"
)

// ---------------------------------------------------------------- gated execution of mpmc.Queue

type qItem struct {
	P string `json:"p"`
	K int    `json:"k"`
}

type qCfg struct {
	Name      string
	Producers []string
	Consumers []string
	Closers   []string
	Cap, Ext  int
	ItemsPer  int
	RecvPer   int
}

type qState struct {
	Head  int64   `json:"head"`
	Tail  int64   `json:"tail"`
	Cap   int     `json:"cap"`
	Ext   int     `json:"ext"`
	Seq   []int64 `json:"seq"`
	Full  int     `json:"full"`
	Empty int     `json:"empty"`
	Done  bool    `json:"done"`
}

type qStep struct {
	E       string  `json:"e"`
	P       string  `json:"p"`
	L       string  `json:"l"`
	Blocked bool    `json:"blocked"`
	St      *qState `json:"st"`
	Ret     *qItem  `json:"ret,omitempty"`
	Woke    string  `json:"woke"` // S_sig / R_sig: the parked goroutine that received the token
}

func snap(q *mpmc.Queue[qItem]) *qState {
	s := q.VerifSnapshot()
	return &qState{Head: s.Head, Tail: s.Tail, Cap: s.Capacity, Ext: s.Extended, Seq: s.Seq, Full: s.FullTokens, Empty: s.EmptyTokens, Done: s.Done}
}

var rlockLabels = map[string]bool{"S_rl": true, "S_rl2": true, "R_rl": true, "R_rl2": true}
var runlockLabels = map[string]bool{"S_ok": true, "S_fail": true, "S_ru": true, "R_ok": true, "R_fail": true, "R_ru": true}
var wlockLabels = map[string]bool{"S_xl": true, "C_l": true}
var wunlockLabels = map[string]bool{"S_xu": true, "C_ok": true}

// qRun is the outcome of one gated run.
type qRun struct {
	Events   []any
	Finished bool
	Hang     string // non-empty: a released goroutine neither reached a gate nor blocked as predicted
	Recv     map[string][]qItem
	SentOK   map[string][]qItem
	Closed   map[string]int // consumers: number of Recv calls that reported closed
}

// runQueueSchedule executes one schedule. choose picks the next goroutine among the
// enabled ones (script == nil: random by r; else follows the script of names, and a
// script step that is not enabled ends the run with Hang = "script...").
func runQueueSchedule(cfg qCfg, r *rand.Rand, script []string) *qRun {
	q := mpmc.MustQueue[qItem](cfg.Cap, cfg.Ext)
	g := NewGate()
	g.Install()
	defer g.Uninstall()
	run := &qRun{Recv: map[string][]qItem{}, SentOK: map[string][]qItem{}, Closed: map[string]int{}}
	ctx := context.Background()
	lastRet := map[string]*qItem{}
	for _, p := range cfg.Producers {
		p := p
		g.Go(p, func() {
			for k := 1; k <= cfg.ItemsPer; k++ {
				g.Yield("PLoop")
				it := qItem{P: p, K: k}
				if q.Send(ctx, it) {
					run.SentOK[p] = append(run.SentOK[p], it)
				}
			}
			g.Yield("PLoop")
		})
	}
	for _, c := range cfg.Consumers {
		c := c
		g.Go(c, func() {
			for k := 0; k < cfg.RecvPer; k++ {
				g.Yield("CLoop")
				it, ok := q.Recv(ctx)
				if ok {
					cp := it
					lastRet[c] = &cp
					run.Recv[c] = append(run.Recv[c], it)
				} else {
					run.Closed[c]++
				}
			}
			g.Yield("CLoop")
		})
	}
	for _, x := range cfg.Closers {
		g.Go(x, func() { q.Close() })
	}
	n := len(cfg.Producers) + len(cfg.Consumers) + len(cfg.Closers)
	at := map[string]string{} // goroutine -> gate label it is parked at
	parked := map[string]string{} // goroutine blocked on a token channel -> "E" / "F"
	finished := map[string]bool{}
	for i := 0; i < n; i++ {
		a, ok := g.Await(5 * time.Second)
		if !ok {
			run.Hang = "startup"
			return run
		}
		at[a.name] = a.label
	}
	readers, writer := 0, false
	run.Events = append(run.Events, map[string]any{"e": "Reset", "cfg": cfg.Name})
	si := 0
	for steps := 0; steps < 2000; steps++ {
		// enabled goroutines
		var en []string
		for name, lab := range at {
			switch {
			case rlockLabels[lab]:
				if !writer {
					en = append(en, name)
				}
			case wlockLabels[lab]:
				if !writer && readers == 0 {
					en = append(en, name)
				}
			default:
				en = append(en, name)
			}
		}
		sort.Strings(en)
		if len(en) == 0 {
			break
		}
		var w string
		if script != nil {
			if si >= len(script) {
				break
			}
			w = script[si]
			si++
			if _, ok := parked[w]; ok {
				continue // the script's X_parked step: already logged when the goroutine woke up
			}
			ok := false
			for _, e := range en {
				ok = ok || e == w
			}
			if !ok {
				run.Hang = fmt.Sprintf("script step %d: %s is not schedulable (at %q)", si, w, at[w])
				break
			}
		} else {
			w = en[r.Intn(len(en))]
		}
		lab := at[w]
		before := snap(q)
		delete(at, w)
		if err := g.Release(w); err != nil {
			run.Hang = err.Error()
			break
		}
		// lock bookkeeping (the released goroutine is the only one running)
		switch {
		case rlockLabels[lab]:
			readers++
		case runlockLabels[lab]:
			readers--
		case wlockLabels[lab]:
			writer = true
		case wunlockLabels[lab]:
			writer = false
		}
		step := &qStep{E: "Step", P: w, L: lab}
		willBlock := (lab == "R_park" && before.Empty == 0 && !before.Done) || (lab == "S_park" && before.Full == 0 && !before.Done)
		if willBlock {
			// make sure it has really blocked in the channel receive before anything else runs
			if !g.WaitBlocked(w, 5*time.Second, "select", "chan receive") {
				run.Hang = fmt.Sprintf("%s released from %s neither blocked nor reached a scheduling point", w, lab)
				break
			}
			step.Blocked = true
			if lab == "R_park" {
				parked[w] = "E"
			} else {
				parked[w] = "F"
			}
		} else {
			a, ok := g.Await(5 * time.Second)
			if !ok {
				run.Hang = fmt.Sprintf("%s released from %s did not reach its next scheduling point", w, lab)
				step.St = snap(q)
				run.Events = append(run.Events, step)
				break
			}
			if a.name != w {
				run.Hang = fmt.Sprintf("unexpected arrival of %s while %s was running", a.name, w)
				break
			}
			if a.label == "" {
				finished[w] = true
			} else {
				at[w] = a.label
			}
		}
		step.St = snap(q)
		if lab == "R_ok" {
			step.Ret = lastRet[w]
		}
		run.Events = append(run.Events, step)
		// wake-ups caused by this step
		expect := 0
		switch lab {
		case "S_sig":
			if countParked(parked, "E") > 0 && before.Empty == 0 {
				expect = 1
			}
		case "R_sig":
			if countParked(parked, "F") > 0 && before.Full == 0 && !before.Done {
				expect = 1
			}
		case "C_cl":
			if !before.Done {
				expect = len(parked)
			}
		}
		for i := 0; i < expect; i++ {
			a, ok := g.Await(5 * time.Second)
			if !ok {
				run.Hang = fmt.Sprintf("after %s by %s a parked goroutine should have been woken but none arrived", lab, w)
				break
			}
			kind := parked[a.name]
			if lab != "C_cl" {
				step.Woke = a.name
			}
			delete(parked, a.name)
			at[a.name] = a.label
			pl := "R_parked"
			if kind == "F" {
				pl = "S_parked"
			}
			run.Events = append(run.Events, &qStep{E: "Step", P: a.name, L: pl, St: snap(q)})
		}
		if run.Hang != "" {
			break
		}
	}
	run.Finished = len(finished) == n
	run.Events = append(run.Events, map[string]any{"e": "RunEnd", "finished": run.Finished, "hang": run.Hang, "parked": len(parked)})
	// let whatever is left run to completion so that goroutines do not leak into the next run
	if !run.Finished {
		q.Close()
		g.Drain(2 * time.Second)
	}
	return run
}

func countParked(m map[string]string, kind string) int {
	n := 0
	for _, k := range m {
		if k == kind {
			n++
		}
	}
	return n
}

func (c qCfg) tlcCfg() []byte {
	set := func(xs []string) string {
		var q []string
		for _, x := range xs {
			q = append(q, fmt.Sprintf("%q", x))
		}
		return "{" + strings.Join(q, ", ") + "}"
	}
	var b bytes.Buffer
	fmt.Fprintf(&b, "SPECIFICATION TSpec\nPOSTCONDITION TraceAccepted\nCHECK_DEADLOCK FALSE\nCONSTANTS\n")
	fmt.Fprintf(&b, "  Producers = %s\n  Consumers = %s\n  Closers = %s\n", set(c.Producers), set(c.Consumers), set(c.Closers))
	fmt.Fprintf(&b, "  Cap0 = %d\n  Extensions = %d\n  ItemsPer = %d\n  RecvPer = %d\n", c.Cap, c.Ext, c.ItemsPer, c.RecvPer)
	return b.Bytes()
}

var QueueSpecDir = func() string { return filepath.Join(VerifRoot(), "spec", "queue") }

// validateQueueRuns checks the recorded runs of one configuration against MPMCTrace.
func validateQueueRuns(run *Run, cfg qCfg, events []any) *TraceSummary {
	var buf bytes.Buffer
	enc := json.NewEncoder(&buf)
	for _, e := range events {
		if err := enc.Encode(e); err != nil {
			run.Inconclusive("encode: %v", err)
		}
	}
	fmt.Fprintln(&buf, `{"e":"End"}`)
	out, err := TLCRun{SpecDirs: []string{QueueSpecDir()}, Module: "MPMCTrace", Config: "MPMCTrace_gen.cfg",
		Files: map[string][]byte{"trace.ndjson": buf.Bytes(), "MPMCTrace_gen.cfg": cfg.tlcCfg()}, Workers: 1, Timeout: 15 * time.Minute, HeapMB: 4000}.Run()
	if err != nil {
		run.Inconclusive("tlc: %v\n%s", err, tail(out))
	}
	sum, err := parseTraceOut(out, len(events)+1)
	if err != nil {
		run.Inconclusive("queue trace validation (%s): %v", cfg.Name, err)
	}
	return sum
}
