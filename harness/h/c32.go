package h

import (
	"context"
	"encoding/json"
	"fmt"
	openfgav1 "github.com/openfga/api/proto/openfga/v1"
	"google.golang.org/grpc/metadata"
	"math/rand"
	"strings"

	authzenv1 "github.com/openfga/api/proto/authzen/v1"
	"google.golang.org/grpc/codes"
	"google.golang.org/grpc/status"
	"google.golang.org/protobuf/types/known/structpb"

	"github.com/openfga/openfga/pkg/server"
)

// the model of the property-mapping scenario: the condition's parameters are exactly the
// names AuthZEN gives to subject / resource / action properties
func authzenPropModel() *Model {
	cz := CondDef{Name: "cz", Params: []Param{{"subject_x", "int"}, {"resource_x", "int"}, {"action_x", "int"}},
		Expr: &Expr{K: "and", A: &Expr{K: "lt", A: &Expr{K: "param", N: "subject_x"}, B: &Expr{K: "lit", Ty: "int", V: int64(10)}},
			B: &Expr{K: "or", A: &Expr{K: "ge", A: &Expr{K: "param", N: "resource_x"}, B: &Expr{K: "param", N: "action_x"}},
				B: &Expr{K: "eq", A: &Expr{K: "param", N: "action_x"}, B: &Expr{K: "lit", Ty: "int", V: int64(0)}}}}}
	cz.Cel = cz.Expr.CEL()
	return &Model{Types: []string{"user", "doc"}, Conds: []CondDef{cz},
		Rels: []RelDef{{T: "doc", R: "viewer", Rw: &Rewrite{K: "this"}, Restr: []Restr{{T: "user", Cond: "cz"}, {T: "user", WC: true, Cond: "cz"}}}}}
}

func propsStruct(x *int64) *structpb.Struct {
	if x == nil {
		return nil
	}
	s, _ := structpb.NewStruct(map[string]any{"x": float64(*x)})
	return s
}

func gotOfEval(resp *authzenv1.EvaluationResponse) string {
	if resp.GetContext() != nil && resp.GetContext().GetFields()["error"] != nil {
		return "ERR"
	}
	if resp.GetDecision() {
		return "T"
	}
	return "F"
}

func C32(run *Run) {
	ctx := context.Background()
	r := rand.New(rand.NewSource(run.Seed))
	v := NewVariants()
	defer v.Close()
	env := NewEnv(v.Base.DS, server.WithExperimentals("authzen"))
	defer env.Close()
	nCases := run.Pick(80, 1500)
	rec := &Recorder{}
	skippedInvalid := 0
	pinnedCases, emptyBatches := 0, 0
	for c := 0; c < nCases; c++ {
		var cs *Case
		propCase := c%8 == 7
		if propCase {
			m := authzenPropModel()
			cs = &Case{N: c, Model: m}
			for _, id := range []string{"1", "2", "3"} {
				for _, u := range []Subj{{"user", "a", ""}, {"user", "*", ""}} {
					if chance(r, 0.6) {
						t := Tuple{O: Obj{"doc", id}, R: "viewer", U: u, C: "cz", Cctx: Ctx{}}
						if chance(r, 0.4) {
							t.Cctx[pick(r, []string{"subject_x", "resource_x", "action_x"})] = NumVal(int64(r.Intn(14)))
						}
						cs.Tuples = append(cs.Tuples, t)
					}
				}
			}
		} else {
			cs, _ = GenCase(r, c, GenOpts{MinTuples: 8})
		}
		if err := env.Setup(ctx, cs.Model, cs.Tuples); err != nil {
			run.Inconclusive("setup failed: %v", err)
		}
		ts, mg, err := env.Typesystem(ctx, cs.Model)
		if err != nil {
			run.Inconclusive("typesystem: %v", err)
		}
		rec.Setup(cs.SetupEv())
		// every fourth case the store gets a second, newer model: the AuthZEN calls pin the case's model
		// through the Openfga-Authorization-Model-Id header, as the native calls do through the request field
		actx := ctx
		pinned := false
		if c%4 == 1 && !propCase {
			other, _ := GenCase(rand.New(rand.NewSource(run.Seed*1000+int64(c))), c, GenOpts{})
			pm := other.Model.ToProto()
			if _, err := env.S.WriteAuthorizationModel(ctx, &openfgav1.WriteAuthorizationModelRequest{StoreId: env.StoreID, SchemaVersion: pm.GetSchemaVersion(), TypeDefinitions: pm.GetTypeDefinitions(), Conditions: pm.GetConditions()}); err == nil {
				actx = metadata.NewIncomingContext(ctx, metadata.Pairs(strings.ToLower(server.AuthorizationModelIDHeader), env.ModelID))
				pinned = true
				pinnedCases++
			}
		}
		_ = pinned
		var reqs []Req
		if propCase {
			for i := 0; i < 14; i++ {
				reqs = append(reqs, Req{O: Obj{"doc", pick(r, []string{"1", "2", "3"})}, R: "viewer", U: Subj{"user", pick(r, []string{"a", "b"}), ""}})
			}
		} else {
			reqs = GenRequests(r, cs, 14)
		}
		// ---- mapped requests: subject / resource / action (+ properties) and request context
		type mapped struct {
			q    Req
			subj *authzenv1.Subject
			res  *authzenv1.Resource
			act  *authzenv1.Action
			rctx *structpb.Struct
			pctx Ctx // context contributed by properties (property scenario)
			rc   Ctx // request context as sent
		}
		var ms []mapped
		for _, q := range reqs {
			m := mapped{q: q}
			sid := q.U.ID
			if q.U.Rel != "" {
				sid += "#" + q.U.Rel
			}
			m.subj = &authzenv1.Subject{Type: q.U.T, Id: sid}
			m.res = &authzenv1.Resource{Type: q.O.T, Id: q.O.ID}
			m.act = &authzenv1.Action{Name: q.R}
			if propCase {
				// effective context by the documented precedence: subject_, resource_, action_ properties, then the request context wins
				eff := Ctx{}
				var sx, rx, ax *int64
				for i, p := range []**int64{&sx, &rx, &ax} {
					if chance(r, 0.75) {
						n := int64(r.Intn(14))
						*p = &n
						eff[[]string{"subject_x", "resource_x", "action_x"}[i]] = NumVal(n)
					}
				}
				m.subj.Properties, m.res.Properties, m.act.Properties = propsStruct(sx), propsStruct(rx), propsStruct(ax)
				rc := Ctx{}
				for _, k := range []string{"subject_x", "resource_x", "action_x"} {
					if chance(r, 0.3) {
						rc[k] = NumVal(int64(r.Intn(14)))
						eff[k] = rc[k]
					}
				}
				if len(rc) > 0 {
					m.rctx = rc.ToProto()
				}
				m.pctx, m.rc = Ctx{}, rc
				for k, v := range eff {
					if _, over := rc[k]; !over {
						m.pctx[k] = v
					}
				}
				// (a property overridden by the request context is not recoverable from eff; keep the original)
				for i, p := range []*int64{sx, rx, ax} {
					if p != nil {
						m.pctx[[]string{"subject_x", "resource_x", "action_x"}[i]] = NumVal(*p)
					}
				}
				m.q.Ctx = eff
			} else {
				m.rctx = normCtx(q.Ctx).ToProto()
				if len(q.Ctx) == 0 {
					m.rctx = nil
				}
			}
			ms = append(ms, m)
		}
		native := func(m mapped) *CheckEv {
			solo := &CheckEv{Eng: "server", O: m.q.O, R: m.q.R, U: m.q.U, Ctx: m.q.Ctx}
			env.RunCheck(ctx, solo, ts, mg)
			return solo
		}
		// ---- single evaluations
		solos := map[int]*CheckEv{}
		for i, m := range ms {
			resp, err := env.S.Evaluation(actx, &authzenv1.EvaluationRequest{StoreId: env.StoreID, Subject: m.subj, Resource: m.res, Action: m.act, Context: m.rctx})
			if err != nil && status.Code(err) == codes.InvalidArgument && strings.Contains(err.Error(), "EvaluationRequest") {
				skippedInvalid++ // the AuthZEN request schema refuses this subject / resource form: no mapped request
				continue
			}
			solo := native(m)
			solos[i] = solo
			ev := &CheckEv{E: "Check", Eng: "authzen:evaluation", O: m.q.O, R: m.q.R, U: m.q.U, Ctx: normCtx(m.q.Ctx), Ctxt: []Tuple{}, Solo: solo.Got}
			switch {
			case err != nil:
				ev.Got, ev.Errk, ev.Err = "ERR", ErrKind(err), err.Error()
			case resp.GetDecision():
				ev.Got = "T"
			default:
				ev.Got = "F"
			}
			rec.Add(ev)
			rec.Add(solo)
			run.Evals += 2
			run.Nontrivial(hashOf([]any{cs.Model, cs.Tuples, m.q}))
		}
		// ---- batched evaluations under the three semantics, with top-level defaults for some fields
		for _, sem := range []string{"all", "deny_first", "permit_first"} {
			var idx []int
			for i := range ms {
				if _, ok := solos[i]; ok && chance(r, 0.6) {
					idx = append(idx, i)
				}
			}
			if len(idx) == 0 {
				continue
			}
			req := &authzenv1.EvaluationsRequest{StoreId: env.StoreID}
			top := ms[idx[0]]
			req.Subject, req.Action = top.subj, top.act
			if chance(r, 0.6) {
				req.Context = top.rctx // items without a context of their own inherit it
			}
			bev := map[string]any{"e": "Evals", "eng": "authzen:evaluations:" + sem, "sem": sem, "err": false}
			var want []string
			for _, i := range idx {
				m := ms[i]
				it := &authzenv1.EvaluationsItemRequest{Resource: m.res, Context: m.rctx}
				// leave out fields equal to the top-level defaults now and then (they must be inherited)
				if !(m.subj == top.subj && chance(r, 0.5)) {
					it.Subject = m.subj
				}
				if !(m.act == top.act && chance(r, 0.5)) {
					it.Action = m.act
				}
				eff := m
				if it.Context == nil && req.Context != nil {
					// the mapped request of this item carries the top-level request context
					if propCase {
						c := Ctx{}
						for k, v := range m.pctx {
							c[k] = v
						}
						for k, v := range top.rc {
							c[k] = v
						}
						eff.q.Ctx = c
					} else {
						eff.q.Ctx = top.q.Ctx
					}
				}
				req.Evaluations = append(req.Evaluations, it)
				solo := native(eff)
				want = append(want, solo.Got)
				rec.Add(solo)
			}
			switch sem {
			case "deny_first":
				req.Options = &authzenv1.EvaluationsOptions{EvaluationsSemantic: authzenv1.EvaluationsSemantic_deny_on_first_deny}
			case "permit_first":
				req.Options = &authzenv1.EvaluationsOptions{EvaluationsSemantic: authzenv1.EvaluationsSemantic_permit_on_first_permit}
			default:
				if chance(r, 0.5) {
					req.Options = &authzenv1.EvaluationsOptions{EvaluationsSemantic: authzenv1.EvaluationsSemantic_execute_all}
				}
			}
			resp, err := env.S.Evaluations(actx, req)
			got := []string{}
			if err != nil {
				bev["err"], bev["errmsg"] = true, err.Error()
			}
			for _, e := range resp.GetEvaluations() {
				got = append(got, gotOfEval(e))
			}
			bev["got"], bev["solos"] = got, want
			rec.Add(bev)
			run.Evals++
		}
		// ---- a batch without items behaves like the single evaluation of its top-level fields
		for k := 0; k < 3; k++ {
			i := r.Intn(len(ms))
			if _, ok := solos[i]; !ok {
				continue
			}
			m := ms[i]
			solo := native(m)
			rec.Add(solo)
			resp, err := env.S.Evaluations(actx, &authzenv1.EvaluationsRequest{StoreId: env.StoreID, Subject: m.subj, Resource: m.res, Action: m.act, Context: m.rctx})
			got := []string{}
			if err != nil {
				got = append(got, "ERR")
			}
			for _, e := range resp.GetEvaluations() {
				got = append(got, gotOfEval(e))
			}
			rec.Add(map[string]any{"e": "Evals", "eng": "authzen:evaluations:empty", "sem": "all", "err": false, "got": got, "solos": []string{solo.Got}})
			run.Evals++
			emptyBatches++
		}
		// ---- searches
		for k := 0; k < 6; k++ {
			m := ms[r.Intn(len(ms))]
			if m.q.U.Rel == "" && m.q.U.ID != "*" || chance(r, 0.3) {
				nat := &ListObjectsEv{Eng: "server", T: m.q.O.T, R: m.q.R, U: m.q.U, Ctx: m.q.Ctx}
				env.RunListObjects(ctx, nat)
				ev := &ListObjectsEv{E: "ListObjects", Eng: "authzen:resourcesearch", T: m.q.O.T, R: m.q.R, U: m.q.U, Ctx: normCtx(m.q.Ctx), Ctxt: []Tuple{}, Got: []string{}}
				var resp *authzenv1.ResourceSearchResponse
				var err error
				if !Watchdog(HangLimit, func() {
					resp, err = env.S.ResourceSearch(actx, &authzenv1.ResourceSearchRequest{StoreId: env.StoreID, Subject: m.subj, Action: m.act,
						Resource: &authzenv1.ResourceFilter{Type: m.q.O.T, Properties: m.res.GetProperties()}, Context: m.rctx})
				}) {
					ev.IsErr, ev.Errk = true, "hang"
				} else if err != nil {
					if status.Code(err) == codes.InvalidArgument && strings.Contains(err.Error(), "ResourceSearchRequest") {
						skippedInvalid++
						continue
					}
					ev.IsErr, ev.Errk, ev.Err = true, ErrKind(err), err.Error()
				}
				for _, x := range resp.GetResults() {
					if x.GetType() != m.q.O.T {
						ev.Got = append(ev.Got, x.GetType()+":"+x.GetId()) // wrong type: will not match the reference
					} else {
						ev.Got = append(ev.Got, x.GetId())
					}
				}
				rec.Add(nat)
				rec.Add(withNative(ev, map[string]any{"err": nat.IsErr, "got": nat.Got}))
				run.Evals += 2
			}
			ft := m.q.U.T
			nat := &ListUsersEv{Eng: "server", O: m.q.O, R: m.q.R, FT: ft, Ctx: m.q.Ctx}
			env.RunListUsers(ctx, nat)
			ev := &ListUsersEv{E: "ListUsers", Eng: "authzen:subjectsearch", O: m.q.O, R: m.q.R, FT: ft, Ctx: normCtx(m.q.Ctx), Ctxt: []Tuple{}, Got: []Subj{}}
			resp, err := env.S.SubjectSearch(actx, &authzenv1.SubjectSearchRequest{StoreId: env.StoreID, Resource: m.res, Action: m.act,
				Subject: &authzenv1.SubjectFilter{Type: ft, Properties: m.subj.GetProperties()}, Context: m.rctx})
			if err != nil {
				if status.Code(err) == codes.InvalidArgument && strings.Contains(err.Error(), "SubjectSearchRequest") {
					skippedInvalid++
					continue
				}
				ev.IsErr, ev.Errk, ev.Err = true, ErrKind(err), err.Error()
			}
			for _, x := range resp.GetResults() {
				ev.Got = append(ev.Got, Subj{T: x.GetType(), ID: x.GetId()})
			}
			natGot := []string{}
			for _, s := range nat.Got {
				natGot = append(natGot, s.String())
			}
			_ = natGot
			rec.Add(nat)
			rec.Add(withNative(ev, map[string]any{"err": nat.IsErr, "got": nat.Got}))
			run.Evals += 2
		}
		if c < 2 {
			run.AddSample(map[string]any{"model": cs.Model.String(), "last_event": rec.Events[len(rec.Events)-1]})
		}
	}
	sum := rec.Validate(run, 16)
	run.Coverage["rule"] = "C01 cases plus a property-mapping scenario (condition parameters named subject_x / resource_x / action_x, properties on subject, resource and action, request context overriding them); AuthZEN Evaluation for every generated native request (object, typed-wildcard and userset subjects), Evaluations under execute_all / deny_on_first_deny / permit_on_first_permit with inherited top-level fields, SubjectSearch and ResourceSearch; TLC (ApiTrace.tla): every decision equals the native Check of the mapped request issued in the same run and the reference Chk; batched responses equal the native outcomes cut at the first deny / permit; search results equal the native ListUsers / ListObjects result and the reference; non-trivial = distinct (model, tuples, request)"
	run.Coverage["cases"] = nCases
	run.Coverage["skipped_by_authzen_request_schema"] = skippedInvalid
	run.Coverage["cases_with_pinned_older_model"] = pinnedCases
	run.Coverage["batches_without_items"] = emptyBatches
	run.Coverage["judged_by_tlc"] = sum.Judged
	run.Coverage["verdict_classes"] = sum.Counts
	run.Assumptions = []string{"reference = FGACore.Chk", "in three of four cases the model id is the store's latest model (no header); in the fourth an older model is pinned by header", "requests the AuthZEN schema itself refuses have no mapped native request and are skipped (counted)"}
}

// withNative renders ev with an extra "native" field (the native API's result for the mapped request).
func withNative(ev any, native map[string]any) map[string]any {
	b, _ := json.Marshal(ev)
	m := map[string]any{}
	json.Unmarshal(b, &m)
	m["native"] = native
	return m
}

var _ = fmt.Sprintf
