package h

import (
	"context"
	"database/sql"
	"database/sql/driver"
	"errors"
	"os"
	"sync"
	"syscall"

	_ "modernc.org/sqlite"
)

// Fault-injecting database/sql driver wrapped around the real modernc sqlite
// driver. Every driver call made on behalf of the datastore (BeginTx, Exec,
// Query, Prepare'd statement Exec/Query, Commit, Rollback) is a "statement
// boundary". When armed, the k-th boundary either
//
//	fail-pre   returns an error without executing the call
//	fail-post  executes the call and then returns an error (e.g. a commit whose
//	           acknowledgement is lost)
//	kill       kills the process with SIGKILL before executing the call
//
// so every statement boundary of the write transaction can be enumerated as a
// failure or crash point without touching the repository's sqlite.go.

var ErrInjected = errors.New("verif: injected database fault")

type Injector struct {
	mu        sync.Mutex
	armed     bool
	mode      string
	at        int
	count     int
	Triggered bool
	Log       []string // boundary names seen while armed

	// row faults (separate from the statement boundaries): the rowAt-th row fetch of any query fails
	rowArmed        bool
	rowAt, rowCount int
	RowTriggered    bool
}

// ArmRow makes the at-th row fetch (driver.Rows.Next) from now on fail once.
func (i *Injector) ArmRow(at int) {
	i.mu.Lock()
	defer i.mu.Unlock()
	i.rowArmed, i.rowAt, i.rowCount, i.RowTriggered = true, at, 0, false
}

// DisarmRow stops row-fault injection and reports whether it fired.
func (i *Injector) DisarmRow() bool {
	i.mu.Lock()
	defer i.mu.Unlock()
	i.rowArmed = false
	return i.RowTriggered
}

func (i *Injector) hitRow() bool {
	i.mu.Lock()
	defer i.mu.Unlock()
	if !i.rowArmed {
		return false
	}
	i.rowCount++
	if i.rowCount == i.rowAt {
		i.RowTriggered = true
		i.rowArmed = false
		return true
	}
	return false
}

type faultRows struct{ driver.Rows }

func (r *faultRows) Next(dest []driver.Value) error {
	if Inj.hitRow() {
		return ErrInjected
	}
	return r.Rows.Next(dest)
}

var Inj = &Injector{}

func (i *Injector) Arm(mode string, at int) {
	i.mu.Lock()
	defer i.mu.Unlock()
	i.armed, i.mode, i.at, i.count, i.Triggered, i.Log = true, mode, at, 0, false, nil
}

// Disarm stops injection and reports whether the fault fired and how many boundaries were seen.
func (i *Injector) Disarm() (triggered bool, seen int, log []string) {
	i.mu.Lock()
	defer i.mu.Unlock()
	i.armed = false
	return i.Triggered, i.count, i.Log
}

// hit is called at each boundary; it returns (failBefore, failAfter).
func (i *Injector) hit(name string) (pre, post bool) {
	i.mu.Lock()
	defer i.mu.Unlock()
	if !i.armed {
		return false, false
	}
	i.count++
	i.Log = append(i.Log, name)
	if i.count != i.at {
		return false, false
	}
	i.Triggered = true
	switch i.mode {
	case "fail-pre":
		return true, false
	case "fail-post":
		return false, true
	case "kill":
		syscall.Kill(os.Getpid(), syscall.SIGKILL)
		select {}
	}
	return false, false
}

type faultDriver struct{ inner driver.Driver }

func (d *faultDriver) Open(name string) (driver.Conn, error) {
	c, err := d.inner.Open(name)
	if err != nil {
		return nil, err
	}
	return &faultConn{c}, nil
}

type faultConn struct{ driver.Conn }

func (c *faultConn) BeginTx(ctx context.Context, opts driver.TxOptions) (driver.Tx, error) {
	pre, post := Inj.hit("Begin")
	if pre {
		return nil, ErrInjected
	}
	tx, err := c.Conn.(driver.ConnBeginTx).BeginTx(ctx, opts)
	if err != nil {
		return nil, err
	}
	if post {
		tx.Rollback()
		return nil, ErrInjected
	}
	return &faultTx{tx}, nil
}

func (c *faultConn) ExecContext(ctx context.Context, q string, args []driver.NamedValue) (driver.Result, error) {
	pre, post := Inj.hit("Exec")
	if pre {
		return nil, ErrInjected
	}
	r, err := c.Conn.(driver.ExecerContext).ExecContext(ctx, q, args)
	if err == nil && post {
		return nil, ErrInjected
	}
	return r, err
}

func (c *faultConn) QueryContext(ctx context.Context, q string, args []driver.NamedValue) (driver.Rows, error) {
	pre, post := Inj.hit("Query")
	if pre {
		return nil, ErrInjected
	}
	r, err := c.Conn.(driver.QueryerContext).QueryContext(ctx, q, args)
	if err == nil && post {
		r.Close()
		return nil, ErrInjected
	}
	if err == nil {
		return &faultRows{r}, nil
	}
	return r, err
}

func (c *faultConn) PrepareContext(ctx context.Context, q string) (driver.Stmt, error) {
	s, err := c.Conn.(driver.ConnPrepareContext).PrepareContext(ctx, q)
	if err != nil {
		return nil, err
	}
	return &faultStmt{s}, nil
}

func (c *faultConn) ResetSession(ctx context.Context) error {
	if r, ok := c.Conn.(driver.SessionResetter); ok {
		return r.ResetSession(ctx)
	}
	return nil
}

func (c *faultConn) IsValid() bool {
	if v, ok := c.Conn.(driver.Validator); ok {
		return v.IsValid()
	}
	return true
}

type faultStmt struct{ driver.Stmt }

func (s *faultStmt) ExecContext(ctx context.Context, args []driver.NamedValue) (driver.Result, error) {
	pre, post := Inj.hit("StmtExec")
	if pre {
		return nil, ErrInjected
	}
	r, err := s.Stmt.(driver.StmtExecContext).ExecContext(ctx, args)
	if err == nil && post {
		return nil, ErrInjected
	}
	return r, err
}

func (s *faultStmt) QueryContext(ctx context.Context, args []driver.NamedValue) (driver.Rows, error) {
	pre, post := Inj.hit("StmtQuery")
	if pre {
		return nil, ErrInjected
	}
	r, err := s.Stmt.(driver.StmtQueryContext).QueryContext(ctx, args)
	if err == nil && post {
		r.Close()
		return nil, ErrInjected
	}
	if err == nil {
		return &faultRows{r}, nil
	}
	return r, err
}

type faultTx struct{ driver.Tx }

func (t *faultTx) Commit() error {
	pre, post := Inj.hit("Commit")
	if pre {
		t.Tx.Rollback()
		return ErrInjected
	}
	err := t.Tx.Commit()
	if err == nil && post {
		return ErrInjected
	}
	return err
}

func (t *faultTx) Rollback() error { return t.Tx.Rollback() }

var registerOnce sync.Once

// FaultDriverName registers (once) and returns the name of the wrapped driver.
func FaultDriverName() string {
	registerOnce.Do(func() {
		db, err := sql.Open("sqlite", ":memory:")
		if err != nil {
			panic(err)
		}
		inner := db.Driver()
		db.Close()
		sql.Register("verif-sqlite", &faultDriver{inner})
	})
	return "verif-sqlite"
}
