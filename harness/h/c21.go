package h

import (
	"context"
	"encoding/json"
	"fmt"
	"math/rand"
	"path/filepath"
	"strings"
	"sync"
	"time"

	"github.com/openfga/openfga/internal/verifhook"
	"github.com/openfga/openfga/pkg/storage/memory"
)

var PipelineSpecDirs = func() []string { return []string{filepath.Join(VerifRoot(), "spec", "pipeline")} }

// plTracer turns the pipeline's hook events into PipelineTrace lines.
type plTracer struct {
	mu     sync.Mutex
	on     bool
	lines  []any
	pools  map[string]int
	jitter *rand.Rand
}

func (t *plTracer) pool(x any) int {
	k := fmt.Sprintf("%p", x)
	if id, ok := t.pools[k]; ok {
		return id
	}
	t.pools[k] = len(t.pools) + 1
	return t.pools[k]
}

func (t *plTracer) Event(seq uint64, name string, a []any) {
	if !strings.HasPrefix(name, "pl.") {
		return
	}
	t.mu.Lock()
	defer t.mu.Unlock()
	if !t.on {
		return
	}
	var ev map[string]any
	switch name {
	case "pl.join":
		ev = map[string]any{"e": "join", "pool": t.pool(a[0]), "label": a[1]}
	case "pl.edge":
		ev = map[string]any{"e": "edge", "from": a[0], "to": a[1], "cyc": a[2]}
	case "pl.inc":
		ev = map[string]any{"e": "inc", "pool": t.pool(a[0])}
	case "pl.dec":
		ev = map[string]any{"e": "dec", "pool": t.pool(a[0]), "v": a[1]}
	case "pl.latch":
		ev = map[string]any{"e": "latch", "pool": t.pool(a[0])}
	case "pl.allready":
		ev = map[string]any{"e": "allready", "pool": t.pool(a[0])}
	case "pl.ready":
		ev = map[string]any{"e": "ready", "label": a[0]}
	case "pl.stddone":
		ev = map[string]any{"e": "stddone", "label": a[0], "member": a[1]}
	case "pl.cleanup":
		ev = map[string]any{"e": "cleanup", "label": a[0], "leader": a[1]}
	case "pl.wake":
		ev = map[string]any{"e": "wake", "label": a[0]}
	case "pl.drop":
		ev = map[string]any{"e": "drop", "label": a[0], "cyc": a[1], "cancelled": a[2]}
	default:
		return
	}
	t.lines = append(t.lines, ev)
	// perturb the schedule: the hook sits at the protocol's synchronisation points
	if t.jitter != nil && t.jitter.Intn(20) == 0 {
		time.Sleep(time.Duration(t.jitter.Intn(150)) * time.Microsecond)
	}
}

func (t *plTracer) begin() {
	t.mu.Lock()
	t.on, t.lines, t.pools = true, []any{map[string]any{"e": "Begin"}}, map[string]int{}
	t.mu.Unlock()
}
func (t *plTracer) end(hung, cancelled bool) []any {
	t.mu.Lock()
	defer t.mu.Unlock()
	t.on = false
	return append(t.lines, map[string]any{"e": "EndReq", "hung": hung, "cancelled": cancelled})
}

// designModel runs TLC on a CycleGroup configuration and returns (violated property, states).
func designModel(run *Run, cfg string) (string, string) {
	out, err := TLCRun{SpecDirs: PipelineSpecDirs(), Module: "CycleGroupMC", Config: cfg, Workers: 8, Timeout: 15 * time.Minute}.Run()
	if err != nil || out.TimedOut {
		run.Inconclusive("TLC on %s: %v\n%s", cfg, err, tail(out))
	}
	if out.Violated == "" && strings.Contains(out.Stdout, "Temporal property Termination was violated") {
		out.Violated = "Termination"
	}
	if out.Violated == "" && !strings.Contains(out.Stdout, "No error has been found") {
		run.Inconclusive("TLC on %s did not complete:\n%s", cfg, tail(out))
	}
	return out.Violated, fmt.Sprintf("%d states generated, %d distinct", out.Generated, out.Distinct)
}

func C21(run *Run) {
	r := rand.New(rand.NewSource(run.Seed))
	// ---- design level: exhaustive TLC runs of the teardown protocol
	good := []string{"CycleGroup_2.cfg", "CycleGroup_3.cfg"}
	if run.Thorough() {
		good = append(good, "CycleGroup_3big.cfg")
	}
	for _, cfg := range good {
		viol, st := designModel(run, cfg)
		if viol != "" {
			run.Violation(map[string]any{"prop": "C21", "class": "DESIGN_MODEL_VIOLATION", "cfg": cfg, "violated": viol}, "CycleGroup.tla violates "+viol+" under "+cfg)
		}
		run.Coverage["tlc:"+cfg] = st + ", exhaustive, no violation"
	}
	// the topology of known finding KF-6: a non-cyclic edge between two members of one group
	viol, st := designModel(run, "CycleGroup_bad.cfg")
	run.Coverage["tlc:CycleGroup_bad.cfg"] = st + ", violated: " + viol
	if viol == "" {
		run.Note("CycleGroup_bad.cfg no longer violates Termination: the design model and KF-6 disagree")
	}
	// the failure path of the protocol: a handler that fails still releases its message (CycFail)
	if viol, st := designModel(run, "CycleGroup_2fail.cfg"); viol != "" {
		run.Violation(map[string]any{"prop": "C21", "class": "DESIGN_MODEL_VIOLATION", "cfg": "CycleGroup_2fail.cfg", "violated": viol}, "CycleGroup.tla violates "+viol+" under CycleGroup_2fail.cfg")
	} else {
		run.Coverage["tlc:CycleGroup_2fail.cfg"] = st + ", exhaustive, no violation"
	}
	if viol, st := designModel(run, "CycleGroup_2faillost.cfg"); viol == "" {
		run.Inconclusive("CycleGroup_2faillost.cfg (a failing handler that keeps its in-flight unit) no longer violates Termination: the failure-path check would be vacuous")
	} else {
		run.Coverage["tlc:CycleGroup_2faillost.cfg"] = st + ", violated as intended: " + viol
	}
	// ... and on the real pipeline, before the hook tracer is installed (these runs are judged by outcome)
	panicEvents := pipelinePanicScenario(run)
	// ---- conformance: event traces of the real pipeline
	tr := &plTracer{jitter: rand.New(rand.NewSource(run.Seed + 5))}
	verifhook.InstallTracer(tr)
	defer verifhook.InstallTracer(nil)
	cds := NewCancelDS(memory.New())
	v := NewVariantsDS(cds)
	defer v.Close()
	bg := context.Background()
	rec := &Recorder{}
	var lines []any
	cuts := map[int]bool{}
	nCases := run.Pick(40, 600)
	engines := []string{"pipeline", "pipeline:c1:q1:p1", "pipeline:c2:q0:p3", "pipeline:c1:q0:p2"}
	hangs, maxHangs := 0, run.Pick(4, 40)
	// the recorded hang cases of the corpus first (KF-6): their traces must show the topology of CycleGroup_bad
	corpus := []string{"hang-pipeline-1.json"}
	if run.Thorough() {
		corpus = append(corpus, "hang-pipeline-2.json")
	}
	for _, name := range corpus {
		rf := LoadReplay(filepath.Join(VerifRoot(), "corpus", "C21", name))
		if err := v.Base.Setup(bg, rf.Setup.Model, rf.Setup.Tuples); err != nil {
			run.Inconclusive("corpus setup failed: %v", err)
		}
		var ev ListObjectsEv
		json.Unmarshal(rf.Event, &ev)
		ev.Eng = "pipeline"
		tr.begin()
		v.Get("pipeline").RunListObjects(bg, &ev)
		got := tr.end(ev.Errk == "hang", false)
		cuts[len(lines)] = true
		lines = append(lines, got...)
		run.Evals++
		if ev.Errk == "hang" {
			hangs++
		}
	}
	// a deep recursive hierarchy whose members also feed an intersection with an empty operand, run with
	// tiny buffers: a cycle member must not get stuck on an operand nobody reads any more
	{
		m := &Model{Types: []string{"user", "group", "folder", "doc"}, Conds: []CondDef{}, Rels: []RelDef{
			{T: "folder", R: "parent", Rw: &Rewrite{K: "this"}, Restr: []Restr{{T: "folder"}}},
			{T: "folder", R: "member", Rw: &Rewrite{K: "union", Ch: []*Rewrite{{K: "this"}, {K: "ttu", TS: "parent", Rel: "member"}}}, Restr: []Restr{{T: "user"}}},
			{T: "folder", R: "admin", Rw: &Rewrite{K: "this"}, Restr: []Restr{{T: "user"}}},
			{T: "folder", R: "moderator", Rw: &Rewrite{K: "inter", Ch: []*Rewrite{{K: "computed", Rel: "admin"}, {K: "computed", Rel: "member"}}}, Restr: []Restr{}},
			// the cycle member feeds the output and the starved intersection at the same time
			{T: "folder", R: "either", Rw: &Rewrite{K: "union", Ch: []*Rewrite{{K: "computed", Rel: "member"}, {K: "computed", Rel: "moderator"}}}, Restr: []Restr{}},
		}}
		depth := run.Pick(150, 400)
		var ts []Tuple
		for i := 0; i < depth; i++ {
			ts = append(ts, tp(fmt.Sprintf("folder:d%03d", i), "parent", fmt.Sprintf("folder:d%03d", i+1)))
		}
		ts = append(ts, tp(fmt.Sprintf("folder:d%03d", depth), "member", "user:a"))
		if err := v.Base.Setup(bg, m, ts); err != nil {
			run.Inconclusive("deep hierarchy setup failed: %v", err)
		}
		for _, eng := range []string{"pipeline:d20", "pipeline:c1:q1:p1:d20", "pipeline:c2:q0:p3:d20"} {
			for _, rel := range []string{"moderator", "member", "either"} {
				ev := &ListObjectsEv{Eng: eng, T: "folder", R: rel, U: Subj{"user", "a", ""}, Ctx: Ctx{}}
				tr.begin()
				v.RunLO(bg, ev)
				got := tr.end(ev.Errk == "hang", false)
				cuts[len(lines)] = true
				lines = append(lines, got...)
				run.Evals++
				want := 0
				if rel != "moderator" {
					want = depth + 1
				}
				if ev.Errk != "hang" && (ev.IsErr || len(ev.Got) != want) {
					run.Violation(map[string]any{"prop": "C21", "class": "BAD_PIPELINE_RESULT", "event": ev, "want_count": want},
						fmt.Sprintf("deep hierarchy: %s %s returned %d objects (err %v %s), %d expected", eng, rel, len(ev.Got), ev.IsErr, ev.Err, want))
				}
			}
		}
	}
	for c := 0; c < nCases; c++ {
		cs, _ := GenCase(r, c, GenOpts{ForceShapes: c%2 == 0, MinTuples: 8})
		if err := v.Base.Setup(bg, cs.Model, cs.Tuples); err != nil {
			run.Inconclusive("setup failed: %v", err)
		}
		rec.Setup(cs.SetupEv())
		hungHere := false
		for _, q := range GenRequests(r, cs, 8) {
			if hungHere || cs.Model.Rel(q.O.T, q.R) == nil {
				continue
			}
			eng := engines[r.Intn(len(engines))]
			ev := &ListObjectsEv{Eng: eng, T: q.O.T, R: q.R, U: q.U, Ctx: q.Ctx}
			cancelled := false
			ctx, cancel := context.WithCancel(bg)
			if r.Intn(6) == 0 {
				cancelled = true
				d := time.Duration(r.Intn(400)) * time.Microsecond
				time.AfterFunc(d, cancel)
			}
			faulted := false
			tr.begin()
			ok := v.RunLO(ctx, ev)
			cancel()
			if !ok {
				tr.end(false, true)
				continue
			}
			hung := ev.Errk == "hang"
			if !hung {
				time.Sleep(2 * time.Millisecond) // let the workers that outlive Recv log their last events
			}
			got := tr.end(hung, cancelled)
			cuts[len(lines)] = true
			lines = append(lines, got...)
			run.Evals++
			if hung {
				hangs++
				hungHere = true
				if hangs >= maxHangs {
					break
				}
			}
			if !cancelled && !faulted {
				rec.Add(ev)
			}
			run.Nontrivial(hashOf([]any{cs.Model, cs.Tuples, q, eng}))
		}
		if hangs >= maxHangs {
			run.Note("stopped generating after %d hung requests (each costs the watchdog limit)", hangs)
			break
		}
	}
	if len(lines) == 0 {
		run.Inconclusive("no pipeline trace recorded (hooks not compiled in?)")
	}
	run.AddSample(lines[:min(len(lines), 12)])
	for _, e := range panicEvents {
		cuts[len(lines)] = true
		lines = append(lines, e)
	}
	sum, err := ValidateTrace(PipelineSpecDirs(), "PipelineTrace", lines, 8, func(i int) bool { return cuts[i] }, 20*time.Minute)
	if err != nil {
		run.Inconclusive("PipelineTrace validation failed: %v", err)
	}
	for _, b := range sum.Bad {
		lo := b.L
		for lo > 0 && !cuts[lo] {
			lo--
		}
		run.Classified(b.Cls, map[string]any{"prop": run.Prop, "class": b.Cls, "flags": b.Ref, "cleanups": b.Note, "trace": lines[lo : b.L+1]}, fmt.Sprintf("flags %s cleanups %s", b.Ref, b.Note))
	}
	// the answers of the same requests, judged against the reference semantics (completeness through cycles)
	asum := rec.Validate(run, 16)
	counts := map[string]int{}
	for k, n := range sum.Counts {
		counts[k] += n
	}
	for k, n := range asum.Counts {
		counts[k] += n
	}
	run.Coverage["judged_by_tlc"] = sum.Judged + asum.Judged
	run.Coverage["verdict_classes"] = counts
	run.Coverage["traces_validated_against_impl"] = sum.Lines
	run.Coverage["hangs"] = hangs
	run.Coverage["rule"] = "design: CycleGroup.tla (in-flight counter with Join unit, one-shot quiescence latch, all-ready barrier, leader-first ordered wake-up chain, cyclic receivers draining until upstream closed) checked exhaustively by TLC for rings of 2 and 3 members with self and chord edges (teardown only when quiet, latch only when quiet, no work lost, ordered teardown, termination), and the KF-6 topology (a non-cyclic edge inside a group) shown to violate termination; conformance: ListObjects on the real pipeline (4 chunk / buffer / worker-count settings, jitter at the hook points, a sixth of the requests cancelled after 0-400 us) over C01 cases with forced chains; every hook event (join, edge, inc, dec, latch, ready, allready, cleanup, wake, drop) is checked by TLC (PipelineTrace.tla) against the enabling condition of the corresponding CycleGroup action, each request must finish its teardown, and the answers are judged against the reference semantics (ApiTrace.tla)"
	run.Assumptions = []string{"interleavings of the real pipeline are sampled (knobs + jitter), exhaustive exploration is at the design level", "inc is logged before, dec / latch after the counter operation: only order-robust facts are checked on traces"}
}
