package h

import (
	"bytes"
	"math/rand"

	openfgav1 "github.com/openfga/api/proto/openfga/v1"

	"github.com/openfga/openfga/pkg/storage"
)

// abstract key inputs (JSON forms read by spec/pure/KeyTrace.tla)

type kUser struct {
	O   string `json:"o"`
	Rel string `json:"rel"`
}
type kRestr struct {
	T    string `json:"t"`
	Rel  string `json:"rel"`
	WC   bool   `json:"wc"`
	Cond string `json:"cond"`
}
type kTuple struct {
	O    string `json:"o"`
	R    string `json:"r"`
	U    string `json:"u"`
	C    string `json:"c"`
	Cctx Ctx    `json:"cctx"`
}
type kIn struct {
	Store   string   `json:"store"`
	Model   string   `json:"model"`
	O       string   `json:"o"`
	R       string   `json:"r"`
	U       string   `json:"u"`
	OT      string   `json:"ot"`
	Ctx     Ctx      `json:"ctx"`
	Ctxt    []kTuple `json:"ctxt"`
	Conds   []string `json:"conds"`
	Users   []kUser  `json:"users"`
	HasOIDs bool     `json:"hasoids"`
	OIDs    []string `json:"oids"`
	Restr   []kRestr `json:"restr"`
}

func (x kIn) clone() kIn {
	y := x
	y.Ctx = cloneCtx(x.Ctx)
	y.Ctxt = append([]kTuple{}, x.Ctxt...)
	for i := range y.Ctxt {
		y.Ctxt[i].Cctx = cloneCtx(y.Ctxt[i].Cctx)
	}
	y.Conds = append([]string{}, x.Conds...)
	y.Users = append([]kUser{}, x.Users...)
	y.OIDs = append([]string{}, x.OIDs...)
	y.Restr = append([]kRestr{}, x.Restr...)
	return y
}

func cloneCtx(c Ctx) Ctx {
	out := Ctx{}
	for k, v := range c {
		out[k] = cloneVal(v)
	}
	return out
}
func cloneVal(v Val) Val {
	switch v.K {
	case "list":
		l := []Val{}
		for _, e := range v.V.([]Val) {
			l = append(l, cloneVal(e))
		}
		v.V = l
	case "map":
		m := map[string]Val{}
		for k, e := range v.V.(map[string]Val) {
			m[k] = cloneVal(e)
		}
		v.V = m
	}
	return v
}

// strings that contain separator-like and tag-like bytes
var kAlpha = []string{"a", "b", "ab", "a:b", "a#b", "", "\x00", "\x01", "\x04a", "a\x00", ":", "|", "a|b", "aa"}

func kStr(r *rand.Rand) string { return pick(r, kAlpha) }

func genVal(r *rand.Rand, depth int) Val {
	switch x := r.Intn(7); {
	case x == 0:
		return NumVal(int64(r.Intn(3)))
	case x == 1:
		return StrVal(pick(r, []string{"a", "1", "0", "", "true"}))
	case x == 2:
		return BoolVal(chance(r, 0.5))
	case x == 3 && depth > 0:
		n := r.Intn(3)
		vs := []Val{}
		for i := 0; i < n; i++ {
			vs = append(vs, genVal(r, depth-1))
		}
		return ListVal(vs...)
	case x == 4 && depth > 0:
		m := map[string]Val{}
		for i := r.Intn(3); i > 0; i-- {
			m[pick(r, []string{"k", "a", "ab", ""})] = genVal(r, depth-1)
		}
		return Val{K: "map", V: m}
	case x == 5:
		return Val{K: "null"}
	}
	return NumVal(1)
}

func genCtx(r *rand.Rand) Ctx {
	c := Ctx{}
	for i := r.Intn(3); i > 0; i-- {
		c[pick(r, []string{"x", "y", "xy", "a"})] = genVal(r, 2)
	}
	return c
}

func genKIn(r *rand.Rand) kIn {
	x := kIn{Store: pick(r, []string{"s1", "s2", "s"}), Model: pick(r, []string{"m1", "m2", "1m"}), O: "doc:" + kStr(r), R: pick(r, []string{"viewer", "view", "er"}),
		U: "user:" + kStr(r), OT: pick(r, []string{"doc", "do", "c"}), Ctx: genCtx(r), Ctxt: []kTuple{}, Conds: []string{}, Users: []kUser{}, OIDs: []string{}, Restr: []kRestr{}}
	seen := map[string]bool{}
	for i := r.Intn(3); i > 0; i-- {
		t := kTuple{O: "doc:" + pick(r, []string{"1", "2", "12"}), R: pick(r, []string{"viewer", "editor"}), U: "user:" + pick(r, []string{"a", "b", "ab"}), Cctx: Ctx{}}
		if chance(r, 0.4) {
			t.C, t.Cctx = pick(r, []string{"c1", "c2"}), genCtx(r)
		}
		if !seen[t.O+t.R+t.U] {
			seen[t.O+t.R+t.U] = true
			x.Ctxt = append(x.Ctxt, t)
		}
	}
	cs := map[string]bool{}
	for i := r.Intn(3); i > 0; i-- {
		c := pick(r, []string{"", "c1", "c2", "c"})
		if !cs[c] {
			cs[c] = true
			x.Conds = append(x.Conds, c)
		}
	}
	us := map[kUser]bool{}
	for i := 1 + r.Intn(2); i > 0; i-- {
		u := kUser{O: "user:" + pick(r, []string{"a", "b", "*"})}
		if chance(r, 0.3) {
			u = kUser{O: "group:" + pick(r, []string{"1", "2"}), Rel: pick(r, []string{"member", "m"})}
		}
		if !us[u] {
			us[u] = true
			x.Users = append(x.Users, u)
		}
	}
	if chance(r, 0.5) {
		x.HasOIDs = true
		os := map[string]bool{}
		for i := r.Intn(3); i > 0; i-- {
			o := pick(r, []string{"1", "2", "12"})
			if !os[o] {
				os[o] = true
				x.OIDs = append(x.OIDs, o)
			}
		}
	}
	rs := map[kRestr]bool{}
	for i := r.Intn(3); i > 0; i-- {
		q := kRestr{T: pick(r, []string{"user", "group"})}
		switch r.Intn(3) {
		case 0:
			q.WC = true
		case 1:
			q.Rel = pick(r, []string{"member", "m"})
		}
		if chance(r, 0.3) {
			q.Cond = "c1"
		}
		if !rs[q] {
			rs[q] = true
			x.Restr = append(x.Restr, q)
		}
	}
	return x
}

func realKey(kind string, x kIn) []byte {
	switch kind {
	case "check":
		var cts []*openfgav1.TupleKey
		for _, t := range x.Ctxt {
			tk := &openfgav1.TupleKey{Object: t.O, Relation: t.R, User: t.U}
			if t.C != "" {
				tk.Condition = &openfgav1.RelationshipCondition{Name: t.C, Context: t.Cctx.ToProto()}
			}
			cts = append(cts, tk)
		}
		inv := storage.InvariantCacheKey(x.Store, x.Model, x.Ctx.ToProto(), cts...)
		return storage.CheckCacheKey(x.Store, x.O, x.R, x.U, inv).Bytes()
	case "read":
		return storage.ReadKey(x.Store, storage.ReadFilter{Object: x.O, Relation: x.R, User: x.U, Conditions: x.Conds}).Bytes()
	case "rswu":
		f := storage.ReadStartingWithUserFilter{ObjectType: x.OT, Relation: x.R, Conditions: x.Conds}
		for _, u := range x.Users {
			f.UserFilter = append(f.UserFilter, &openfgav1.ObjectRelation{Object: u.O, Relation: u.Rel})
		}
		if x.HasOIDs {
			f.ObjectIDs = storage.NewSortedSet(x.OIDs...)
		}
		return storage.ReadStartingWithUserKey(x.Store, f).Bytes()
	case "rut":
		f := storage.ReadUsersetTuplesFilter{Object: x.O, Relation: x.R, Conditions: x.Conds}
		for _, q := range x.Restr {
			rr := &openfgav1.RelationReference{Type: q.T, Condition: q.Cond}
			if q.WC {
				rr.RelationOrWildcard = &openfgav1.RelationReference_Wildcard{Wildcard: &openfgav1.Wildcard{}}
			} else if q.Rel != "" {
				rr.RelationOrWildcard = &openfgav1.RelationReference_Relation{Relation: q.Rel}
			}
			f.AllowedUserTypeRestrictions = append(f.AllowedUserTypeRestrictions, rr)
		}
		return storage.ReadUsersetTuplesKey(x.Store, f).Bytes()
	}
	panic(kind)
}

// mutateK returns a variant of x and a description; half of the variants are
// semantics-preserving (reordering), half change exactly one thing.
func mutateK(r *rand.Rand, kind string, xp *kIn) (kIn, string) {
	x := xp
	y := x.clone()
	shuffle := func() {
		r.Shuffle(len(y.Ctxt), func(i, j int) { y.Ctxt[i], y.Ctxt[j] = y.Ctxt[j], y.Ctxt[i] })
		r.Shuffle(len(y.Conds), func(i, j int) { y.Conds[i], y.Conds[j] = y.Conds[j], y.Conds[i] })
		r.Shuffle(len(y.Users), func(i, j int) { y.Users[i], y.Users[j] = y.Users[j], y.Users[i] })
		r.Shuffle(len(y.OIDs), func(i, j int) { y.OIDs[i], y.OIDs[j] = y.OIDs[j], y.OIDs[i] })
		r.Shuffle(len(y.Restr), func(i, j int) { y.Restr[i], y.Restr[j] = y.Restr[j], y.Restr[i] })
	}
	switch r.Intn(16) {
	case 0, 1, 2, 3:
		shuffle()
		return y, "reorder"
	case 4: // move a byte across the boundary of two adjacent string fields
		if len(y.O) > 4 {
			y.R = y.O[len(y.O)-1:] + y.R
			y.O = y.O[:len(y.O)-1]
			return y, "boundary object|relation"
		}
		y.R = y.R + "x"
		return y, "relation"
	case 5:
		if len(y.Store) > 1 {
			y.O = y.Store[len(y.Store)-1:] + y.O
			y.Store = y.Store[:len(y.Store)-1]
			return y, "boundary store|object"
		}
		y.Store += "x"
		return y, "store"
	case 6:
		y.U = y.U + pick(r, []string{"x", "\x00", "#m"})
		return y, "user"
	case 7:
		y.Model = y.Model + "x"
		return y, "model"
	case 8:
		y.Ctx[pick(r, []string{"x", "z", "xy"})] = genVal(r, 1)
		return y, "context"
	case 9:
		if len(y.Ctxt) > 0 {
			i := r.Intn(len(y.Ctxt))
			switch r.Intn(3) {
			case 0:
				y.Ctxt = append(y.Ctxt[:i], y.Ctxt[i+1:]...)
			case 1:
				y.Ctxt[i].C, y.Ctxt[i].Cctx = "c9", genCtx(r)
			default:
				y.Ctxt[i].Cctx["k"] = genVal(r, 1)
				if y.Ctxt[i].C == "" {
					y.Ctxt[i].C = "c1"
				}
			}
			return y, "contextual tuple"
		}
		y.Ctxt = append(y.Ctxt, kTuple{O: "doc:9", R: "viewer", U: "user:z", Cctx: Ctx{}})
		return y, "contextual tuple added"
	case 10:
		if len(y.Conds) > 0 && chance(r, 0.5) {
			y.Conds = y.Conds[1:]
		} else {
			y.Conds = append(y.Conds, "c7")
		}
		return y, "conditions"
	case 11:
		if y.HasOIDs && chance(r, 0.5) {
			y.HasOIDs, y.OIDs = false, []string{}
		} else {
			y.HasOIDs = true
			y.OIDs = append(y.OIDs, "77")
		}
		return y, "object ids"
	case 12:
		if len(y.Users) > 0 && chance(r, 0.6) {
			// one entry changes only in its relation part (group:1 vs group:1#member) or only in its object
			i := r.Intn(len(y.Users))
			switch {
			case y.Users[i].Rel != "" && chance(r, 0.5):
				y.Users[i].Rel = ""
			case y.Users[i].Rel != "":
				y.Users[i].Rel += "x"
			case chance(r, 0.5):
				y.Users[i].Rel = "member"
			default:
				y.Users[i].O += "x"
			}
			dup := false
			for j := range y.Users {
				if j != i && y.Users[j] == y.Users[i] {
					dup = true
				}
			}
			if !dup {
				return y, "user filter entry"
			}
			y.Users = append([]kUser{}, x.Users...)
		}
		y.Users = append(y.Users, kUser{O: "user:zz"})
		y.Restr = append(y.Restr, kRestr{T: "folder", Rel: "viewer"})
		return y, "user filter / restrictions"
	case 14:
		// the same sequence of strings, bracketed differently into contextual tuples: a condition name
		// (without context) on the first tuple versus a leading object on the second
		r1, r2 := pick(r, []string{"viewer", "editor"}), pick(r, []string{"viewer", "editor"})
		u1, u2 := "user:"+pick(r, []string{"a", "b"}), "user:"+pick(r, []string{"a", "b"})
		x.Ctxt = []kTuple{{O: "doc:1", R: r1, U: u1, C: "doc:2", Cctx: Ctx{}}, {O: "doc:3", R: r2, U: u2, Cctx: Ctx{}}}
		y.Ctxt = []kTuple{{O: "doc:1", R: r1, U: u1, Cctx: Ctx{}}, {O: "doc:2", R: "doc:3", U: r2, C: u2, Cctx: Ctx{}}}
		return y, "contextual tuples re-bracketed"
	case 15:
		// an absent object-id restriction versus one that lists exactly the user-filter strings
		if !y.HasOIDs {
			y.HasOIDs = true
			y.OIDs = []string{}
			for _, u := range y.Users {
				o := u.O
				if u.Rel != "" {
					o += "#" + u.Rel
				}
				y.OIDs = append(y.OIDs, o)
			}
			return y, "object ids = user filter strings"
		}
		y.OIDs = append(y.OIDs, "78")
		return y, "object ids"
	default:
		y.OT = y.OT + "x"
		y.O = y.O + "x"
		return y, "object"
	}
}

func C24(run *Run) {
	r := rand.New(rand.NewSource(run.Seed))
	n := run.Pick(5000, 120000)
	var events []any
	for i := 0; i < n; i++ {
		kind := pick(r, []string{"check", "check", "read", "rswu", "rut"})
		x := genKIn(r)
		y, how := mutateK(r, kind, &x)
		keq := bytes.Equal(realKey(kind, x), realKey(kind, y))
		ev := map[string]any{"e": "Key", "kind": kind, "x": x, "y": y, "keyeq": keq, "how": how}
		events = append(events, ev)
		run.Evals++
		run.Nontrivial(hashOf([]any{kind, x, y}))
	}
	run.AddSample(events[0])
	run.AddSample(events[1])
	validatePure(run, "KeyTrace", events, 16)
	run.Coverage["rule"] = "pairs of key inputs for CheckCacheKey+InvariantCacheKey (also the BatchCheck de-duplication key), ReadKey, ReadStartingWithUserKey and ReadUsersetTuplesKey over strings containing separator-, NUL- and tag-like bytes, nested context values (numbers, strings, booleans, null, lists, structs), contextual tuples with condition contexts, filter lists; the second input is either a reordering of the first (contextual tuples, filter lists, conditions; context structs are unordered by construction) or differs in exactly one component, including a byte moved across the boundary of two adjacent string fields; TLC decides semantic equality (KeyTrace.tla Norm) and requires key equality to coincide with it; non-trivial = distinct pairs"
	run.Assumptions = []string{"hashed suffixes (64-bit digests) are compared like plain bytes: a genuine digest collision would be reported as a collision (probability ~2^-64 per pair)", "duplicate entries inside one filter list and nil-versus-empty context are not generated"}
}
