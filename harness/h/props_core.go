package h

import (
	"context"
	"encoding/json"
	"fmt"
	"math/rand"
	"os"
	"strconv"
	"strings"
	"sync"
	"time"

	openfgav1 "github.com/openfga/api/proto/openfga/v1"
	"google.golang.org/grpc"
	"google.golang.org/grpc/metadata"

	"github.com/openfga/openfga/pkg/server"
	"github.com/openfga/openfga/pkg/storage/memory"
	"github.com/openfga/openfga/pkg/tuple"
)

// ---------------------------------------------------------------- engine variants

// Variants is a set of servers over ONE datastore, each configured for a named
// engine/tuning variant. Stores and models are created once (through the base
// env) and are visible to all of them.
type Variants struct {
	Base *Env
	envs map[string]*Env
	hung string // key of the last request that hung on a pipeline variant
}

func NewVariants() *Variants {
	ds := memory.New()
	return &Variants{Base: NewEnv(ds), envs: map[string]*Env{}}
}

func (v *Variants) Close() {
	for _, e := range v.envs {
		e.Close()
	}
	v.Base.Close()
}

// Get returns the env for a variant name.  Name grammar (colon separated):
//
//	server | classic | weighted | pipeline         engine family
//	l<k>  ListObjects/ListUsers max results   c<n> pipeline chunk size   q<n> pipeline buffer
//	p<n>  pipeline numProcs                   b<n> resolve breadth limit r<n> max concurrent reads
//	thr   dispatch throttling on (threshold 1) stream (StreamedListObjects; handled by caller)
func (v *Variants) Get(name string) *Env {
	if name == "server" {
		v.Base.name = "server"
		return v.Base
	}
	if e, ok := v.envs[name]; ok {
		e.StoreID, e.ModelID = v.Base.StoreID, v.Base.ModelID
		return e
	}
	var opts []server.OpenFGAServiceV1Option
	exps := []string{}
	pipeline := false
	for _, p := range strings.Split(name, ":") {
		switch {
		case p == "server" || p == "classic" || p == "stream":
		case p == "weighted":
			exps = append(exps, "enable-list-objects-optimizations")
		case p == "pipeline":
			pipeline = true
			exps = append(exps, "pipeline_list_objects")
		case p == "checkopt":
			exps = append(exps, "enable-check-optimizations")
		case p == "v2":
			exps = append(exps, "weighted_graph_check")
		case p == "qc": // Check query (sub-problem) cache
			opts = append(opts, server.WithCheckQueryCacheEnabled(true), server.WithCheckQueryCacheTTL(2*time.Minute))
		case p == "ic": // Check iterator cache
			opts = append(opts, server.WithCheckIteratorCacheEnabled(true), server.WithCheckIteratorCacheTTL(2*time.Minute), server.WithCheckIteratorCacheMaxResults(1000))
		case p == "lic": // ListObjects iterator cache
			opts = append(opts, server.WithListObjectsIteratorCacheEnabled(true), server.WithListObjectsIteratorCacheTTL(2*time.Minute), server.WithListObjectsIteratorCacheMaxResults(1000))
		case p == "shi": // shared iterators
			opts = append(opts, server.WithSharedIteratorEnabled(true))
		case p == "t300": // short iterator-cache TTLs: changes can straddle the TTL window (partial invalidation)
			opts = append(opts, server.WithCheckIteratorCacheTTL(300*time.Millisecond), server.WithListObjectsIteratorCacheTTL(300*time.Millisecond))
		case p == "cc": // cache controller, invalidation triggered by (almost) every request
			opts = append(opts, server.WithCacheControllerEnabled(true), server.WithCacheControllerTTL(time.Millisecond))
		case p == "thr":
			opts = append(opts, server.WithDispatchThrottlingCheckResolverEnabled(true),
				server.WithDispatchThrottlingCheckResolverFrequency(time.Millisecond),
				server.WithDispatchThrottlingCheckResolverThreshold(1),
				server.WithDispatchThrottlingCheckResolverMaxThreshold(1),
				server.WithListObjectsDispatchThrottlingEnabled(true),
				server.WithListObjectsDispatchThrottlingFrequency(time.Millisecond),
				server.WithListObjectsDispatchThrottlingThreshold(1),
				server.WithListObjectsDispatchThrottlingMaxThreshold(1))
		default:
			n, err := strconv.Atoi(p[1:])
			if err != nil {
				panic("bad variant " + name)
			}
			switch p[0] {
			case 'l':
				opts = append(opts, server.WithListObjectsMaxResults(uint32(n)), server.WithListUsersMaxResults(uint32(n)))
			case 'c':
				opts = append(opts, server.WithListObjectsChunkSize(n))
			case 'q':
				opts = append(opts, server.WithListObjectsBufferCapacity(n))
			case 'p':
				opts = append(opts, server.WithListObjectsNumProcs(n))
			case 'o': // ListObjects max results only (ListUsers keeps its own default)
				opts = append(opts, server.WithListObjectsMaxResults(uint32(n)))
			case 'd': // ListObjects / ListUsers deadline in seconds (the default of 3 s truncates silently on a loaded machine)
				opts = append(opts, server.WithListObjectsDeadline(time.Duration(n)*time.Second), server.WithListUsersDeadline(time.Duration(n)*time.Second))
			case 'b':
				opts = append(opts, server.WithResolveNodeBreadthLimit(uint32(n)))
			case 'r':
				opts = append(opts, server.WithMaxConcurrentReadsForCheck(uint32(n)), server.WithMaxConcurrentReadsForListObjects(uint32(n)),
					server.WithMaxConcurrentReadsForListUsers(uint32(n)))
			default:
				panic("bad variant " + name)
			}
		}
	}
	opts = append(opts, server.WithListObjectsPipelineEnabled(pipeline))
	if len(exps) > 0 {
		opts = append(opts, server.WithExperimentals(exps...))
	}
	e := NewEnv(v.Base.DS, opts...)
	e.name = name
	e.StoreID, e.ModelID = v.Base.StoreID, v.Base.ModelID
	v.envs[name] = e
	return e
}

// ---------------------------------------------------------------- streamed list objects

type loStream struct {
	ctx context.Context
	mu  sync.Mutex
	out []string
}

func (s *loStream) Send(r *openfgav1.StreamedListObjectsResponse) error {
	s.mu.Lock()
	s.out = append(s.out, r.GetObject())
	s.mu.Unlock()
	return nil
}
func (s *loStream) SetHeader(metadata.MD) error  { return nil }
func (s *loStream) SendHeader(metadata.MD) error { return nil }
func (s *loStream) SetTrailer(metadata.MD)       {}
func (s *loStream) Context() context.Context     { return s.ctx }
func (s *loStream) SendMsg(any) error            { return nil }
func (s *loStream) RecvMsg(any) error            { return nil }

var _ grpc.ServerStream = (*loStream)(nil)

func (e *Env) RunStreamedListObjects(ctx context.Context, ev *ListObjectsEv) {
	ev.E = "ListObjects"
	ev.IsErr, ev.Errk, ev.Err = false, "", ""
	ev.Ctx = normCtx(ev.Ctx)
	ev.Ctxt = normTuples(ev.Ctxt)
	st := &loStream{ctx: ctx}
	var err error
	if !Watchdog(HangLimit, func() {
		err = e.S.StreamedListObjects(&openfgav1.StreamedListObjectsRequest{StoreId: e.StoreID, AuthorizationModelId: e.ModelID,
			Type: ev.T, Relation: ev.R, User: ev.U.String(), ContextualTuples: CtxTuples(ev.Ctxt), Context: ev.Ctx.ToProto(),
			Consistency: consistency(ev.HC)}, st)
	}) {
		ev.Got = []string{}
		ev.IsErr, ev.Errk, ev.Err = true, "hang", fmt.Sprintf("StreamedListObjects did not return within %s", HangLimit)
		return
	}
	ev.Got = []string{}
	if err != nil {
		ev.IsErr, ev.Errk, ev.Err = true, ErrKind(err), err.Error()
		return
	}
	for _, o := range st.out {
		ev.Got = append(ev.Got, ParseObj(o).ID)
	}
}

func limitOf(name string) int {
	for _, p := range strings.Split(name, ":") {
		if len(p) > 1 && p[0] == 'l' {
			if n, err := strconv.Atoi(p[1:]); err == nil {
				return n
			}
		}
	}
	return 0
}

// RunLO runs ev on the variant named ev.Eng.
//
// It reports false (event not executed, must not be recorded) when the same request
// already hung on another tuning variant of the pipeline engine: a hung call costs
// the whole watchdog period and leaks the server's goroutines, so one observation per
// request is enough.
func (v *Variants) RunLO(ctx context.Context, ev *ListObjectsEv) bool {
	key := hashOf([]any{v.Base.StoreID, ev.T, ev.R, ev.U, ev.Ctx, ev.Ctxt})
	if strings.HasPrefix(ev.Eng, "pipeline") && v.hung == key {
		return false
	}
	defer func() {
		if ev.Errk == "hang" {
			v.hung = key
		}
	}()
	e := v.Get(ev.Eng)
	ev.Limit = limitOf(ev.Eng)
	if os.Getenv("VERIF_DEBUG") != "" {
		b, _ := json.Marshal(ev)
		fmt.Fprintf(os.Stderr, "LO %s\n", b)
	}
	if strings.Contains(ev.Eng, "stream") {
		e.RunStreamedListObjects(ctx, ev)
	} else {
		e.RunListObjects(ctx, ev)
	}
	return true
}

// ---------------------------------------------------------------- C02

func C02(run *Run) {
	ctx := context.Background()
	if run.Replay != "" {
		replayCore(run)
		return
	}
	r := rand.New(rand.NewSource(run.Seed))
	v := NewVariants()
	defer v.Close()
	nCases := run.Pick(60, 1200)
	perCase := run.Pick(14, 30)
	rec := &Recorder{}
	checkEngines := []string{"v1:default", "v1:weight2", "v1:recursive", "v1:script-" + strconv.FormatInt(run.Seed*7+1, 10),
		"v1:script-" + strconv.FormatInt(run.Seed*7+2, 10), "v1:default:b1:r1", "v1:weight2:b2:r3", "v1:recursive:b1:r1"}
	serverVariants := []string{"server", "server:thr", "server:b1:r1", "server:checkopt"}
	loEngines := []string{"classic", "weighted", "pipeline", "pipeline:c1:q1:p1", "pipeline:c2:q0:p3", "classic:b1:r1", "weighted:b2:r3", "classic:thr"}
	var mu sync.Mutex
	// more candidates than the engines' internal buffers hold, every one needing a follow-up Check
	runWideCheck(ctx, v, rec, run, run.Pick(260, 520)) // Check with several hundred user-side objects (batched set operations)
	runWide(ctx, v, rec, run, []string{"classic:d20", "classic:b1:d20", "classic:b1:r1:d20", "classic:b3:d20", "weighted:d20", "weighted:b1:r1:d4", "weighted:b2:r3:d20", "pipeline:d20", "classic:thr:d20"}, run.Pick(130, 400))
	for c := 0; c < nCases; c++ {
		cs, _ := GenCase(r, c, GenOpts{ForceShapes: true})
		if err := v.Base.Setup(ctx, cs.Model, cs.Tuples); err != nil {
			run.Inconclusive("setup failed: %v", err)
		}
		ts, mg, err := v.Base.Typesystem(ctx, cs.Model)
		if err != nil {
			run.Inconclusive("typesystem: %v", err)
		}
		rec.Setup(cs.SetupEv())
		reqs := GenRequests(r, cs, perCase)
		for _, q := range reqs {
			for _, eng := range checkEngines {
				ev := &CheckEv{Eng: eng, O: q.O, R: q.R, U: q.U, Ctx: q.Ctx}
				v.Base.RunCheck(ctx, ev, ts, mg)
				rec.Add(ev)
				run.Evals++
			}
			for _, sv := range serverVariants {
				ev := &CheckEv{Eng: sv, O: q.O, R: q.R, U: q.U, Ctx: q.Ctx}
				v.Get(sv).RunCheck(ctx, ev, ts, mg)
				rec.Add(ev)
				run.Evals++
			}
			if nontrivialCheck(cs, q.O, q.R) {
				run.Nontrivial(hashOf([]any{cs.Model, cs.Tuples, q}))
			}
		}
		// repetition + 8-way concurrency on the production wiring
		var wg sync.WaitGroup
		for w := 0; w < 8; w++ {
			wg.Add(1)
			go func(w int) {
				defer wg.Done()
				for i := 0; i < 4 && i < len(reqs); i++ {
					q := reqs[(i+w)%len(reqs)]
					ev := &CheckEv{Eng: "server:conc", O: q.O, R: q.R, U: q.U, Ctx: q.Ctx}
					v.Base.RunCheck(ctx, ev, ts, mg)
					mu.Lock()
					rec.Add(ev)
					run.Evals++
					mu.Unlock()
				}
			}(w)
		}
		wg.Wait()
		// ListObjects across engines and tuning
		for i := 0; i < 3; i++ {
			q := reqs[r.Intn(len(reqs))]
			if q.O.T == "group" && chance(r, 0.7) {
				q.O.T = "doc"
				q.R = pick(r, cs.Model.RelsOf("doc"))
			}
			for _, eng := range loEngines {
				ev := &ListObjectsEv{Eng: eng, T: q.O.T, R: q.R, U: q.U, Ctx: q.Ctx}
				if !v.RunLO(ctx, ev) {
					continue
				}
				rec.Add(ev)
				run.Evals++
			}
		}
		if c < 2 {
			run.AddSample(map[string]any{"model": cs.Model.String(), "tuples": tupleStrings(cs.Tuples), "engines": append(append(checkEngines, serverVariants...), loEngines...)})
		}
	}
	sum := rec.Validate(run, 16)
	run.Coverage["rule"] = "C01 input space; every sampled request answered by LocalChecker with the planner forced to default / weight2 / recursive, two seeded per-plan-key scripted assignments, breadth/read-concurrency knobs, the production server with dispatch throttling (threshold 1), breadth 1, experimental check optimizations, 8-way concurrent repetition; ListObjects by classic / weighted / pipeline engines with chunk, buffer, numProcs, breadth and throttling knobs. Every answer judged by TLC against FGACore.Chk (equality with the reference implies pairwise equality). non-trivial as in C01"
	run.Coverage["cases"] = nCases
	run.Coverage["check_engines"] = append(checkEngines, serverVariants...)
	run.Coverage["listobjects_engines"] = loEngines
	run.Coverage["judged_by_tlc"] = sum.Judged
	run.Coverage["verdict_classes"] = sum.Counts
	run.Assumptions = []string{"reference = FGACore.Chk", "goroutine interleavings are those the Go scheduler produced (8-way concurrency, small read-concurrency limits), not enumerated"}
}

// ---------------------------------------------------------------- C05

func C05(run *Run) {
	ctx := context.Background()
	if run.Replay != "" {
		replayCore(run)
		return
	}
	r := rand.New(rand.NewSource(run.Seed))
	v := NewVariants()
	defer v.Close()
	nCases := run.Pick(100, 2000)
	rec := &Recorder{}
	engines := []string{"classic", "weighted", "pipeline", "classic:stream", "pipeline:stream", "classic:l1", "classic:l2", "weighted:l1", "weighted:l2",
		"pipeline:l1", "pipeline:l2", "pipeline:c1:q1:p1", "pipeline:c2:q0:p3:l2"}
	for c := 0; c < nCases; c++ {
		cs, _ := GenCase(r, c, GenOpts{MinTuples: 10, MultiParent: 0.6})
		if err := v.Base.Setup(ctx, cs.Model, cs.Tuples); err != nil {
			run.Inconclusive("setup failed: %v", err)
		}
		rec.Setup(cs.SetupEv())
		ctxs := GenReqCtxs(r, cs.Model)
		subs := GenSubjects(cs.Model)
		for i := 0; i < 5; i++ {
			t := pick(r, []string{"doc", "doc", "doc", "folder", "group"})
			rels := cs.Model.RelsOf(t)
			rel := pick(r, rels)
			u := pick(r, subs)
			cx := pick(r, ctxs)
			for _, eng := range engines {
				ev := &ListObjectsEv{Eng: eng, T: t, R: rel, U: u, Ctx: cx}
				if !v.RunLO(ctx, ev) {
					continue
				}
				rec.Add(ev)
				run.Evals++
			}
			if cs.Model.Rel(t, rel).Rw.K != "this" || u.IsUserset() || u.IsWild() {
				run.Nontrivial(hashOf([]any{cs.Model, cs.Tuples, t, rel, u, cx}))
			}
		}
		if c < 2 {
			run.AddSample(map[string]any{"model": cs.Model.String(), "tuples": tupleStrings(cs.Tuples), "last_event": rec.Events[len(rec.Events)-1]})
		}
	}
	// intersections / unions of three and four operands of different sizes (the generator's are binary)
	runNary(ctx, v, rec, run, r, run.Pick(40, 400), []string{"classic", "weighted", "pipeline", "pipeline:c1:q1:p1"})
	sum := rec.Validate(run, 16)
	run.Coverage["rule"] = "C01 input space; ListObjects and StreamedListObjects for random (type, relation, subject∈{object, wildcard, userset}, context) on the classic, weighted-graph and pipeline engines, max-results 1/2/default and pipeline chunk/buffer/numProcs knobs; judged by TLC: returned ⊆ {o : Chk=T}, no duplicates, equality when no limit applies, exactly k when limit k ≤ |permitted|; non-trivial = relation is not a bare direct assignment or subject is a userset/wildcard"
	run.Coverage["cases"] = nCases
	run.Coverage["engines"] = engines
	run.Coverage["judged_by_tlc"] = sum.Judged
	run.Coverage["verdict_classes"] = sum.Counts
	run.Assumptions = []string{"reference = FGACore.Chk over the objects occurring in the case", "deadline truncation is exercised in C20, not here"}
}

// ---------------------------------------------------------------- C06

func C06(run *Run) {
	ctx := context.Background()
	if run.Replay != "" {
		replayCore(run)
		return
	}
	r := rand.New(rand.NewSource(run.Seed))
	v := NewVariants()
	defer v.Close()
	nCases := run.Pick(120, 2500)
	rec := &Recorder{}
	// nested union / intersection / exclusion over wildcard-assignable relations
	runSetOps(ctx, v, rec, run, r, run.Pick(60, 600), "listusers")
	luLimited := v.Get("server:o2") // ListObjects max results 2, ListUsers limit untouched
	for c := 0; c < nCases; c++ {
		cs, _ := GenCase(r, c, GenOpts{MinTuples: 8})
		if err := v.Base.Setup(ctx, cs.Model, cs.Tuples); err != nil {
			run.Inconclusive("setup failed: %v", err)
		}
		luLimited.StoreID, luLimited.ModelID = v.Base.StoreID, v.Base.ModelID
		rec.Setup(cs.SetupEv())
		ctxs := GenReqCtxs(r, cs.Model)
		type filt struct{ t, rel string }
		filters := []filt{{"user", ""}, {"user", ""}, {"group", "member"}, {"group", ""}, {"folder", ""}}
		if cs.Model.Rel("doc", "viewer") != nil {
			filters = append(filters, filt{"doc", "viewer"})
		}
		if cs.Model.Rel("folder", "viewer") != nil {
			filters = append(filters, filt{"folder", "viewer"})
		}
		for i := 0; i < 12; i++ {
			t := pick(r, []string{"doc", "doc", "folder", "group"})
			o := Obj{t, pick(r, IDs[t][:2])}
			rel := pick(r, cs.Model.RelsOf(t))
			f := pick(r, filters)
			ev := &ListUsersEv{Eng: "server", O: o, R: rel, FT: f.t, FRel: f.rel, Ctx: pick(r, ctxs)}
			if i%4 == 3 { // a server whose ListObjects limit is 2: ListUsers must not be affected by it
				ev.Eng = "server:o2"
				luLimited.RunListUsers(ctx, ev)
			} else {
				v.Base.RunListUsers(ctx, ev)
			}
			rec.Add(ev)
			run.Evals++
			if cs.Model.Rel(t, rel).Rw.K != "this" || f.rel != "" {
				run.Nontrivial(hashOf([]any{cs.Model, cs.Tuples, o, rel, f}))
			}
		}
		if c < 2 {
			run.AddSample(map[string]any{"model": cs.Model.String(), "tuples": tupleStrings(cs.Tuples), "last_event": rec.Events[len(rec.Events)-1]})
		}
	}
	sum := rec.Validate(run, 16)
	run.Coverage["rule"] = "C01 input space; ListUsers for random (object, relation, filter∈{user, group, folder, group#member, doc#viewer, folder#viewer}, context); judged by TLC (DESIGN D.4): every entry matches the filter, no duplicates, every entry holds by Chk, every concrete user of the filter type holding the relation is returned or covered by a returned wildcard; non-trivial = relation not a bare direct assignment or userset filter"
	run.Coverage["cases"] = nCases
	run.Coverage["judged_by_tlc"] = sum.Judged
	run.Coverage["verdict_classes"] = sum.Counts
	run.Assumptions = []string{"reference = FGACore.Chk"}
}

// ---------------------------------------------------------------- C30

func C30(run *Run) {
	ctx := context.Background()
	if run.Replay != "" {
		replayCore(run)
		return
	}
	r := rand.New(rand.NewSource(run.Seed))
	v := NewVariants()
	defer v.Close()
	nCases := run.Pick(120, 2500)
	rec := &Recorder{}
	for c := 0; c < nCases; c++ {
		cs, _ := GenCase(r, c, GenOpts{MinTuples: 8})
		stored, ctxt := splitTuples(r, cs)
		if err := v.Base.Setup(ctx, cs.Model, stored); err != nil {
			run.Inconclusive("setup failed: %v", err)
		}
		se := cs.SetupEv()
		se.Tuples = normTuples(stored)
		rec.Setup(se)
		for _, t := range []string{"doc", "folder", "group"} {
			for _, id := range IDs[t][:2] {
				for _, rel := range cs.Model.RelsOf(t) {
					ev := &ExpandEv{Eng: "server", O: Obj{t, id}, R: rel}
					switch r.Intn(3) {
					case 0:
						ev.Ctxt = ctxt
					case 1:
						// contextual tuples that repeat stored ones, interleaved with new ones: the tree must
						// still list every user / tupleset parent once
						mix := append([]Tuple{}, ctxt...)
						for _, t := range stored {
							if len(mix) < 12 && chance(r, 0.5) && Writable(cs.Model, t) {
								mix = append(mix, t)
							}
						}
						r.Shuffle(len(mix), func(i, j int) { mix[i], mix[j] = mix[j], mix[i] })
						ev.Ctxt = mix
					}
					v.Base.RunExpand(ctx, ev)
					rec.Add(ev)
					run.Evals++
					run.Nontrivial(hashOf([]any{cs.Model, cs.Tuples, t, id, rel, len(ev.Ctxt)}))
				}
			}
		}
		if c < 2 {
			run.AddSample(map[string]any{"model": cs.Model.String(), "tuples": tupleStrings(cs.Tuples), "last_event": rec.Events[len(rec.Events)-1]})
		}
	}
	sum := rec.Validate(run, 16)
	run.Coverage["rule"] = "C01 models and tuple sets (valid tuples split between stored and contextual); Expand of every relation of two objects per type; judged by TLC against ExpandOK (DESIGN D.5): node names, node kinds mirror the rewrite, leaf users = users of valid stored ∪ contextual tuples, duplicate-free and sorted, tuple-to-userset leaves list one computed entry per distinct valid tupleset user; every (model, tuples, object, relation) counts as non-trivial"
	run.Coverage["cases"] = nCases
	run.Coverage["judged_by_tlc"] = sum.Judged
	run.Coverage["verdict_classes"] = sum.Counts
	run.Assumptions = []string{"sortedness of leaf users is measured by the driver (TLC cannot order strings) and required TRUE by the spec"}
}

// splitTuples moves a random subset of the writable tuples into the contextual set.
func splitTuples(r *rand.Rand, cs *Case) (stored, ctxt []Tuple) {
	for _, t := range cs.Tuples {
		if len(ctxt) < 8 && chance(r, 0.4) && Writable(cs.Model, t) {
			ctxt = append(ctxt, t)
		} else {
			stored = append(stored, t)
		}
	}
	return
}

// Writable is the harness-side approximation "accepted as a contextual tuple"
// used only to decide which tuples may be moved to the contextual set; tuples it
// wrongly admits make the request fail validation, which the drivers skip.
func Writable(m *Model, t Tuple) bool {
	def := m.Rel(t.O.T, t.R)
	if def == nil {
		return false
	}
	for _, x := range def.Restr {
		if x.T != t.U.T || x.Cond != t.C {
			continue
		}
		switch {
		case t.U.IsUserset():
			if x.Rel == t.U.Rel && !x.WC {
				return ctxOK(m, t)
			}
		case t.U.IsWild():
			if x.WC {
				return ctxOK(m, t)
			}
		default:
			if x.Rel == "" && !x.WC {
				return ctxOK(m, t)
			}
		}
	}
	return false
}

func ctxOK(m *Model, t Tuple) bool {
	if t.C == "" {
		return true
	}
	c := m.Cond(t.C)
	if c == nil {
		return false
	}
	for k, v := range t.Cctx {
		ok := false
		for _, p := range c.Params {
			if p.N == k {
				switch p.Ty {
				case "int":
					ok = v.K == "num" || (v.K == "str" && v.IsInt)
				case "string":
					ok = v.K == "str"
				case "bool":
					ok = v.K == "bool"
				case "list<string>":
					ok = v.K == "list"
				}
			}
		}
		if !ok {
			return false
		}
	}
	return true
}

// ---------------------------------------------------------------- C04

func C04(run *Run) {
	ctx := context.Background()
	if run.Replay != "" {
		replayCore(run)
		return
	}
	r := rand.New(rand.NewSource(run.Seed))
	v := NewVariants()
	defer v.Close()
	nCases := run.Pick(80, 800) // the whole trace is held in memory until TLC has judged it: 1500 cases did not fit for every seed
	rec := &Recorder{}
	loEngines := []string{"classic", "weighted", "pipeline"}
	skippedInvalid := 0
	ordered := contextualOrderCases() // contextual vs stored tuple in one bucket, every order
	for c := 0; c < nCases+len(ordered); c++ {
		var cs *Case
		var stored, ctxt []Tuple
		var reqs []Req
		if c < nCases {
			cs, _ = GenCase(r, c, GenOpts{MinTuples: 8})
			stored, ctxt = splitTuples(r, cs)
		} else {
			sc := ordered[c-nCases]
			cs, stored, ctxt, reqs = sc.cs, sc.stored, sc.ctxt, sc.reqs
		}
		if err := v.Base.Setup(ctx, cs.Model, stored); err != nil {
			run.Inconclusive("setup failed: %v", err)
		}
		ts, mg, err := v.Base.Typesystem(ctx, cs.Model)
		if err != nil {
			run.Inconclusive("typesystem: %v", err)
		}
		se := cs.SetupEv()
		se.Tuples = normTuples(stored)
		rec.Setup(se)
		if reqs == nil {
			reqs = GenRequests(r, cs, run.Pick(16, 30))
		}
		for i, q := range reqs {
			var ct []Tuple
			switch i % 3 { // interleave: full contextual set, a different subset, none
			case 0:
				ct = ctxt
			case 1:
				for _, t := range ctxt {
					if chance(r, 0.5) {
						ct = append(ct, t)
					}
				}
			}
			var v1def *CheckEv
			for _, eng := range []string{"server", "v1:default", "v1:weight2", "v1:recursive"} {
				ev := &CheckEv{Eng: eng, O: q.O, R: q.R, U: q.U, Ctx: q.Ctx, Ctxt: ct}
				v.Base.RunCheck(ctx, ev, ts, mg)
				if ev.Got == "ERR" && ev.Errk != "cond" && len(ct) > 0 && strings.Contains(ev.Err, "nvalid") {
					skippedInvalid++ // contextual tuple refused by validation: not a C04 case
					continue
				}
				if eng == "v1:default" {
					v1def = ev
				}
				rec.Add(ev)
				run.Evals++
			}
			// the weighted-graph engine keeps contextual tuples in its own index next to the datastore
			if mg != nil && v1def != nil {
				for _, eng := range []string{"v2:default", "v2:weight2", "v2:recursive", "server:v2"} {
					if (eng == "v2:weight2" || eng == "v2:recursive") && !IsPlainSubj(q.U) {
						continue // object subjects only on the forced non-default v2 strategies here (C03 covers the others): keeps the trace within memory
					}
					ev := &V2Ev{CheckEv: CheckEv{Eng: eng, O: q.O, R: q.R, U: q.U, Ctx: q.Ctx, Ctxt: ct}}
					if eng == "server:v2" {
						v.Get("server:v2").RunCheck(ctx, &ev.CheckEv, ts, mg)
					} else {
						v.Base.RunCheck(ctx, &ev.CheckEv, ts, mg)
					}
					fillV2(ev, v1def, cs, ts, q)
					rec.Add(ev)
					run.Evals++
					if V2RanAway.Load() {
						break // KF-28: the abandoned call keeps spawning goroutines; judge what was recorded and finish
					}
				}
			}
			if V2RanAway.Load() {
				run.Note("KF-28: a weighted-graph Check neither answered nor stopped when cancelled (case %d); exploration cut short there, input in replays/v2-runaway-*.txt", c)
				break
			}
			if i%4 == 0 {
				for _, eng := range loEngines {
					ev := &ListObjectsEv{Eng: eng, T: q.O.T, R: q.R, U: q.U, Ctx: q.Ctx, Ctxt: ct}
					if !v.RunLO(ctx, ev) {
						continue
					}
					if ev.IsErr && ev.Errk != "cond" && strings.Contains(ev.Err, "nvalid") {
						skippedInvalid++
						continue
					}
					rec.Add(ev)
					run.Evals++
				}
				lu := &ListUsersEv{Eng: "server", O: q.O, R: q.R, FT: "user", Ctx: q.Ctx, Ctxt: ct}
				v.Base.RunListUsers(ctx, lu)
				if !(lu.IsErr && lu.Errk != "cond" && strings.Contains(lu.Err, "nvalid")) {
					rec.Add(lu)
					run.Evals++
				}
				ex := &ExpandEv{Eng: "server", O: q.O, R: q.R, Ctxt: ct}
				v.Base.RunExpand(ctx, ex)
				if !(ex.IsErr && strings.Contains(ex.Err, "nvalid")) {
					rec.Add(ex)
					run.Evals++
				}
			}
			if len(ct) > 0 {
				run.Nontrivial(hashOf([]any{cs.Model, stored, ct, q}))
			}
		}
		if V2RanAway.Load() {
			break
		}
		// contextual tuples never persist: read the store back through the API
		dump, err := v.Base.ReadAll(ctx)
		if err != nil {
			run.Inconclusive("read back: %v", err)
		}
		rec.Add(&StateDumpEv{E: "StateDump", Tuples: dump})
		if c < 2 {
			run.AddSample(map[string]any{"model": cs.Model.String(), "stored": tupleStrings(stored), "contextual": tupleStrings(ctxt)})
		}
	}
	sum := rec.Validate(run, 16)
	run.Coverage["rule"] = "C01 cases with the writable tuples split at random between stored and contextual; Check (server + three forced strategies), ListObjects (3 engines), ListUsers and Expand issued with the full contextual set, a random subset, or none, interleaved; TLC judges each answer against Chk over stored ∪ that request's contextual tuples, and a final StateDump (Read through the API) must equal the stored set; non-trivial = request carrying ≥1 contextual tuple, distinct by hash"
	run.Coverage["cases"] = nCases
	run.Coverage["judged_by_tlc"] = sum.Judged
	run.Coverage["verdict_classes"] = sum.Counts
	run.Coverage["requests_skipped_contextual_tuple_rejected"] = skippedInvalid
	run.Assumptions = []string{"reference = FGACore.Chk", "caches are off in this check (cache interaction is C08/C09)"}
}

type StateDumpEv struct {
	E      string  `json:"e"`
	Tuples []Tuple `json:"tuples"`
}

// ReadAll reads every tuple of the store through the public Read API.
func (e *Env) ReadAll(ctx context.Context) ([]Tuple, error) {
	var out []Tuple
	token := ""
	for {
		resp, err := e.S.Read(ctx, &openfgav1.ReadRequest{StoreId: e.StoreID, ContinuationToken: token})
		if err != nil {
			return nil, err
		}
		for _, t := range resp.GetTuples() {
			out = append(out, TupleFromProto(t.GetKey()))
		}
		token = resp.GetContinuationToken()
		if token == "" {
			return out, nil
		}
	}
}

func TupleFromProto(tk *openfgav1.TupleKey) Tuple {
	t := Tuple{O: ParseObj(tk.GetObject()), R: tk.GetRelation(), U: ParseSubj(tk.GetUser()), Cctx: Ctx{}}
	if c := tk.GetCondition(); c != nil {
		t.C = c.GetName()
		for k, v := range c.GetContext().GetFields() {
			t.Cctx[k] = ValFromProto(v.AsInterface())
		}
	}
	return t
}

func ValFromProto(x any) Val {
	switch v := x.(type) {
	case float64:
		if v == float64(int64(v)) {
			return NumVal(int64(v))
		}
		return Val{K: "frac"}
	case string:
		return StrVal(v)
	case bool:
		return BoolVal(v)
	case []any:
		var l []Val
		for _, e := range v {
			l = append(l, ValFromProto(e))
		}
		return ListVal(l...)
	case nil:
		return Val{K: "null"}
	}
	return Val{K: "null"}
}

var _ = fmt.Sprint
var _ = tuple.Wildcard
