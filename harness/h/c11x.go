package h

import (
	"context"
	"errors"
	"fmt"
	"math/rand"
	"path/filepath"
	"strconv"
	"strings"
	"sync"
	"time"

	"golang.org/x/sync/singleflight"

	openfgav1 "github.com/openfga/api/proto/openfga/v1"

	"github.com/openfga/openfga/pkg/storage"
	"github.com/openfga/openfga/pkg/storage/cache/keys"
	"github.com/openfga/openfga/pkg/storage/storagewrappers"
	"github.com/openfga/openfga/pkg/tuple"
)

// Iterator-cache conformance (spec/cache/IterCache*.tla): the design model is checked exhaustively
// by TLC; random operation sequences (reads - full, partial, HIGHER_CONSISTENCY -, datastore
// changes, invalidation markers set with present and past times, markers and entries dropped) are
// run on the real CachedDatastore over a real in-memory cache and judged by IterCacheTrace.tla.

var CacheSpecDirs = func() []string { return []string{filepath.Join(VerifRoot(), "spec", "cache")} }

type icQuery struct {
	Ents []string `json:"ents"`
	Big  bool     `json:"big"`
	kind string   // rswu | read | rut
	obj  string   // read / rut: object; rswu: object type
	rel  string
	usrs []string // rswu subjects
	base int      // answer size of version 1
}

const icStore = "01J0000000000000000000ICST"

func icQueries() []icQuery {
	return []icQuery{
		{Ents: []string{"UOT|user:a|doc", "UOT|user:*|doc"}, kind: "rswu", obj: "doc", rel: "viewer", usrs: []string{"user:a", "user:*"}, base: 2},
		{Ents: []string{"UOT|user:a|doc"}, kind: "rswu", obj: "doc", rel: "viewer", usrs: []string{"user:a"}, base: 1},
		{Ents: []string{"OR|doc:1|parent"}, kind: "read", obj: "doc:1", rel: "parent", base: 3},
		{Ents: []string{"OR|doc:1|viewer"}, kind: "rut", obj: "doc:1", rel: "viewer", base: 2},
		{Ents: []string{"OR|doc:2|parent"}, Big: true, kind: "read", obj: "doc:2", rel: "parent", base: 8},
		{Ents: []string{"UOT|group:1#member|doc", "UOT|user:*|doc"}, kind: "rswu", obj: "doc", rel: "editor", usrs: []string{"group:1#member", "user:*"}, base: 2},
	}
}

func icEntityKey(ent string) keys.Key {
	p := strings.Split(ent, "|")
	if p[0] == "OR" {
		return storage.InvalidIteratorByObjectRelationCacheKey(icStore, p[1], p[2])
	}
	return storage.InvalidIteratorByUserObjectTypeCacheKey(icStore, p[1], p[2])
}

// icReader is the datastore underneath: its answer to query q is determined by q's current version.
type icReader struct {
	storage.RelationshipTupleReader
	mu  sync.Mutex
	qs  []icQuery
	ver []int
}

func icCount(q icQuery, ver int) int { return q.base + ver%2 }

func (r *icReader) answer(i int) storage.TupleIterator {
	r.mu.Lock()
	q, v := r.qs[i], r.ver[i]
	r.mu.Unlock()
	var ts []*openfgav1.Tuple
	for k := 0; k < icCount(q, v); k++ {
		tag := fmt.Sprintf("v%di%d", v, k)
		var tk *openfgav1.TupleKey
		switch q.kind {
		case "rswu":
			tk = tuple.NewTupleKey("doc:"+tag, q.rel, q.usrs[k%len(q.usrs)])
		case "read":
			tk = tuple.NewTupleKey(q.obj, q.rel, "folder:"+tag)
		default:
			tk = tuple.NewTupleKey(q.obj, q.rel, "group:"+tag+"#member")
		}
		ts = append(ts, &openfgav1.Tuple{Key: tk})
	}
	return storage.NewStaticTupleIterator(ts)
}
func (r *icReader) find(kind, obj, rel string, users []string) int {
	for i, q := range r.qs {
		if q.kind == kind && q.obj == obj && q.rel == rel && strings.Join(q.usrs, ",") == strings.Join(users, ",") {
			return i
		}
	}
	return -1
}
func (r *icReader) Read(_ context.Context, _ string, f storage.ReadFilter, _ storage.ReadOptions) (storage.TupleIterator, error) {
	if i := r.find("read", f.Object, f.Relation, nil); i >= 0 {
		return r.answer(i), nil
	}
	return nil, errors.New("verif: unknown read")
}
func (r *icReader) ReadUsersetTuples(_ context.Context, _ string, f storage.ReadUsersetTuplesFilter, _ storage.ReadUsersetTuplesOptions) (storage.TupleIterator, error) {
	if i := r.find("rut", f.Object, f.Relation, nil); i >= 0 {
		return r.answer(i), nil
	}
	return nil, errors.New("verif: unknown read")
}
func (r *icReader) ReadStartingWithUser(_ context.Context, _ string, f storage.ReadStartingWithUserFilter, _ storage.ReadStartingWithUserOptions) (storage.TupleIterator, error) {
	var us []string
	for _, u := range f.UserFilter {
		s := u.GetObject()
		if u.GetRelation() != "" {
			s += "#" + u.GetRelation()
		}
		us = append(us, s)
	}
	if i := r.find("rswu", f.ObjectType, f.Relation, us); i >= 0 {
		return r.answer(i), nil
	}
	return nil, errors.New("verif: unknown read")
}

// icVersion extracts the version tag of a returned tuple (-1 if none).
func icVersion(t *openfgav1.Tuple) int {
	for _, s := range []string{t.GetKey().GetObject(), t.GetKey().GetUser()} {
		if i := strings.Index(s, ":v"); i >= 0 {
			rest := s[i+2:]
			if j := strings.Index(rest, "i"); j > 0 {
				if v, err := strconv.Atoi(rest[:j]); err == nil {
					return v
				}
			}
		}
	}
	return -1
}

func iterCacheRun(r *rand.Rand, steps int) []any {
	ctx := context.Background()
	qs := icQueries()
	inner := &icReader{qs: qs, ver: make([]int, len(qs))}
	for i := range inner.ver {
		inner.ver[i] = 1
	}
	cache, err := storage.NewInMemoryLRUCache[any]()
	if err != nil {
		panic(err)
	}
	defer cache.Stop()
	var wg sync.WaitGroup
	cds := storagewrappers.NewCachedDatastore(ctx, inner, cache, 5, time.Hour, &singleflight.Group{}, &wg)
	events := []any{map[string]any{"e": "Reset", "queries": qs}}
	times := []time.Time{{}} // times[t] = wall clock at the start of operation t
	tick := func() int {
		last := time.Now()
		if len(times) > 1 {
			last = times[len(times)-1]
		}
		now := time.Now()
		for !now.After(last) {
			now = time.Now()
		}
		for !time.Now().After(now) { // and strictly before anything the operation itself stamps
		}
		times = append(times, now)
		return len(times) - 1
	}
	entUniverse := []string{}
	seen := map[string]bool{}
	for _, q := range qs {
		for _, e := range q.Ents {
			if !seen[e] {
				seen[e] = true
				entUniverse = append(entUniverse, e)
			}
		}
	}
	pastOrNow := func(t int) int {
		if r.Intn(3) == 0 && t > 1 {
			return 1 + r.Intn(t) // a change time in the past (the controller stamps entity markers with the change's time)
		}
		return t
	}
	for s := 0; s < steps; s++ {
		t := tick()
		switch x := r.Intn(100); {
		case x < 42:
			qi := r.Intn(len(qs))
			q := qs[qi]
			hc := r.Intn(10) == 0
			pref := openfgav1.ConsistencyPreference_UNSPECIFIED
			if hc {
				pref = openfgav1.ConsistencyPreference_HIGHER_CONSISTENCY
			}
			var it storage.TupleIterator
			var err error
			switch q.kind {
			case "rswu":
				f := storage.ReadStartingWithUserFilter{ObjectType: q.obj, Relation: q.rel}
				for _, u := range q.usrs {
					o, rel := tuple.SplitObjectRelation(u)
					f.UserFilter = append(f.UserFilter, &openfgav1.ObjectRelation{Object: o, Relation: rel})
				}
				it, err = cds.ReadStartingWithUser(ctx, icStore, f, storage.ReadStartingWithUserOptions{Consistency: storage.ConsistencyOptions{Preference: pref}})
			case "read":
				it, err = cds.Read(ctx, icStore, storage.ReadFilter{Object: q.obj, Relation: q.rel}, storage.ReadOptions{Consistency: storage.ConsistencyOptions{Preference: pref}})
			default:
				it, err = cds.ReadUsersetTuples(ctx, icStore, storage.ReadUsersetTuplesFilter{Object: q.obj, Relation: q.rel}, storage.ReadUsersetTuplesOptions{Consistency: storage.ConsistencyOptions{Preference: pref}})
			}
			ev := map[string]any{"e": "Read", "q": qi + 1, "hc": hc, "part": false, "ver": -1, "n": 0, "wantn": 0}
			if err != nil {
				ev["ver"], ev["err"] = -2, err.Error()
			} else {
				limit := -1
				if r.Intn(4) == 0 {
					limit = 1 // abandoned after a partial read
					ev["part"] = true
				}
				n, ver := 0, -1
				for limit < 0 || n < limit {
					tp, err := it.Next(ctx)
					if err != nil {
						break
					}
					v := icVersion(tp)
					if ver == -1 {
						ver = v
					} else if v != ver {
						ver = -3 // mixed versions in one answer
					}
					n++
				}
				it.Stop()
				wg.Wait() // the background fill belongs to this operation
				ev["ver"], ev["n"] = ver, n
				if ver > 0 {
					ev["wantn"] = icCount(q, ver)
				}
			}
			events = append(events, ev)
		case x < 57:
			qi := r.Intn(len(qs))
			inner.mu.Lock()
			inner.ver[qi]++
			inner.mu.Unlock()
			events = append(events, map[string]any{"e": "Write", "q": qi + 1})
		case x < 77:
			e := entUniverse[r.Intn(len(entUniverse))]
			at := pastOrNow(t)
			cache.Set(icEntityKey(e), &storage.InvalidEntityCacheEntry{LastModified: times[at]}, time.Hour)
			events = append(events, map[string]any{"e": "MarkEntity", "ent": e, "at": at})
		case x < 82:
			at := pastOrNow(t)
			cache.Set(storage.InvalidIteratorCacheKey(icStore), &storage.InvalidEntityCacheEntry{LastModified: times[at]}, time.Hour)
			events = append(events, map[string]any{"e": "MarkStore", "at": at})
		case x < 89:
			e := entUniverse[r.Intn(len(entUniverse))]
			cache.Delete(icEntityKey(e))
			events = append(events, map[string]any{"e": "DropEntity", "ent": e})
		case x < 92:
			cache.Delete(storage.InvalidIteratorCacheKey(icStore))
			events = append(events, map[string]any{"e": "DropStore"})
		default:
			qi := r.Intn(len(qs))
			q := qs[qi]
			var k keys.Key
			switch q.kind {
			case "rswu":
				f := storage.ReadStartingWithUserFilter{ObjectType: q.obj, Relation: q.rel}
				for _, u := range q.usrs {
					o, rel := tuple.SplitObjectRelation(u)
					f.UserFilter = append(f.UserFilter, &openfgav1.ObjectRelation{Object: o, Relation: rel})
				}
				k = storage.ReadStartingWithUserKey(icStore, f)
			case "read":
				k = storage.ReadKey(icStore, storage.ReadFilter{Object: q.obj, Relation: q.rel})
			default:
				k = storage.ReadUsersetTuplesKey(icStore, storage.ReadUsersetTuplesFilter{Object: q.obj, Relation: q.rel})
			}
			cache.Delete(k)
			events = append(events, map[string]any{"e": "DropEntry", "q": qi + 1})
		}
	}
	return events
}

// iterCacheConformance runs the design model and the conformance runs; violations are recorded on run.
func iterCacheConformance(run *Run) {
	for _, c := range []struct {
		cfg     string
		violate bool
	}{{"IterCacheMC.cfg", false}, {"IterCacheMC_bad.cfg", true}} {
		out, err := TLCRun{SpecDirs: CacheSpecDirs(), Module: "IterCacheMC", Config: c.cfg, Workers: 8, Timeout: 15 * time.Minute}.Run()
		if err != nil || out.TimedOut {
			run.Inconclusive("TLC on %s: %v\n%s", c.cfg, err, tail(out))
		}
		switch {
		case c.violate && !strings.Contains(out.Violated, "NoStaleAfterInvalidation"):
			run.Inconclusive("IterCacheMC_bad.cfg (the 'first marker decides' variant) no longer violates NoStaleAfterInvalidation: the design check would be vacuous\n%s", tail(out))
		case !c.violate && out.Violated != "":
			run.Violation(map[string]any{"prop": run.Prop, "class": "DESIGN_MODEL_VIOLATION", "cfg": c.cfg, "violated": out.Violated, "tlc": tail(out)}, "IterCache design model violates "+out.Violated)
		case !c.violate && !strings.Contains(out.Stdout, "No error has been found"):
			run.Inconclusive("TLC on %s did not complete:\n%s", c.cfg, tail(out))
		}
		run.Coverage["tlc:"+c.cfg] = fmt.Sprintf("%d states generated, %d distinct (%s)", out.Generated, out.Distinct, map[bool]string{false: "holds", true: "violated as intended"}[c.violate])
	}
	r := rand.New(rand.NewSource(run.Seed + 1100))
	var events []any
	cuts := map[int]bool{}
	for i := 0; i < run.Pick(120, 1500); i++ {
		cuts[len(events)] = true
		events = append(events, iterCacheRun(r, 40+r.Intn(60))...)
	}
	sum, err := ValidateTrace(CacheSpecDirs(), "IterCacheTrace", events, 8, func(i int) bool { return cuts[i] }, 15*time.Minute)
	if err != nil {
		run.Inconclusive("IterCacheTrace validation failed: %v", err)
	}
	for _, b := range sum.Bad {
		lo := b.L
		for lo > 0 && !cuts[lo] {
			lo--
		}
		run.Classified(b.Cls, map[string]any{"prop": run.Prop, "class": b.Cls, "kind": "itercache", "line": b.L - lo, "run": events[lo : b.L+1], "want": b.Ref}, fmt.Sprintf("%s line %s want version %s (%s)", b.Cls, jsonOf(events[b.L]), b.Ref, b.Note))
	}
	run.Evals += sum.Judged
	run.Coverage["itercache_reads_judged"] = sum.Judged
	run.Coverage["itercache_classes"] = sum.Counts
}

// DebugIterCache runs the iterator-cache conformance alone (./check dbg-itercache).
func DebugIterCache(run *Run) {
	iterCacheConformance(run)
	fmt.Println("itercache classes:", run.Coverage["itercache_classes"], "violations:", run.Violations())
}
