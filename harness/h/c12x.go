package h

import (
	"context"
	"errors"
	"fmt"
	"math/rand"
	"os"
	"sort"
	"sync"
	"time"

	openfgav1 "github.com/openfga/api/proto/openfga/v1"

	"github.com/openfga/openfga/pkg/storage"
	"github.com/openfga/openfga/pkg/tuple"
)

// C12 under concurrency (spec/store/ConcWriteTrace.tla): rounds of 2-4 Write requests racing on a
// handful of hot keys (every option combination), on a store that also holds a few thousand other
// tuples; after every round the changelog entries the round appended and the hot keys present are
// read back and TLC searches for a serial order of the successful requests that explains both.

var concHot = []Tuple{tp("doc:1", "viewer", "group:1#member"), tp("doc:1", "viewer", "group:1#admin"), tp("doc:1", "viewer", "user:a"), tp("doc:1", "viewer", "user:b"), tp("doc:2", "viewer", "user:a"), tp("folder:1", "viewer", "user:a"), tp("group:1", "member", "user:a")}

func concWritesProbe(run *Run) {
	ctx := context.Background()
	r := rand.New(rand.NewSource(run.Seed + 1200))
	var events []any
	for _, backend := range []string{"memory", "sqlite"} {
		se, err := NewStoreEnv(backend)
		if err != nil {
			run.Inconclusive("backend %s: %v", backend, err)
		}
		rec := &StoreRec{Backend: backend}
		rec.Reset()
		sid, mid, err := se.newStore(ctx, rec, "conc", StoreModel())
		if err != nil {
			run.Inconclusive("conc store: %v", err)
		}
		// ballast: the validation phase of a write gets slower, the window between validation and application wider
		for b := 0; b < 30; b++ {
			var tks []*openfgav1.TupleKey
			for i := 0; i < 100; i++ {
				tks = append(tks, tuple.NewTupleKey(fmt.Sprintf("doc:ballast%d", b*100+i), "viewer", "user:z"))
			}
			if err := se.DS.Write(ctx, sid, nil, tks); err != nil {
				run.Inconclusive("ballast: %v", err)
			}
		}
		// position of the changelog after the ballast
		token := ""
		for {
			_, tok, err := se.DS.ReadChanges(ctx, sid, storage.ReadChangesFilter{}, storage.ReadChangesOptions{Pagination: storage.NewPaginationOptions(100, token)})
			if errors.Is(err, storage.ErrNotFound) || err != nil {
				break
			}
			token = tok
		}
		present := map[string]bool{}
		keyOf := func(t Tuple) string { return t.Key() }
		rounds := run.Pick(120, 1200)
		if backend == "sqlite" {
			rounds = run.Pick(60, 500)
		}
		for round := 0; round < rounds; round++ {
			n := 2 + r.Intn(3)
			reqs := make([]*WriteEv, n)
			for i := range reqs {
				ev := &WriteEv{OnDup: pick(r, []string{"", "", "ignore"}), OnMiss: pick(r, []string{"", "", "ignore"})}
				used := map[string]bool{}
				for k, m := 0, 1+r.Intn(2); k < m; k++ {
					t := concHot[r.Intn(len(concHot))]
					if used[keyOf(t)] {
						continue
					}
					used[keyOf(t)] = true
					if r.Intn(3) == 0 {
						ev.Dels = append(ev.Dels, t)
					} else {
						ev.Wrs = append(ev.Wrs, t)
					}
				}
				reqs[i] = ev
			}
			var pre []string
			for _, t := range concHot {
				if present[keyOf(t)] {
					pre = append(pre, keyOf(t))
				}
			}
			var wg sync.WaitGroup
			start := make(chan struct{})
			for i := range reqs {
				wg.Add(1)
				go func(ev *WriteEv) {
					defer wg.Done()
					<-start
					se.apiWrite(ctx, sid, mid, ev)
				}(reqs[i])
			}
			close(start)
			wg.Wait()
			// what the round appended to the changelog
			var log []map[string]any
			for {
				page, tok, err := se.DS.ReadChanges(ctx, sid, storage.ReadChangesFilter{}, storage.ReadChangesOptions{Pagination: storage.NewPaginationOptions(100, token)})
				if errors.Is(err, storage.ErrNotFound) || (err == nil && len(page) == 0) {
					break
				}
				if err != nil {
					run.Inconclusive("conc read changes: %v", err)
				}
				if os.Getenv("VERIF_DEBUG") == "conc" {
					for _, c := range page {
						fmt.Printf("DBG round %d from=%s tok=%s %s %v ts=%d\n", round, token, tok, tuple.TupleKeyToString(c.GetTupleKey()), c.GetOperation(), c.GetTimestamp().AsTime().UnixNano())
					}
				}
				for _, c := range page {
					op := "write"
					if c.GetOperation() == openfgav1.TupleOperation_TUPLE_OPERATION_DELETE {
						op = "delete"
					}
					log = append(log, map[string]any{"op": op, "key": tuple.TupleKeyToString(c.GetTupleKey())})
				}
				token = tok
			}
			// the hot keys present now
			var post []string
			for _, t := range concHot {
				_, err := se.DS.ReadUserTuple(ctx, sid, storage.ReadUserTupleFilter{Object: t.O.String(), Relation: t.R, User: t.U.String()}, storage.ReadUserTupleOptions{})
				present[keyOf(t)] = err == nil
				if err == nil {
					post = append(post, keyOf(t))
				}
			}
			sort.Strings(pre)
			sort.Strings(post)
			var rs []map[string]any
			for _, ev := range reqs {
				ks := func(ts []Tuple) []string {
					out := []string{}
					for _, t := range ts {
						out = append(out, keyOf(t))
					}
					return out
				}
				rs = append(rs, map[string]any{"dels": ks(ev.Dels), "wrs": ks(ev.Wrs), "onDup": ev.OnDup, "onMiss": ev.OnMiss, "ok": ev.Got == "ok", "errk": ev.Errk})
			}
			if log == nil {
				log = []map[string]any{}
			}
			if pre == nil {
				pre = []string{}
			}
			if post == nil {
				post = []string{}
			}
			events = append(events, map[string]any{"e": "ConcWrites", "backend": backend, "pre": pre, "reqs": rs, "log": log, "post": post})
			run.Evals++
			run.Nontrivial(fmt.Sprintf("conc %s %d", backend, round))
		}
		se.Close()
	}
	sum, err := ValidateTrace(StoreSpecDirs(), "ConcWriteTrace", events, 8, func(int) bool { return true }, 15*time.Minute)
	if err != nil {
		run.Inconclusive("ConcWriteTrace validation failed: %v", err)
	}
	for _, b := range sum.Bad {
		run.Classified(b.Cls, map[string]any{"prop": run.Prop, "class": b.Cls, "kind": "conc", "event": events[b.L]}, fmt.Sprintf("%s %s", b.Cls, jsonOf(events[b.L])))
	}
	run.Coverage["concurrent_write_rounds_judged"] = sum.Judged
	run.Coverage["concurrent_write_classes"] = sum.Counts
}

// DebugConc runs the concurrent-writers probe alone (./check dbg-conc).
func DebugConc(run *Run) {
	concWritesProbe(run)
	fmt.Println("conc classes:", run.Coverage["concurrent_write_classes"], "violations:", run.Violations())
}

// burstWalkProbe (C14): bursts of concurrent writers on distinct keys, then a paginated walk of the
// changelog entries the burst appended; ConcWriteTrace!TrBurst requires every entry exactly once.
func burstWalkProbe(run *Run) {
	ctx := context.Background()
	r := rand.New(rand.NewSource(run.Seed + 1400))
	var events []any
	for _, backend := range []string{"memory", "sqlite"} {
		se, err := NewStoreEnv(backend)
		if err != nil {
			run.Inconclusive("backend %s: %v", backend, err)
		}
		rec := &StoreRec{Backend: backend}
		rec.Reset()
		sid, mid, err := se.newStore(ctx, rec, "burst", StoreModel())
		if err != nil {
			run.Inconclusive("burst store: %v", err)
		}
		token := ""
		bursts := run.Pick(6, 40)
		if backend == "sqlite" {
			bursts = run.Pick(3, 15)
		}
		for b := 0; b < bursts; b++ {
			writers, per := 8+r.Intn(9), 20
			if backend == "sqlite" {
				writers, per = 4, 8
			}
			var wg sync.WaitGroup
			var okCount sync.Map
			for g := 0; g < writers; g++ {
				wg.Add(1)
				go func(g int) {
					defer wg.Done()
					n := 0
					for i := 0; i < per; i++ {
						ev := &WriteEv{Wrs: []Tuple{tp(fmt.Sprintf("doc:b%dg%di%d", b, g, i), "viewer", "user:a")}}
						se.apiWrite(ctx, sid, mid, ev)
						if ev.Got == "ok" {
							n++
						}
					}
					okCount.Store(g, n)
				}(g)
			}
			wg.Wait()
			written := 0
			okCount.Range(func(_, v any) bool { written += v.(int); return true })
			seen := map[string]int{}
			delivered := 0
			size := 3 + r.Intn(9)
			for guard := 0; guard < 100000; guard++ {
				page, tok, err := se.DS.ReadChanges(ctx, sid, storage.ReadChangesFilter{}, storage.ReadChangesOptions{Pagination: storage.NewPaginationOptions(int32(size), token)})
				if errors.Is(err, storage.ErrNotFound) || (err == nil && len(page) == 0) {
					break
				}
				if err != nil {
					run.Inconclusive("burst read changes: %v", err)
				}
				for _, c := range page {
					seen[tuple.TupleKeyToString(c.GetTupleKey())]++
					delivered++
				}
				token = tok
			}
			events = append(events, map[string]any{"e": "BurstWalk", "backend": backend, "written": written, "delivered": delivered, "distinct": len(seen), "page": size, "writers": writers})
			run.Evals++
			run.Nontrivial(fmt.Sprintf("burst %s %d", backend, b))
		}
		se.Close()
	}
	sum, err := ValidateTrace(StoreSpecDirs(), "ConcWriteTrace", events, 2, func(int) bool { return true }, 10*time.Minute)
	if err != nil {
		run.Inconclusive("ConcWriteTrace (burst) validation failed: %v", err)
	}
	for _, b := range sum.Bad {
		run.Classified(b.Cls, map[string]any{"prop": run.Prop, "class": b.Cls, "kind": "burst", "event": events[b.L]}, fmt.Sprintf("%s %s", b.Cls, jsonOf(events[b.L])))
	}
	run.Coverage["burst_walks_judged"] = sum.Judged
	run.Coverage["burst_walk_classes"] = sum.Counts
}
