// Package h is the shared core of the verification harness: the abstract
// (spec-side) representation of models, tuples and requests, their conversion
// to the real protobuf API and to the JSON form the TLA+ trace specs read.
package h

import (
	"encoding/json"
	"fmt"
	"sort"
	"strconv"
	"strings"

	openfgav1 "github.com/openfga/api/proto/openfga/v1"
	"google.golang.org/protobuf/types/known/structpb"
)

// ---------------------------------------------------------------- values

type Obj struct {
	T  string `json:"t"`
	ID string `json:"id"`
}

func (o Obj) String() string { return o.T + ":" + o.ID }

type Subj struct {
	T   string `json:"t"`
	ID  string `json:"id"`
	Rel string `json:"rel"`
}

func (s Subj) String() string {
	if s.Rel != "" {
		return s.T + ":" + s.ID + "#" + s.Rel
	}
	return s.T + ":" + s.ID
}
func (s Subj) IsWild() bool    { return s.Rel == "" && s.ID == "*" }
func (s Subj) IsUserset() bool { return s.Rel != "" }
func (s Subj) Obj() Obj        { return Obj{s.T, s.ID} }

func ParseObj(s string) Obj {
	i := strings.Index(s, ":")
	return Obj{s[:i], s[i+1:]}
}
func ParseSubj(s string) Subj {
	rel := ""
	if j := strings.LastIndex(s, "#"); j >= 0 {
		rel = s[j+1:]
		s = s[:j]
	}
	i := strings.Index(s, ":")
	return Subj{s[:i], s[i+1:], rel}
}

// Val is a JSON value tagged with its kind (see spec/core/Cond.tla).
type Val struct {
	K     string `json:"k"` // num | frac | str | bool | list | null
	V     any    `json:"v,omitempty"`
	IsNum bool   `json:"isnum"`
	IsInt bool   `json:"isint"`
	N     int64  `json:"n"`
}

// UnmarshalJSON restores the Go-side representation (int64 numbers, []Val lists)
// after a JSON round trip (replay files).
func (v *Val) UnmarshalJSON(b []byte) error {
	var raw struct {
		K     string          `json:"k"`
		V     json.RawMessage `json:"v"`
		IsNum bool            `json:"isnum"`
		IsInt bool            `json:"isint"`
		N     int64           `json:"n"`
	}
	if err := json.Unmarshal(b, &raw); err != nil {
		return err
	}
	v.K, v.IsNum, v.IsInt, v.N = raw.K, raw.IsNum, raw.IsInt, raw.N
	switch raw.K {
	case "num":
		var n int64
		if err := json.Unmarshal(raw.V, &n); err != nil {
			return err
		}
		v.V = n
	case "str":
		var s string
		if err := json.Unmarshal(raw.V, &s); err != nil {
			return err
		}
		v.V = s
	case "bool":
		var x bool
		if err := json.Unmarshal(raw.V, &x); err != nil {
			return err
		}
		v.V = x
	case "list":
		var l []Val
		if err := json.Unmarshal(raw.V, &l); err != nil {
			return err
		}
		v.V = l
	}
	return nil
}

func NumVal(n int64) Val { return Val{K: "num", V: n} }
func BoolVal(b bool) Val { return Val{K: "bool", V: b} }
func StrVal(s string) Val {
	v := Val{K: "str", V: s}
	if n, err := strconv.ParseInt(s, 10, 64); err == nil && !strings.HasPrefix(s, "+") {
		v.IsNum, v.IsInt, v.N = true, true, n
	}
	return v
}
func ListVal(vs ...Val) Val {
	l := make([]Val, len(vs))
	copy(l, vs)
	return Val{K: "list", V: l}
}

func (v Val) ToProto() *structpb.Value {
	switch v.K {
	case "num":
		return structpb.NewNumberValue(float64(v.V.(int64)))
	case "str":
		return structpb.NewStringValue(v.V.(string))
	case "bool":
		return structpb.NewBoolValue(v.V.(bool))
	case "list":
		var out []*structpb.Value
		for _, e := range v.V.([]Val) {
			out = append(out, e.ToProto())
		}
		return structpb.NewListValue(&structpb.ListValue{Values: out})
	case "null":
		return structpb.NewNullValue()
	case "map":
		s := &structpb.Struct{Fields: map[string]*structpb.Value{}}
		for k, e := range v.V.(map[string]Val) {
			s.Fields[k] = e.ToProto()
		}
		return structpb.NewStructValue(s)
	}
	panic("bad val kind " + v.K)
}

type Ctx map[string]Val

func (c Ctx) ToProto() *structpb.Struct {
	if c == nil {
		return nil
	}
	s := &structpb.Struct{Fields: map[string]*structpb.Value{}}
	for k, v := range c {
		s.Fields[k] = v.ToProto()
	}
	return s
}

type Tuple struct {
	O    Obj    `json:"o"`
	R    string `json:"r"`
	U    Subj   `json:"u"`
	C    string `json:"c"`
	Cctx Ctx    `json:"cctx"`
}

func (t Tuple) Key() string { return t.O.String() + "#" + t.R + "@" + t.U.String() }
func (t Tuple) String() string {
	s := t.Key()
	if t.C != "" {
		s += " with " + t.C + fmt.Sprint(map[string]Val(t.Cctx))
	}
	return s
}

func (t Tuple) ToProto() *openfgav1.TupleKey {
	tk := &openfgav1.TupleKey{Object: t.O.String(), Relation: t.R, User: t.U.String()}
	if t.C != "" {
		tk.Condition = &openfgav1.RelationshipCondition{Name: t.C, Context: t.Cctx.ToProto()}
	}
	return tk
}

// Normalised copy for JSON: Cctx never nil.
func (t Tuple) Norm() Tuple {
	if t.Cctx == nil {
		t.Cctx = Ctx{}
	}
	return t
}

// ---------------------------------------------------------------- model

type Rewrite struct {
	K    string     `json:"k"` // this computed ttu union inter diff
	Rel  string     `json:"rel,omitempty"`
	TS   string     `json:"ts,omitempty"`
	Ch   []*Rewrite `json:"ch,omitempty"`
	Base *Rewrite   `json:"base,omitempty"`
	Sub  *Rewrite   `json:"sub,omitempty"`
}

type Restr struct {
	T    string `json:"t"`
	Rel  string `json:"rel"`
	WC   bool   `json:"wc"`
	Cond string `json:"cond"`
}

type RelDef struct {
	T     string   `json:"t"`
	R     string   `json:"r"`
	Rw    *Rewrite `json:"rw"`
	Restr []Restr  `json:"restr"`
}

type Param struct {
	N  string `json:"n"`
	Ty string `json:"ty"`
}

// Expr is the condition expression AST of spec/core/Cond.tla.
type Expr struct {
	K  string `json:"k"`
	Ty string `json:"ty,omitempty"` // lit: int string bool
	V  any    `json:"v,omitempty"`
	N  string `json:"n,omitempty"` // param name
	A  *Expr  `json:"a,omitempty"`
	B  *Expr  `json:"b,omitempty"`
}

type CondDef struct {
	Name   string  `json:"name"`
	Params []Param `json:"params"`
	Expr   *Expr   `json:"expr,omitempty"`
	Cel    string  `json:"cel"` // the CEL source text (what the API stores and returns)
}

type Model struct {
	Types []string  `json:"types"`
	Rels  []RelDef  `json:"rels"`
	Conds []CondDef `json:"conds"`
}

func (m *Model) Rel(t, r string) *RelDef {
	for i := range m.Rels {
		if m.Rels[i].T == t && m.Rels[i].R == r {
			return &m.Rels[i]
		}
	}
	return nil
}
func (m *Model) RelsOf(t string) []string {
	var out []string
	for _, r := range m.Rels {
		if r.T == t {
			out = append(out, r.R)
		}
	}
	return out
}
func (m *Model) Cond(name string) *CondDef {
	for i := range m.Conds {
		if m.Conds[i].Name == name {
			return &m.Conds[i]
		}
	}
	return nil
}

func (e *Expr) CEL() string {
	bin := func(op string) string { return "(" + e.A.CEL() + " " + op + " " + e.B.CEL() + ")" }
	switch e.K {
	case "lit":
		switch e.Ty {
		case "int":
			return fmt.Sprint(e.V)
		case "string":
			return strconv.Quote(e.V.(string))
		case "bool":
			return fmt.Sprint(e.V)
		}
	case "param":
		return e.N
	case "lt":
		return bin("<")
	case "le":
		return bin("<=")
	case "gt":
		return bin(">")
	case "ge":
		return bin(">=")
	case "eq":
		return bin("==")
	case "ne":
		return bin("!=")
	case "and":
		return bin("&&")
	case "or":
		return bin("||")
	case "in":
		return bin("in")
	case "not":
		return "!(" + e.A.CEL() + ")"
	case "idx": // map lookup with a literal key
		return e.A.CEL() + "[" + strconv.Quote(e.N) + "]"
	case "add":
		return bin("+")
	}
	panic("bad expr " + e.K)
}

func paramType(ty string) *openfgav1.ConditionParamTypeRef {
	switch ty {
	case "int":
		return &openfgav1.ConditionParamTypeRef{TypeName: openfgav1.ConditionParamTypeRef_TYPE_NAME_INT}
	case "uint":
		return &openfgav1.ConditionParamTypeRef{TypeName: openfgav1.ConditionParamTypeRef_TYPE_NAME_UINT}
	case "string":
		return &openfgav1.ConditionParamTypeRef{TypeName: openfgav1.ConditionParamTypeRef_TYPE_NAME_STRING}
	case "bool":
		return &openfgav1.ConditionParamTypeRef{TypeName: openfgav1.ConditionParamTypeRef_TYPE_NAME_BOOL}
	case "list<string>":
		return &openfgav1.ConditionParamTypeRef{TypeName: openfgav1.ConditionParamTypeRef_TYPE_NAME_LIST,
			GenericTypes: []*openfgav1.ConditionParamTypeRef{paramType("string")}}
	case "list<int>":
		return &openfgav1.ConditionParamTypeRef{TypeName: openfgav1.ConditionParamTypeRef_TYPE_NAME_LIST,
			GenericTypes: []*openfgav1.ConditionParamTypeRef{paramType("int")}}
	case "map<int>":
		return &openfgav1.ConditionParamTypeRef{TypeName: openfgav1.ConditionParamTypeRef_TYPE_NAME_MAP,
			GenericTypes: []*openfgav1.ConditionParamTypeRef{paramType("int")}}
	case "map<string>":
		return &openfgav1.ConditionParamTypeRef{TypeName: openfgav1.ConditionParamTypeRef_TYPE_NAME_MAP,
			GenericTypes: []*openfgav1.ConditionParamTypeRef{paramType("string")}}
	}
	panic("bad param type " + ty)
}

func (c *CondDef) ToProto() *openfgav1.Condition {
	p := map[string]*openfgav1.ConditionParamTypeRef{}
	for _, x := range c.Params {
		p[x.N] = paramType(x.Ty)
	}
	src := c.Cel
	if src == "" {
		src = c.Expr.CEL()
	}
	return &openfgav1.Condition{Name: c.Name, Expression: src, Parameters: p}
}

// ModelFromProto converts an API model back to the abstract form (conditions keep
// only their CEL text).
func ModelFromProto(pm *openfgav1.AuthorizationModel) *Model {
	m := &Model{Types: []string{}, Rels: []RelDef{}, Conds: []CondDef{}}
	for _, td := range pm.GetTypeDefinitions() {
		m.Types = append(m.Types, td.GetType())
		for _, r := range SortedKeys(td.GetRelations()) {
			def := RelDef{T: td.GetType(), R: r, Rw: RewriteFromProto(td.GetRelations()[r]), Restr: []Restr{}}
			for _, rr := range td.GetMetadata().GetRelations()[r].GetDirectlyRelatedUserTypes() {
				def.Restr = append(def.Restr, Restr{T: rr.GetType(), Rel: rr.GetRelation(), WC: rr.GetWildcard() != nil, Cond: rr.GetCondition()})
			}
			m.Rels = append(m.Rels, def)
		}
	}
	for _, name := range SortedKeys(pm.GetConditions()) {
		c := pm.GetConditions()[name]
		cd := CondDef{Name: c.GetName(), Cel: c.GetExpression(), Params: []Param{}}
		for _, pn := range SortedKeys(c.GetParameters()) {
			cd.Params = append(cd.Params, Param{N: pn, Ty: paramTypeName(c.GetParameters()[pn])})
		}
		m.Conds = append(m.Conds, cd)
	}
	return m
}

func paramTypeName(p *openfgav1.ConditionParamTypeRef) string {
	base := strings.ToLower(strings.TrimPrefix(p.GetTypeName().String(), "TYPE_NAME_"))
	if len(p.GetGenericTypes()) > 0 {
		return base + "<" + paramTypeName(p.GetGenericTypes()[0]) + ">"
	}
	return base
}

func RewriteFromProto(u *openfgav1.Userset) *Rewrite {
	switch x := u.GetUserset().(type) {
	case *openfgav1.Userset_This:
		return &Rewrite{K: "this"}
	case *openfgav1.Userset_ComputedUserset:
		return &Rewrite{K: "computed", Rel: x.ComputedUserset.GetRelation()}
	case *openfgav1.Userset_TupleToUserset:
		return &Rewrite{K: "ttu", TS: x.TupleToUserset.GetTupleset().GetRelation(), Rel: x.TupleToUserset.GetComputedUserset().GetRelation()}
	case *openfgav1.Userset_Union:
		rw := &Rewrite{K: "union"}
		for _, c := range x.Union.GetChild() {
			rw.Ch = append(rw.Ch, RewriteFromProto(c))
		}
		return rw
	case *openfgav1.Userset_Intersection:
		rw := &Rewrite{K: "inter"}
		for _, c := range x.Intersection.GetChild() {
			rw.Ch = append(rw.Ch, RewriteFromProto(c))
		}
		return rw
	case *openfgav1.Userset_Difference:
		return &Rewrite{K: "diff", Base: RewriteFromProto(x.Difference.GetBase()), Sub: RewriteFromProto(x.Difference.GetSubtract())}
	}
	return &Rewrite{K: "unknown"}
}

func (rw *Rewrite) ToProto() *openfgav1.Userset {
	switch rw.K {
	case "this":
		return &openfgav1.Userset{Userset: &openfgav1.Userset_This{This: &openfgav1.DirectUserset{}}}
	case "computed":
		return &openfgav1.Userset{Userset: &openfgav1.Userset_ComputedUserset{ComputedUserset: &openfgav1.ObjectRelation{Relation: rw.Rel}}}
	case "ttu":
		return &openfgav1.Userset{Userset: &openfgav1.Userset_TupleToUserset{TupleToUserset: &openfgav1.TupleToUserset{
			Tupleset:        &openfgav1.ObjectRelation{Relation: rw.TS},
			ComputedUserset: &openfgav1.ObjectRelation{Relation: rw.Rel}}}}
	case "union", "inter":
		var ch []*openfgav1.Userset
		for _, c := range rw.Ch {
			ch = append(ch, c.ToProto())
		}
		if rw.K == "union" {
			return &openfgav1.Userset{Userset: &openfgav1.Userset_Union{Union: &openfgav1.Usersets{Child: ch}}}
		}
		return &openfgav1.Userset{Userset: &openfgav1.Userset_Intersection{Intersection: &openfgav1.Usersets{Child: ch}}}
	case "diff":
		return &openfgav1.Userset{Userset: &openfgav1.Userset_Difference{Difference: &openfgav1.Difference{Base: rw.Base.ToProto(), Subtract: rw.Sub.ToProto()}}}
	}
	panic("bad rewrite " + rw.K)
}

func (rw *Rewrite) Walk(f func(*Rewrite)) {
	f(rw)
	for _, c := range rw.Ch {
		c.Walk(f)
	}
	if rw.Base != nil {
		rw.Base.Walk(f)
	}
	if rw.Sub != nil {
		rw.Sub.Walk(f)
	}
}

func (rw *Rewrite) HasThis() bool {
	has := false
	rw.Walk(func(x *Rewrite) {
		if x.K == "this" {
			has = true
		}
	})
	return has
}

func (rw *Rewrite) String() string {
	switch rw.K {
	case "this":
		return "this"
	case "computed":
		return rw.Rel
	case "ttu":
		return rw.Rel + " from " + rw.TS
	case "union", "inter":
		op := " or "
		if rw.K == "inter" {
			op = " and "
		}
		var s []string
		for _, c := range rw.Ch {
			s = append(s, c.String())
		}
		return "(" + strings.Join(s, op) + ")"
	case "diff":
		return "(" + rw.Base.String() + " but not " + rw.Sub.String() + ")"
	}
	return "?"
}

func (r Restr) String() string {
	s := r.T
	if r.WC {
		s += ":*"
	}
	if r.Rel != "" {
		s += "#" + r.Rel
	}
	if r.Cond != "" {
		s += " with " + r.Cond
	}
	return s
}

func (m *Model) String() string {
	var sb strings.Builder
	for _, r := range m.Rels {
		var rs []string
		for _, x := range r.Restr {
			rs = append(rs, x.String())
		}
		fmt.Fprintf(&sb, "%s#%s: %s [%s]; ", r.T, r.R, r.Rw.String(), strings.Join(rs, ", "))
	}
	return sb.String()
}

// ModelSchemaVersion is the schema version models are written with ("1.1"; C18 also uses "1.2": the
// rules for tuples are the same for both).
var ModelSchemaVersion = "1.1"

func (m *Model) ToProto() *openfgav1.AuthorizationModel {
	out := &openfgav1.AuthorizationModel{SchemaVersion: ModelSchemaVersion}
	for _, t := range m.Types {
		td := &openfgav1.TypeDefinition{Type: t}
		for _, r := range m.Rels {
			if r.T != t {
				continue
			}
			if td.Relations == nil {
				td.Relations = map[string]*openfgav1.Userset{}
				td.Metadata = &openfgav1.Metadata{Relations: map[string]*openfgav1.RelationMetadata{}}
			}
			td.Relations[r.R] = r.Rw.ToProto()
			md := &openfgav1.RelationMetadata{}
			for _, x := range r.Restr {
				rr := &openfgav1.RelationReference{Type: x.T, Condition: x.Cond}
				if x.WC {
					rr.RelationOrWildcard = &openfgav1.RelationReference_Wildcard{Wildcard: &openfgav1.Wildcard{}}
				} else if x.Rel != "" {
					rr.RelationOrWildcard = &openfgav1.RelationReference_Relation{Relation: x.Rel}
				}
				md.DirectlyRelatedUserTypes = append(md.DirectlyRelatedUserTypes, rr)
			}
			td.Metadata.Relations[r.R] = md
		}
		out.TypeDefinitions = append(out.TypeDefinitions, td)
	}
	if len(m.Conds) > 0 {
		out.Conditions = map[string]*openfgav1.Condition{}
		for i := range m.Conds {
			out.Conditions[m.Conds[i].Name] = m.Conds[i].ToProto()
		}
	}
	return out
}

// Stratified reports whether no exclusion-subtract edge lies on a cycle of the
// type#relation dependency graph (the C01 precondition).
func (m *Model) Stratified() bool {
	type node = string
	pos := map[node][]node{}
	neg := map[node][]node{}
	var addEdges func(from node, t string, rw *Rewrite, negative bool)
	addEdges = func(from node, t string, rw *Rewrite, negative bool) {
		add := func(to node) {
			if negative {
				neg[from] = append(neg[from], to)
			} else {
				pos[from] = append(pos[from], to)
			}
		}
		switch rw.K {
		case "this":
			r := m.Rel(t, strings.SplitN(from, "#", 2)[1])
			for _, x := range r.Restr {
				if x.Rel != "" {
					add(x.T + "#" + x.Rel)
				}
			}
		case "computed":
			add(t + "#" + rw.Rel)
		case "ttu":
			for _, tt := range m.Types {
				if m.Rel(tt, rw.Rel) != nil {
					add(tt + "#" + rw.Rel)
				}
			}
		case "union", "inter":
			for _, c := range rw.Ch {
				addEdges(from, t, c, negative)
			}
		case "diff":
			addEdges(from, t, rw.Base, negative)
			addEdges(from, t, rw.Sub, true)
		}
	}
	for _, r := range m.Rels {
		addEdges(r.T+"#"+r.R, r.T, r.Rw, false)
	}
	reach := func(from node) map[node]bool {
		seen := map[node]bool{}
		st := []node{from}
		for len(st) > 0 {
			n := st[len(st)-1]
			st = st[:len(st)-1]
			for _, nx := range append(append([]node{}, pos[n]...), neg[n]...) {
				if !seen[nx] {
					seen[nx] = true
					st = append(st, nx)
				}
			}
		}
		return seen
	}
	for a, tos := range neg {
		for _, b := range tos {
			if b == a || reach(b)[a] {
				return false
			}
		}
	}
	return true
}

func SortedKeys[V any](m map[string]V) []string {
	out := make([]string, 0, len(m))
	for k := range m {
		out = append(out, k)
	}
	sort.Strings(out)
	return out
}
