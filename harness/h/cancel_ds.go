package h

import (
	"context"
	"errors"
	"sync"
	"time"

	openfgav1 "github.com/openfga/api/proto/openfga/v1"

	"github.com/openfga/openfga/pkg/storage"
)

// CancelDS wraps a datastore and, when armed, invokes a callback (normally the
// request's context cancel function) at the k-th tuple read event (a Read* call or
// an iterator Next/Head). It is the lever for "cancellation at arbitrary read
// positions" (C09, C20) without touching the repository.
type CancelDS struct {
	storage.OpenFGADatastore
	mu        sync.Mutex
	armed     bool
	at, count int
	fire      func()
	Triggered bool
	Reads     int
	open      int
	opened    int
	// Jitter, when set, delays every read event by a pseudo-random duration so that the
	// completion order of concurrent sub-problems varies from request to request.
	Jitter func() time.Duration
	// StrictCtx makes iterator reads fail with the context's error once the context is done, as the
	// SQL backends do (the memory datastore's iterators never look at the context).
	StrictCtx bool
}

func NewCancelDS(inner storage.OpenFGADatastore) *CancelDS { return &CancelDS{OpenFGADatastore: inner} }

func (d *CancelDS) Arm(at int, fire func()) {
	d.mu.Lock()
	d.armed, d.at, d.count, d.fire, d.Triggered = true, at, 0, fire, false
	d.mu.Unlock()
}

func (d *CancelDS) Disarm() (triggered bool, seen int) {
	d.mu.Lock()
	defer d.mu.Unlock()
	d.armed = false
	return d.Triggered, d.count
}

func (d *CancelDS) hit() {
	d.mu.Lock()
	var delay time.Duration
	if d.Jitter != nil {
		delay = d.Jitter()
	}
	d.mu.Unlock()
	if delay > 0 {
		time.Sleep(delay)
	}
	d.mu.Lock()
	d.Reads++
	var f func()
	if d.armed {
		d.count++
		if d.count == d.at {
			d.Triggered = true
			f = d.fire
		}
	}
	d.mu.Unlock()
	if f != nil {
		f()
	}
}

type cancelIter struct {
	storage.TupleIterator
	d        *CancelDS
	released bool // exhausted, failed or stopped (guarded by d.mu)
}

// census: an iterator counts as open until it is stopped or has reported done
func (d *CancelDS) wrap(it storage.TupleIterator) storage.TupleIterator {
	d.mu.Lock()
	d.open++
	d.opened++
	d.mu.Unlock()
	return &cancelIter{TupleIterator: it, d: d}
}
func (i *cancelIter) release() {
	i.d.mu.Lock()
	if !i.released {
		i.released = true
		i.d.open--
	}
	i.d.mu.Unlock()
}

// OpenIterators returns the number of iterators handed out since ResetCensus that are still open.
func (d *CancelDS) OpenIterators() (open, opened int) {
	d.mu.Lock()
	defer d.mu.Unlock()
	return d.open, d.opened
}
func (d *CancelDS) ResetCensus() {
	d.mu.Lock()
	d.open, d.opened = 0, 0
	d.mu.Unlock()
}

func (i *cancelIter) Next(ctx context.Context) (*openfgav1.Tuple, error) {
	i.d.hit()
	if i.d.StrictCtx && ctx.Err() != nil {
		return nil, ctx.Err()
	}
	t, err := i.TupleIterator.Next(ctx)
	if errors.Is(err, storage.ErrIteratorDone) {
		i.release()
	}
	return t, err
}
func (i *cancelIter) Head(ctx context.Context) (*openfgav1.Tuple, error) {
	i.d.hit()
	t, err := i.TupleIterator.Head(ctx)
	if errors.Is(err, storage.ErrIteratorDone) {
		i.release()
	}
	return t, err
}
func (i *cancelIter) Stop() {
	i.release()
	i.TupleIterator.Stop()
}

func (d *CancelDS) Read(ctx context.Context, store string, f storage.ReadFilter, o storage.ReadOptions) (storage.TupleIterator, error) {
	d.hit()
	it, err := d.OpenFGADatastore.Read(ctx, store, f, o)
	if err != nil {
		return nil, err
	}
	return d.wrap(it), nil
}

func (d *CancelDS) ReadUserTuple(ctx context.Context, store string, f storage.ReadUserTupleFilter, o storage.ReadUserTupleOptions) (*openfgav1.Tuple, error) {
	d.hit()
	return d.OpenFGADatastore.ReadUserTuple(ctx, store, f, o)
}

func (d *CancelDS) ReadUsersetTuples(ctx context.Context, store string, f storage.ReadUsersetTuplesFilter, o storage.ReadUsersetTuplesOptions) (storage.TupleIterator, error) {
	d.hit()
	it, err := d.OpenFGADatastore.ReadUsersetTuples(ctx, store, f, o)
	if err != nil {
		return nil, err
	}
	return d.wrap(it), nil
}

func (d *CancelDS) ReadStartingWithUser(ctx context.Context, store string, f storage.ReadStartingWithUserFilter, o storage.ReadStartingWithUserOptions) (storage.TupleIterator, error) {
	d.hit()
	it, err := d.OpenFGADatastore.ReadStartingWithUser(ctx, store, f, o)
	if err != nil {
		return nil, err
	}
	return d.wrap(it), nil
}

// NewVariantsDS is NewVariants over a caller-supplied datastore.
func NewVariantsDS(ds storage.OpenFGADatastore) *Variants {
	return &Variants{Base: NewEnv(ds), envs: map[string]*Env{}}
}
