package h

import (
	"context"
	"sync"
	"time"

	openfgav1 "github.com/openfga/api/proto/openfga/v1"

	"github.com/openfga/openfga/pkg/storage"
)

// CancelDS wraps a datastore and, when armed, invokes a callback (normally the
// request's context cancel function) at the k-th tuple read event (a Read* call or
// an iterator Next/Head). It is the lever for "cancellation at arbitrary read
// positions" (C09, C20) without touching the repository.
type CancelDS struct {
	storage.OpenFGADatastore
	mu        sync.Mutex
	armed     bool
	at, count int
	fire      func()
	Triggered bool
	Reads     int
	// Jitter, when set, delays every read event by a pseudo-random duration so that the
	// completion order of concurrent sub-problems varies from request to request.
	Jitter func() time.Duration
}

func NewCancelDS(inner storage.OpenFGADatastore) *CancelDS { return &CancelDS{OpenFGADatastore: inner} }

func (d *CancelDS) Arm(at int, fire func()) {
	d.mu.Lock()
	d.armed, d.at, d.count, d.fire, d.Triggered = true, at, 0, fire, false
	d.mu.Unlock()
}

func (d *CancelDS) Disarm() (triggered bool, seen int) {
	d.mu.Lock()
	defer d.mu.Unlock()
	d.armed = false
	return d.Triggered, d.count
}

func (d *CancelDS) hit() {
	d.mu.Lock()
	var delay time.Duration
	if d.Jitter != nil {
		delay = d.Jitter()
	}
	d.mu.Unlock()
	if delay > 0 {
		time.Sleep(delay)
	}
	d.mu.Lock()
	d.Reads++
	var f func()
	if d.armed {
		d.count++
		if d.count == d.at {
			d.Triggered = true
			f = d.fire
		}
	}
	d.mu.Unlock()
	if f != nil {
		f()
	}
}

type cancelIter struct {
	storage.TupleIterator
	d *CancelDS
}

func (i *cancelIter) Next(ctx context.Context) (*openfgav1.Tuple, error) {
	i.d.hit()
	return i.TupleIterator.Next(ctx)
}
func (i *cancelIter) Head(ctx context.Context) (*openfgav1.Tuple, error) {
	i.d.hit()
	return i.TupleIterator.Head(ctx)
}

func (d *CancelDS) Read(ctx context.Context, store string, f storage.ReadFilter, o storage.ReadOptions) (storage.TupleIterator, error) {
	d.hit()
	it, err := d.OpenFGADatastore.Read(ctx, store, f, o)
	if err != nil {
		return nil, err
	}
	return &cancelIter{it, d}, nil
}

func (d *CancelDS) ReadUserTuple(ctx context.Context, store string, f storage.ReadUserTupleFilter, o storage.ReadUserTupleOptions) (*openfgav1.Tuple, error) {
	d.hit()
	return d.OpenFGADatastore.ReadUserTuple(ctx, store, f, o)
}

func (d *CancelDS) ReadUsersetTuples(ctx context.Context, store string, f storage.ReadUsersetTuplesFilter, o storage.ReadUsersetTuplesOptions) (storage.TupleIterator, error) {
	d.hit()
	it, err := d.OpenFGADatastore.ReadUsersetTuples(ctx, store, f, o)
	if err != nil {
		return nil, err
	}
	return &cancelIter{it, d}, nil
}

func (d *CancelDS) ReadStartingWithUser(ctx context.Context, store string, f storage.ReadStartingWithUserFilter, o storage.ReadStartingWithUserOptions) (storage.TupleIterator, error) {
	d.hit()
	it, err := d.OpenFGADatastore.ReadStartingWithUser(ctx, store, f, o)
	if err != nil {
		return nil, err
	}
	return &cancelIter{it, d}, nil
}

// NewVariantsDS is NewVariants over a caller-supplied datastore.
func NewVariantsDS(ds storage.OpenFGADatastore) *Variants {
	return &Variants{Base: NewEnv(ds), envs: map[string]*Env{}}
}
