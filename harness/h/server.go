package h

import (
	"context"
	"encoding/json"
	"errors"
	"fmt"
	"os"
	"strings"
	"time"

	"github.com/openfga/openfga/pkg/logger"

	openfgav1 "github.com/openfga/api/proto/openfga/v1"
	"google.golang.org/grpc/codes"
	"google.golang.org/grpc/status"

	"github.com/openfga/openfga/internal/condition"
	"github.com/openfga/openfga/internal/graph"
	"github.com/openfga/openfga/internal/planner"
	"github.com/openfga/openfga/pkg/server"
	"github.com/openfga/openfga/pkg/storage"
	"github.com/openfga/openfga/pkg/storage/cache/keys"
	"github.com/openfga/openfga/pkg/storage/memory"
)

// ---------------------------------------------------------------- forced planner

// Forced is a planner.Manager that always selects the named strategy when it is
// among the candidates of a plan key (otherwise "default").
type Forced struct{ Name string }
type forcedSel struct{ name string }

func (f *Forced) GetPlanSelector(_ keys.Key) planner.Selector { return &forcedSel{f.Name} }
func (f *Forced) Stop()                                       {}
func (s *forcedSel) Select(r map[string]*planner.PlanConfig) *planner.PlanConfig {
	if p, ok := r[s.name]; ok {
		return p
	}
	if p, ok := r["default"]; ok {
		return p
	}
	for _, k := range SortedKeys(r) {
		return r[k]
	}
	return nil
}
func (s *forcedSel) UpdateStats(*planner.PlanConfig, time.Duration) {}

// Scripted planner: per plan key (in order of first appearance) picks the strategy
// given by a script of indices; records which keys offered a real choice.
type Scripted struct {
	Script []int
	mu     chan struct{}
	order  map[string]int
	Choice int // number of plan keys that offered more than one strategy
}

func NewScripted(script []int) *Scripted {
	s := &Scripted{Script: script, mu: make(chan struct{}, 1), order: map[string]int{}}
	s.mu <- struct{}{}
	return s
}
func (p *Scripted) Stop() {}
func (p *Scripted) GetPlanSelector(k keys.Key) planner.Selector {
	<-p.mu
	defer func() { p.mu <- struct{}{} }()
	ks := fmt.Sprint(k)
	idx, ok := p.order[ks]
	if !ok {
		idx = len(p.order)
		p.order[ks] = idx
	}
	return &scriptedSel{p: p, idx: idx}
}

type scriptedSel struct {
	p   *Scripted
	idx int
}

func (s *scriptedSel) Select(r map[string]*planner.PlanConfig) *planner.PlanConfig {
	names := SortedKeys(r)
	if len(names) > 1 {
		<-s.p.mu
		s.p.Choice++
		s.p.mu <- struct{}{}
	}
	c := 0
	if len(s.p.Script) > 0 {
		c = s.p.Script[s.idx%len(s.p.Script)]
	}
	return r[names[c%len(names)]]
}
func (s *scriptedSel) UpdateStats(*planner.PlanConfig, time.Duration) {}

// ---------------------------------------------------------------- environment

type Env struct {
	DS      storage.OpenFGADatastore
	S       *server.Server
	StoreID string
	ModelID string
	name    string

	caseCache storage.InMemoryCache[any]
	lastSetup string // model and tuples of the last Setup as JSON (reported by the memory guard)
}

func NewEnv(ds storage.OpenFGADatastore, opts ...server.OpenFGAServiceV1Option) *Env {
	if ds == nil {
		ds = memory.New()
	}
	all := append([]server.OpenFGAServiceV1Option{server.WithDatastore(ds)}, opts...)
	if lvl := os.Getenv("VERIF_LOG"); lvl != "" {
		all = append(all, server.WithLogger(logger.MustNewLogger("text", lvl, "ISO8601")))
	}
	return &Env{DS: ds, S: server.MustNewServerWithOpts(all...)}
}

func (e *Env) Close() { e.S.Close() }

// CaseCache is the query cache shared by the command-level engines ("v1c:", "v2c:")
// for the requests of the current case; Setup starts a fresh one.
func (e *Env) CaseCache() storage.InMemoryCache[any] {
	if e.caseCache == nil {
		c, err := storage.NewInMemoryLRUCache[any]()
		if err != nil {
			panic(err)
		}
		e.caseCache = c
	}
	return e.caseCache
}

var storeSeq int

// Setup creates a store, writes the model through the API and the tuples straight
// to the datastore (so that tuples which are invalid for the model can be stored,
// as if left over from another model).
func (e *Env) Setup(ctx context.Context, m *Model, tuples []Tuple) error {
	storeSeq++
	if mb, err := json.Marshal(m); err == nil {
		tb, _ := json.Marshal(normTuples(tuples))
		e.lastSetup = "model=" + string(mb) + " tuples=" + string(tb)
	}
	if e.caseCache != nil {
		e.caseCache.Stop()
		e.caseCache = nil
	}
	st, err := e.S.CreateStore(ctx, &openfgav1.CreateStoreRequest{Name: fmt.Sprintf("verif-%d", storeSeq)})
	if err != nil {
		return err
	}
	e.StoreID = st.GetId()
	pm := m.ToProto()
	wm, err := e.S.WriteAuthorizationModel(ctx, &openfgav1.WriteAuthorizationModelRequest{
		StoreId: e.StoreID, SchemaVersion: pm.GetSchemaVersion(), TypeDefinitions: pm.GetTypeDefinitions(), Conditions: pm.GetConditions()})
	if err != nil {
		return fmt.Errorf("write model: %w", err)
	}
	e.ModelID = wm.GetAuthorizationModelId()
	return e.WriteRaw(ctx, tuples)
}

// WriteRaw writes tuples directly to the datastore (no validation).
func (e *Env) WriteRaw(ctx context.Context, tuples []Tuple) error {
	var tks []*openfgav1.TupleKey
	for _, t := range tuples {
		tks = append(tks, t.ToProto())
	}
	for len(tks) > 0 {
		n := len(tks)
		if n > 40 {
			n = 40
		}
		if err := e.DS.Write(ctx, e.StoreID, nil, tks[:n]); err != nil {
			return fmt.Errorf("raw write: %w", err)
		}
		tks = tks[n:]
	}
	return nil
}

func CtxTuples(ts []Tuple) *openfgav1.ContextualTupleKeys {
	if len(ts) == 0 {
		return nil
	}
	out := &openfgav1.ContextualTupleKeys{}
	for _, t := range ts {
		out.TupleKeys = append(out.TupleKeys, t.ToProto())
	}
	return out
}

// ---------------------------------------------------------------- error classes

// ErrKind maps an error returned by the server or a command to a coarse class.
func ErrKind(err error) string {
	if err == nil {
		return ""
	}
	if errors.Is(err, condition.ErrEvaluationFailed) {
		return "cond"
	}
	if errors.Is(err, graph.ErrResolutionDepthExceeded) {
		return "depth"
	}
	if errors.Is(err, context.DeadlineExceeded) {
		return "deadline"
	}
	if errors.Is(err, context.Canceled) {
		return "cancel"
	}
	st, ok := status.FromError(err)
	if !ok {
		return "other"
	}
	msg := st.Message()
	switch st.Code() {
	case codes.Code(openfgav1.ErrorCode_validation_error):
		if strings.Contains(msg, "condition") || strings.Contains(msg, "context parameters") {
			return "cond"
		}
		return "validation"
	case codes.Code(openfgav1.ErrorCode_authorization_model_resolution_too_complex):
		return "depth"
	case codes.Code(openfgav1.InternalErrorCode_deadline_exceeded):
		return "deadline"
	case codes.Code(openfgav1.ErrorCode_cancelled):
		return "cancel"
	case codes.Code(openfgav1.InternalErrorCode_internal_error):
		return "internal"
	case codes.Code(openfgav1.UnprocessableContentErrorCode_throttled_timeout_error):
		return "throttled"
	}
	return fmt.Sprintf("code%d", st.Code())
}

func Got(allowed bool, err error) string {
	if err != nil {
		return "ERR"
	}
	if allowed {
		return "T"
	}
	return "F"
}

// ListObjectsEnv returns an Env over the same datastore/store/model whose server
// runs the named ListObjects engine: classic | weighted | pipeline[:opts].
func ListObjectsEnv(env *Env, eng string, extra ...server.OpenFGAServiceV1Option) *Env {
	var opts []server.OpenFGAServiceV1Option
	switch {
	case eng == "classic" || eng == "" || eng == "server":
		opts = append(opts, server.WithListObjectsPipelineEnabled(false))
	case eng == "weighted":
		opts = append(opts, server.WithListObjectsPipelineEnabled(false), server.WithExperimentals("enable-list-objects-optimizations"))
	case strings.HasPrefix(eng, "pipeline"):
		opts = append(opts, server.WithListObjectsPipelineEnabled(true), server.WithExperimentals("pipeline_list_objects"))
	}
	opts = append(opts, extra...)
	e2 := NewEnv(env.DS, opts...)
	e2.StoreID, e2.ModelID = env.StoreID, env.ModelID
	return e2
}
