package h

import (
	"bytes"
	"context"
	"encoding/json"
	"fmt"
	"math/rand"
	"runtime/pprof"
	"strings"
	"time"

	openfgav1 "github.com/openfga/api/proto/openfga/v1"

	"github.com/openfga/openfga/pkg/storage/memory"
)

// requestGoroutines counts the goroutines whose stack is inside the request path of the server
// (engines, pools, iterators, pipeline); background goroutines of the server itself do not count.
func requestGoroutines() (int, string) {
	var buf bytes.Buffer
	pprof.Lookup("goroutine").WriteTo(&buf, 2)
	n := 0
	sample := ""
	for _, g := range strings.Split(buf.String(), "\n\n") {
		if strings.Contains(g, "h.requestGoroutines") || strings.Contains(g, "h.Watchdog") && !strings.Contains(g, "openfga/openfga/pkg/server.") {
			continue
		}
		for _, pat := range []string{"openfga/internal/graph.", "openfga/internal/check.", "openfga/internal/listobjects", "commands/reverseexpand", "commands/listusers",
			"openfga/internal/concurrency", "storagewrappers", "openfga/internal/iterator", "server/commands.", "internal/containers"} {
			if strings.Contains(g, pat) {
				n++
				if sample == "" {
					sample = g
					if len(sample) > 1500 {
						sample = sample[:1500]
					}
				}
				break
			}
		}
	}
	return n, sample
}

type resInfo struct {
	Deadline int  `json:"deadline"` // ms
	Slack    int  `json:"slack"`
	Wall     int  `json:"wall"`
	Imposed  bool `json:"imposed"`
	GLeak    int  `json:"gleak"`
	Iters    int  `json:"iters"`
	Opened   int  `json:"opened"`
	CancelAt int  `json:"cancelat"`
}

func withRes(ev any, res *resInfo, errk string) map[string]any {
	b, _ := json.Marshal(ev)
	m := map[string]any{}
	json.Unmarshal(b, &m)
	m["res"] = res
	if _, ok := m["errk"]; !ok {
		m["errk"] = errk
	}
	return m
}

const c20Slack = 1500 // ms of scheduling slack granted on top of the deadline

func C20(run *Run) {
	r := rand.New(rand.NewSource(run.Seed))
	cds := NewCancelDS(memory.New())
	v := NewVariantsDS(cds)
	defer v.Close()
	nCases := run.Pick(30, 400)
	rec := &Recorder{}
	bg := context.Background()
	leakSamples := []string{}
	hangs := 0
	for c := 0; c < nCases; c++ {
		opts := GenOpts{MinTuples: 8}
		if c%3 == 1 {
			opts.ForceShapes = true
		}
		cs, _ := GenCase(r, c, opts)
		scripted := c%6 == 5
		if scripted {
			cs = c20WideCase(c)
		}
		if c%3 == 2 && !scripted { // long membership cycle and wide fan-out where the model allows them
			n := 8 + r.Intn(10)
			for i := 0; i < n; i++ {
				t := Tuple{O: Obj{"group", fmt.Sprintf("g%d", i)}, R: "member", U: Subj{"group", fmt.Sprintf("g%d", (i+1)%n), "member"}, Cctx: Ctx{}}
				if Writable(cs.Model, t) {
					cs.Tuples = append(cs.Tuples, t)
				}
			}
			for i := 0; i < 25+r.Intn(15); i++ {
				for _, u := range []Subj{{"group", "g0", "member"}, {"user", "a", ""}} {
					t := Tuple{O: Obj{"doc", fmt.Sprintf("w%d", i)}, R: "viewer", U: u, Cctx: Ctx{}}
					if Writable(cs.Model, t) {
						cs.Tuples = append(cs.Tuples, t)
						break
					}
				}
			}
			cs.Tuples = append(cs.Tuples, Tuple{O: Obj{"group", "g3"}, R: "member", U: Subj{"user", "a", ""}, Cctx: Ctx{}})
			if !Writable(cs.Model, cs.Tuples[len(cs.Tuples)-1]) {
				cs.Tuples = cs.Tuples[:len(cs.Tuples)-1]
			}
		}
		if err := v.Base.Setup(bg, cs.Model, cs.Tuples); err != nil {
			run.Inconclusive("setup failed: %v", err)
		}
		ts, mg, err := v.Base.Typesystem(bg, cs.Model)
		if err != nil {
			run.Inconclusive("typesystem: %v", err)
		}
		rec.Setup(cs.SetupEv())
		reqs := GenRequests(r, cs, 10)
		if scripted {
			reqs = []Req{{O: Obj{"group", "g0"}, R: "member", U: Subj{"user", "zz", ""}}, {O: Obj{"group", "g0"}, R: "member", U: Subj{"user", "a", ""}},
				{O: Obj{"doc", "d1"}, R: "viewer", U: Subj{"user", "a", ""}}, {O: Obj{"doc", "d1"}, R: "viewer", U: Subj{"user", "zz", ""}}, {O: Obj{"doc", "d2"}, R: "viewer", U: Subj{"user", "b", ""}}}
		}
		if c%3 == 2 && !scripted {
			reqs = append(reqs, Req{O: Obj{"group", "g0"}, R: "member", U: Subj{"user", "a", ""}}, Req{O: Obj{"doc", "w1"}, R: "viewer", U: Subj{"user", "a", ""}},
				Req{O: Obj{"doc", "w2"}, R: "viewer", U: Subj{"user", "zz", ""}})
		}
		pipelineHung := false
		for _, q := range reqs {
			if cs.Model.Rel(q.O.T, q.R) == nil {
				continue
			}
			reps := 3
			if scripted {
				reps = 24
			}
			for rep := 0; rep < reps; rep++ {
				kinds := []string{"check:server", "check:server:v2", "batch", "lo:classic", "lo:weighted", "lo:pipeline", "stream", "lu", "expand"}
				if scripted { // the default engine with each strategy forced: wide recursive level, two-type tupleset
					kinds = []string{"check:v1:recursive", "check:v1:weight2", "check:v1:default", "check:server", "check:server:v2"}
				}
				kind := kinds[r.Intn(len(kinds))]
				if kind == "lo:pipeline" && pipelineHung {
					kind = "lo:classic"
				}
				if kind == "check:server:v2" && (q.U.Rel != "" || q.U.ID == "*") {
					kind = "check:server" // the weighted-graph engine's answers for userset / wildcard subjects are the subject of C03
				}
				// deadline and cancellation plan
				dl := []time.Duration{10 * time.Second, 300 * time.Millisecond, 30 * time.Millisecond, 3 * time.Millisecond, 300 * time.Microsecond}[r.Intn(5)]
				cancelAt := 0
				if r.Intn(2) == 0 {
					cancelAt = 1 + r.Intn(12)
				}
				before, _ := requestGoroutines()
				cds.ResetCensus()
				ctx, cancel := context.WithTimeout(bg, dl)
				if cancelAt > 0 {
					cds.Arm(cancelAt, cancel)
				}
				start := time.Now()
				var ev any
				errk := ""
				hung := false
				switch {
				case strings.HasPrefix(kind, "check:"):
					e := &CheckEv{Eng: strings.TrimPrefix(kind, "check:"), O: q.O, R: q.R, U: q.U, Ctx: q.Ctx}
					env := v.Base // forced-strategy engines run on the base environment's datastore
					if !strings.HasPrefix(e.Eng, "v1:") {
						env = v.Get(e.Eng)
					}
					if !Watchdog(HangLimit, func() { env.RunCheck(ctx, e, ts, mg) }) {
						e.E, e.Got, e.Errk, hung = "Check", "ERR", "hang", true
						e.Ctx, e.Ctxt = normCtx(e.Ctx), []Tuple{}
					}
					ev = e
					if strings.Contains(e.Eng, ":v2") && !hung {
						// the weighted-graph engine is judged as in C03 (known deviations are classified there)
						v1 := &CheckEv{Eng: "v1:default", O: q.O, R: q.R, U: q.U, Ctx: q.Ctx}
						v.Base.RunCheck(bg, v1, ts, mg)
						vev := &V2Ev{CheckEv: *e}
						fillV2(vev, v1, cs, ts, q)
						ev = vev
					}
				case kind == "batch":
					env := v.Base
					req := &openfgav1.BatchCheckRequest{StoreId: env.StoreID, AuthorizationModelId: env.ModelID}
					bev := &BatchEv{E: "BatchCheck", IDs: []string{}, ResIDs: []string{}}
					for i := 0; i < 4; i++ {
						q2 := reqs[r.Intn(len(reqs))]
						id := fmt.Sprintf("i%d", i)
						req.Checks = append(req.Checks, &openfgav1.BatchCheckItem{CorrelationId: id, TupleKey: &openfgav1.CheckRequestTupleKey{Object: q2.O.String(), Relation: q2.R, User: q2.U.String()}, Context: normCtx(q2.Ctx).ToProto()})
						bev.IDs = append(bev.IDs, id)
					}
					var resp *openfgav1.BatchCheckResponse
					var err error
					if !Watchdog(HangLimit, func() { resp, err = env.S.BatchCheck(ctx, req) }) {
						bev.IsErr, errk, hung = true, "hang", true
					} else if err != nil {
						bev.IsErr, bev.Err, errk = true, err.Error(), ErrKind(err)
						if strings.Contains(err.Error(), "nvalid") && errk != "deadline" && errk != "cancel" {
							cancel()
							cds.Disarm()
							continue // an item refused by request validation: not a C20 case
						}
					} else {
						for id := range resp.GetResult() {
							bev.ResIDs = append(bev.ResIDs, id)
						}
					}
					ev = bev
				case strings.HasPrefix(kind, "lo:") || kind == "stream":
					eng := strings.TrimPrefix(kind, "lo:")
					if kind == "stream" {
						eng = "classic:stream"
					}
					e := &ListObjectsEv{Eng: eng, T: q.O.T, R: q.R, U: q.U, Ctx: q.Ctx}
					if !v.RunLO(ctx, e) {
						cancel()
						cds.Disarm()
						continue
					}
					hung = e.Errk == "hang"
					if hung && strings.HasPrefix(eng, "pipeline") {
						pipelineHung = true
					}
					ev = e
				case kind == "lu":
					e := &ListUsersEv{Eng: "server", O: q.O, R: q.R, FT: q.U.T, FRel: q.U.Rel, Ctx: q.Ctx}
					if !Watchdog(HangLimit, func() { v.Base.RunListUsers(ctx, e) }) {
						e.E, e.IsErr, e.Errk, hung = "ListUsers", true, "hang", true
						e.Got, e.Ctx, e.Ctxt = []Subj{}, normCtx(e.Ctx), []Tuple{}
					}
					ev = e
				case kind == "expand":
					e := &ExpandEv{Eng: "server", O: q.O, R: q.R}
					if !Watchdog(HangLimit, func() { v.Base.RunExpand(ctx, e) }) {
						e.E, e.IsErr, errk, hung = "Expand", true, "hang", true
						e.Ctxt = []Tuple{}
					} else if e.IsErr {
						low := strings.ToLower(e.Err)
						switch {
						case strings.Contains(low, "deadline"):
							errk = "deadline"
						case strings.Contains(low, "cancel"):
							errk = "cancel"
						}
					}
					ev = e
				}
				wall := time.Since(start)
				cancel()
				triggered, _ := cds.Disarm()
				// settle: everything the request started must be gone shortly after it returned
				var after int
				var sample string
				for w := 0; w < 60; w++ {
					after, sample = requestGoroutines()
					if after <= before {
						break
					}
					time.Sleep(50 * time.Millisecond)
				}
				open, opened := cds.OpenIterators()
				if open > 0 { // an iterator may be stopped by a goroutine that is just finishing
					time.Sleep(100 * time.Millisecond)
					open, opened = cds.OpenIterators()
				}
				res := &resInfo{Deadline: int(dl / time.Millisecond), Slack: c20Slack, Wall: int(wall / time.Millisecond), Imposed: dl < 10*time.Second || triggered,
					GLeak: max(0, after-before), Iters: open, Opened: opened, CancelAt: cancelAt}
				if hung {
					hangs++
					res.GLeak, res.Iters = 0, 0 // the request never returned: reported as a hang, its goroutines are accounted to it
				}
				if res.GLeak > 0 && len(leakSamples) < 3 {
					leakSamples = append(leakSamples, sample)
				}
				rec.Add(withRes(ev, res, errk))
				run.Evals++
				run.Nontrivial(hashOf([]any{cs.Model, cs.Tuples, q, kind, dl, cancelAt}))
			}
		}
		if scripted {
			// the answers alone, many times over (no census): whatever the moment the deadline or the
			// cancellation arrives, the decision is the right one or the request fails
			for i := 0; i < run.Pick(400, 1500); i++ {
				dl := []time.Duration{10 * time.Second, 3 * time.Millisecond, 300 * time.Microsecond, 100 * time.Microsecond}[r.Intn(4)]
				ctx, cancel := context.WithTimeout(bg, dl)
				cancelAt := 0
				if r.Intn(2) == 0 {
					cancelAt = 1 + r.Intn(30)
					cds.Arm(cancelAt, cancel)
				}
				q := reqs[r.Intn(len(reqs))]
				e := &CheckEv{Eng: []string{"v1:weight2", "v1:recursive", "server"}[i%3], O: q.O, R: q.R, U: q.U, Ctx: q.Ctx}
				start := time.Now()
				v.Base.RunCheck(ctx, e, ts, mg)
				wall := time.Since(start)
				cancel()
				triggered, _ := cds.Disarm()
				rec.Add(withRes(e, &resInfo{Deadline: int(dl / time.Millisecond), Slack: c20Slack, Wall: int(wall / time.Millisecond), Imposed: dl < 10*time.Second || triggered, CancelAt: cancelAt}, ""))
				run.Evals++
			}
		}
		if c < 2 {
			run.AddSample(rec.Events[len(rec.Events)-1])
		}
	}
	sum := rec.Validate(run, 16)
	run.Coverage["rule"] = "C01 cases, forced deep chains, and cases extended with a membership cycle of 8-17 groups and a fan-out of 25-40 documents; Check (default and weighted-graph engines), BatchCheck, ListObjects (classic, weighted, pipeline), StreamedListObjects, ListUsers and Expand, each with a client deadline from 10 s down to 0.3 ms and, in half of the requests, cancellation at the k-th datastore read (k = 1..12); per request the wall time, the request-path goroutines alive after the call settled and the tuple iterators opened and neither exhausted nor stopped are recorded; TLC (ApiTrace.tla, ResClass) requires: returned within deadline + 1.5 s, nothing left behind, a sound answer / partial list or an error naming the imposed deadline or cancellation; non-trivial = distinct (case, request, kind, deadline, cancel point)"
	run.Coverage["cases"] = nCases
	run.Coverage["hangs"] = hangs
	run.Coverage["judged_by_tlc"] = sum.Judged
	run.Coverage["verdict_classes"] = sum.Counts
	if len(leakSamples) > 0 {
		run.Coverage["leak_goroutine_samples"] = leakSamples
	}
	run.Assumptions = []string{"goroutine census = goroutines whose stack is inside the engines, pools, iterators or pipeline (server background goroutines excluded)", "caches off (no background cache fills)", "memory backend"}
}

// c20WideCase: a recursive group whose first level has 40 member groups (each with one more level
// below), and a tuple-to-userset whose tupleset admits two parent types.  The breadth-first and
// bottom-up strategies of the default engine open many iterators at once on such data; cancelling
// them in the middle must release all of them.
func c20WideCase(n int) *Case {
	this := &Rewrite{K: "this"}
	m := &Model{
		Types: []string{"user", "group", "folder", "team", "doc"},
		Conds: []CondDef{},
		Rels: []RelDef{
			{T: "group", R: "member", Rw: this, Restr: []Restr{{T: "user"}, {T: "group", Rel: "member"}}},
			{T: "folder", R: "viewer", Rw: this, Restr: []Restr{{T: "user"}}},
			{T: "team", R: "viewer", Rw: this, Restr: []Restr{{T: "user"}}},
			{T: "doc", R: "parent", Rw: this, Restr: []Restr{{T: "folder"}, {T: "team"}}},
			{T: "doc", R: "viewer", Rw: &Rewrite{K: "ttu", TS: "parent", Rel: "viewer"}, Restr: []Restr{}},
		},
	}
	var ts []Tuple
	for i := 0; i < 40; i++ {
		ts = append(ts, tp("group:g0", "member", fmt.Sprintf("group:h%d#member", i)), tp(fmt.Sprintf("group:h%d", i), "member", fmt.Sprintf("group:k%d#member", i)))
	}
	ts = append(ts, tp("group:k39", "member", "user:a"),
		tp("doc:d1", "parent", "folder:f1"), tp("doc:d1", "parent", "team:t1"), tp("doc:d2", "parent", "team:t2"), tp("doc:d2", "parent", "folder:f2"),
		tp("folder:f1", "viewer", "user:a"), tp("team:t1", "viewer", "user:a"), tp("team:t2", "viewer", "user:b"), tp("folder:f9", "viewer", "user:b"))
	return &Case{N: n, Model: m, Tuples: ts}
}
