package h

import (
	"context"
	"fmt"
	"math/rand"
	"time"

	"github.com/openfga/openfga/pkg/storage/memory"
)

// DebugC20W: stress of the wide C20 case on the forced weight2 strategy under deadlines and
// cancellation; counts answers "not allowed" without error for a request whose answer is "allowed".
func DebugC20W(run *Run) {
	r := rand.New(rand.NewSource(run.Seed))
	cds := NewCancelDS(memory.New())
	v := NewVariantsDS(cds)
	defer v.Close()
	bg := context.Background()
	cs := c20WideCase(1)
	if err := v.Base.Setup(bg, cs.Model, cs.Tuples); err != nil {
		run.Inconclusive("setup: %v", err)
	}
	ts, mg, _ := v.Base.Typesystem(bg, cs.Model)
	wrong, errs, ok := 0, 0, 0
	byEng := map[string]int{}
	engs := []string{"v1:weight2", "server", "v2:weight2", "server:v2", "v1:recursive", "v1:default", "v2:recursive", "v2:default"}
	reqs := []Req{{O: Obj{"doc", "d2"}, R: "viewer", U: Subj{"user", "b", ""}}, {O: Obj{"group", "g0"}, R: "member", U: Subj{"user", "a", ""}}, {O: Obj{"doc", "d1"}, R: "viewer", U: Subj{"user", "a", ""}}}
	for i := 0; i < 16000; i++ {
		dl := []time.Duration{10 * time.Second, 300 * time.Millisecond, 3 * time.Millisecond, 300 * time.Microsecond, 100 * time.Microsecond}[r.Intn(5)]
		ctx, cancel := context.WithTimeout(bg, dl)
		if r.Intn(2) == 0 {
			cds.Arm(1+r.Intn(40), cancel)
		}
		q := reqs[r.Intn(len(reqs))]
		e := &CheckEv{Eng: engs[i%len(engs)], O: q.O, R: q.R, U: q.U, Ctx: Ctx{}}
		if e.Eng == "server:v2" {
			v.Get("server:v2").RunCheck(ctx, e, ts, mg)
		} else {
			v.Base.RunCheck(ctx, e, ts, mg)
		}
		if e.Got == "F" {
			byEng[e.Eng+" "+q.O.String()]++
		}
		cancel()
		cds.Disarm()
		switch e.Got {
		case "F":
			wrong++
		case "ERR":
			errs++
		default:
			ok++
		}
	}
	fmt.Printf("weight2 stress: allowed %d, errors %d, WRONG DENIALS %d %v\n", ok, errs, wrong, byEng)
}
