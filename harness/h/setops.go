package h

import (
	"context"
	"fmt"
	"math/rand"
)

// setOpsCase: four directly assignable base relations (users and the typed wildcard) and three
// levels of nested union / intersection / exclusion on top of them. Negative information (who is
// excluded where) has to travel correctly through every level.
func setOpsCase(r *rand.Rand, n int) *Case {
	base := []string{"a", "b", "c", "d"}
	m := &Model{Types: []string{"user", "group", "folder", "doc"}, Conds: []CondDef{}}
	for _, b := range base {
		m.Rels = append(m.Rels, RelDef{T: "doc", R: b, Rw: &Rewrite{K: "this"}, Restr: []Restr{{T: "user"}, {T: "user", WC: true}}})
	}
	leaf := func(pool []string) *Rewrite { return &Rewrite{K: "computed", Rel: pick(r, pool)} }
	op := func(pool []string) *Rewrite {
		switch r.Intn(3) {
		case 0:
			return &Rewrite{K: "diff", Base: leaf(pool), Sub: leaf(pool)}
		case 1:
			return &Rewrite{K: "inter", Ch: []*Rewrite{leaf(pool), leaf(pool)}}
		}
		return &Rewrite{K: "union", Ch: []*Rewrite{leaf(pool), leaf(pool)}}
	}
	pool := append([]string{}, base...)
	for lvl, names := range [][]string{{"e1", "e2"}, {"f1", "f2"}, {"viewer"}} {
		var next []string
		for _, nm := range names {
			rw := op(pool)
			if lvl > 0 && r.Intn(2) == 0 { // mix a level-below relation with a base relation
				rw = &Rewrite{K: pick(r, []string{"inter", "union"}), Ch: []*Rewrite{leaf(pool[len(base):]), leaf(base)}}
				if r.Intn(3) == 0 {
					rw = &Rewrite{K: "diff", Base: leaf(pool[len(base):]), Sub: leaf(base)}
				}
			}
			m.Rels = append(m.Rels, RelDef{T: "doc", R: nm, Rw: rw, Restr: []Restr{}})
			next = append(next, nm)
		}
		pool = append(append([]string{}, base...), next...)
	}
	cs := &Case{N: n, Model: m}
	for _, b := range base {
		for _, u := range []string{"a", "b", "c", "*"} {
			if r.Intn(5) < 2 {
				cs.Tuples = append(cs.Tuples, Tuple{O: Obj{"doc", "1"}, R: b, U: Subj{"user", u, ""}, Cctx: Ctx{}})
			}
		}
	}
	return cs
}

// setOpsShapes enumerates every three-level nesting  viewer = (f op3 d), f = (e op2 c), e = (a op1 b)
// over union / intersection / exclusion with both operand orders at the two upper levels (108 shapes),
// each with `per` wildcard-rich tuple assignments: negative information produced at the bottom has to
// survive two more levels whatever they are.
func setOpsShapes(r *rand.Rand, per int) []*Case {
	mk := func(k string, x, y *Rewrite) *Rewrite {
		if k == "diff" {
			return &Rewrite{K: "diff", Base: x, Sub: y}
		}
		return &Rewrite{K: k, Ch: []*Rewrite{x, y}}
	}
	comp := func(n string) *Rewrite { return &Rewrite{K: "computed", Rel: n} }
	ops := []string{"diff", "inter", "union"}
	var out []*Case
	n := 0
	for _, o1 := range ops {
		for _, o2 := range ops {
			for _, sw2 := range []bool{false, true} {
				for _, o3 := range ops {
					for _, sw3 := range []bool{false, true} {
						m := &Model{Types: []string{"user", "group", "folder", "doc"}, Conds: []CondDef{}}
						for _, b := range []string{"a", "b", "c", "d"} {
							m.Rels = append(m.Rels, RelDef{T: "doc", R: b, Rw: &Rewrite{K: "this"}, Restr: []Restr{{T: "user"}, {T: "user", WC: true}}})
						}
						e := mk(o1, comp("a"), comp("b"))
						f := mk(o2, comp("e1"), comp("c"))
						if sw2 {
							f = mk(o2, comp("c"), comp("e1"))
						}
						vw := mk(o3, comp("f1"), comp("d"))
						if sw3 {
							vw = mk(o3, comp("d"), comp("f1"))
						}
						m.Rels = append(m.Rels, RelDef{T: "doc", R: "e1", Rw: e, Restr: []Restr{}}, RelDef{T: "doc", R: "f1", Rw: f, Restr: []Restr{}},
							RelDef{T: "doc", R: "f2", Rw: comp("f1"), Restr: []Restr{}}, RelDef{T: "doc", R: "viewer", Rw: vw, Restr: []Restr{}})
						for k := 0; k < per; k++ {
							n++
							cs := &Case{N: -5000 - n, Model: m}
							for _, b := range []string{"a", "b", "c", "d"} {
								if r.Intn(2) == 0 {
									cs.Tuples = append(cs.Tuples, Tuple{O: Obj{"doc", "1"}, R: b, U: Subj{"user", "*", ""}, Cctx: Ctx{}})
								}
								for _, u := range []string{"a", "b"} {
									if r.Intn(5) < 2 {
										cs.Tuples = append(cs.Tuples, Tuple{O: Obj{"doc", "1"}, R: b, U: Subj{"user", u, ""}, Cctx: Ctx{}})
									}
								}
							}
							out = append(out, cs)
						}
					}
				}
			}
		}
	}
	return out
}

// runSetOps: ListUsers, Check and ListObjects over nested set operations with wildcards.
func runSetOps(ctx context.Context, v *Variants, rec *Recorder, run *Run, r *rand.Rand, cases int, what string) {
	all := setOpsShapes(r, run.Pick(10, 20))
	for i := 0; i < cases; i++ {
		all = append(all, setOpsCase(r, -100-i))
	}
	for _, cs := range all {
		if err := v.Base.Setup(ctx, cs.Model, cs.Tuples); err != nil {
			continue // a generated model the server refuses is not a case
		}
		rec.Setup(cs.SetupEv())
		for _, rel := range []string{"viewer", "f1", "f2", "e1"} {
			switch what {
			case "listusers":
				ev := &ListUsersEv{Eng: "server", O: Obj{"doc", "1"}, R: rel, FT: "user", Ctx: Ctx{}}
				v.Base.RunListUsers(ctx, ev)
				rec.Add(ev)
				run.Evals++
			}
		}
		run.Nontrivial(fmt.Sprintf("setops %s %s", what, hashOf([]any{cs.Model, cs.Tuples})))
	}
}

// naryCase: intersections / unions of three and four operands with operand sizes that differ (the
// engines start from the smallest operand), nested once more under a union and an exclusion.
func naryCase(r *rand.Rand, n int) *Case {
	m := &Model{Types: []string{"user", "group", "folder", "doc"}, Conds: []CondDef{}}
	base := []string{"a", "b", "c", "d"}
	for _, b := range base {
		m.Rels = append(m.Rels, RelDef{T: "doc", R: b, Rw: &Rewrite{K: "this"}, Restr: []Restr{{T: "user"}}})
	}
	comp := func(n string) *Rewrite { return &Rewrite{K: "computed", Rel: n} }
	perm := r.Perm(4)
	ops := func(k int) []*Rewrite {
		var out []*Rewrite
		for i := 0; i < k; i++ {
			out = append(out, comp(base[perm[i]]))
		}
		return out
	}
	m.Rels = append(m.Rels,
		RelDef{T: "doc", R: "i3", Rw: &Rewrite{K: "inter", Ch: ops(3)}, Restr: []Restr{}},
		RelDef{T: "doc", R: "i4", Rw: &Rewrite{K: "inter", Ch: ops(4)}, Restr: []Restr{}},
		RelDef{T: "doc", R: "u3", Rw: &Rewrite{K: "union", Ch: ops(3)}, Restr: []Restr{}},
		RelDef{T: "doc", R: "viewer", Rw: &Rewrite{K: "union", Ch: []*Rewrite{comp("i3"), comp(base[perm[3]])}}, Restr: []Restr{}},
		RelDef{T: "doc", R: "editor", Rw: &Rewrite{K: "diff", Base: comp("u3"), Sub: comp("i3")}, Restr: []Restr{}})
	cs := &Case{N: n, Model: m}
	for _, b := range base {
		p := 0.2 + 0.6*r.Float64() // each operand its own density: the sizes differ
		for id := 1; id <= 7; id++ {
			if r.Float64() < p {
				cs.Tuples = append(cs.Tuples, Tuple{O: Obj{"doc", fmt.Sprint(id)}, R: b, U: Subj{"user", "a", ""}, Cctx: Ctx{}})
			}
		}
	}
	return cs
}

// runNary: ListObjects over n-ary set operations on the given engines.
func runNary(ctx context.Context, v *Variants, rec *Recorder, run *Run, r *rand.Rand, cases int, engines []string) {
	for i := 0; i < cases; i++ {
		cs := naryCase(r, -9000-i)
		if err := v.Base.Setup(ctx, cs.Model, cs.Tuples); err != nil {
			continue
		}
		rec.Setup(cs.SetupEv())
		for _, rel := range []string{"i3", "i4", "u3", "viewer", "editor"} {
			for _, eng := range engines {
				ev := &ListObjectsEv{Eng: eng, T: "doc", R: rel, U: Subj{"user", "a", ""}, Ctx: Ctx{}}
				if !v.RunLO(ctx, ev) {
					continue
				}
				rec.Add(ev)
				run.Evals++
			}
		}
		run.Nontrivial(fmt.Sprintf("nary %s", hashOf([]any{cs.Model, cs.Tuples})))
	}
}
