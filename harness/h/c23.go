package h

import (
	"context"
	"encoding/json"
	"errors"
	"fmt"
	"math/rand"
	"path/filepath"
	"strconv"
	"strings"
	"sync"
	"time"

	openfgav1 "github.com/openfga/api/proto/openfga/v1"

	"github.com/openfga/openfga/internal/iterator"
	"github.com/openfga/openfga/pkg/storage"
	"github.com/openfga/openfga/pkg/storage/storagewrappers/sharediterator"
)

var IterSpecDirs = func() []string { return []string{filepath.Join(VerifRoot(), "spec", "iter")} }

// ---------------------------------------------------------------- sources

type codeErr int

func (e codeErr) Error() string { return fmt.Sprintf("verif: injected error %d", int(e)) }

// srcIter yields conv(v) for each v >= 0 of items and raises codeErr(v) at a negative item (sticky).
type srcIter[T any] struct {
	mu      sync.Mutex
	items   []int
	pos     int
	stopped bool
	calls   int
	conv    func(int) T
	onCall  func()
}

func (s *srcIter[T]) cur() (T, error) {
	var zero T
	if s.stopped || s.pos >= len(s.items) {
		return zero, storage.ErrIteratorDone
	}
	if v := s.items[s.pos]; v < 0 {
		return zero, codeErr(v)
	}
	return s.conv(s.items[s.pos]), nil
}
func (s *srcIter[T]) Next(ctx context.Context) (T, error) {
	if s.onCall != nil {
		s.onCall()
	}
	if err := ctx.Err(); err != nil { // like a database iterator: a cancelled context fails the read and consumes nothing
		var zero T
		return zero, err
	}
	s.mu.Lock()
	defer s.mu.Unlock()
	s.calls++
	t, err := s.cur()
	if err == nil {
		s.pos++
	}
	return t, err
}
func (s *srcIter[T]) Head(ctx context.Context) (T, error) {
	s.mu.Lock()
	defer s.mu.Unlock()
	return s.cur()
}
func (s *srcIter[T]) Stop()           { s.mu.Lock(); s.stopped = true; s.mu.Unlock() }
func (s *srcIter[T]) IsOrdered() bool { return true }
func (s *srcIter[T]) state() (calls int, stopped bool) {
	s.mu.Lock()
	defer s.mu.Unlock()
	return s.calls, s.stopped
}

func intSrc(items []int) *srcIter[int] {
	return &srcIter[int]{items: items, conv: func(v int) int { return v }}
}
func strSrc(items []int) *srcIter[string] {
	return &srcIter[string]{items: items, conv: func(v int) string { return fmt.Sprintf("doc:%03d", v) }}
}
func tupOf(v int) *openfgav1.Tuple {
	return &openfgav1.Tuple{Key: &openfgav1.TupleKey{Object: fmt.Sprintf("doc:%03d", v), Relation: "viewer", User: "user:a"}}
}
func tupSrc(items []int) *srcIter[*openfgav1.Tuple] {
	return &srcIter[*openfgav1.Tuple]{items: items, conv: tupOf}
}
func keySrc(items []int) *srcIter[*openfgav1.TupleKey] {
	return &srcIter[*openfgav1.TupleKey]{items: items, conv: func(v int) *openfgav1.TupleKey { return tupOf(v).GetKey() }}
}
func objVal(obj string) int {
	n, err := strconv.Atoi(strings.TrimPrefix(obj, "doc:"))
	if err != nil {
		return -98
	}
	return n
}

// result code of one call: value, -1 done, injected code, -99 anything else
func resCode(v int, err error) int {
	if err == nil {
		return v
	}
	var ce codeErr
	switch {
	case errors.Is(err, storage.ErrIteratorDone):
		return -1
	case errors.As(err, &ce):
		return int(ce)
	case errors.Is(err, context.Canceled):
		return -98
	}
	return -99
}

// opIter erases the element type
type opIter struct {
	next, head func(context.Context) int
	stop       func()
}

func wrapInt(it storage.Iterator[int]) opIter {
	return opIter{func(c context.Context) int { v, e := it.Next(c); return resCode(v, e) }, func(c context.Context) int { v, e := it.Head(c); return resCode(v, e) }, it.Stop}
}
func wrapStr(it storage.Iterator[string]) opIter {
	f := func(s string, e error) int {
		if e != nil {
			return resCode(0, e)
		}
		return objVal(s)
	}
	return opIter{func(c context.Context) int { return f(it.Next(c)) }, func(c context.Context) int { return f(it.Head(c)) }, it.Stop}
}
func wrapTup(it storage.TupleIterator) opIter {
	f := func(t *openfgav1.Tuple, e error) int {
		if e != nil {
			return resCode(0, e)
		}
		return objVal(t.GetKey().GetObject())
	}
	return opIter{func(c context.Context) int { return f(it.Next(c)) }, func(c context.Context) int { return f(it.Head(c)) }, it.Stop}
}
func wrapKey(it storage.TupleKeyIterator) opIter {
	f := func(t *openfgav1.TupleKey, e error) int {
		if e != nil {
			return resCode(0, e)
		}
		return objVal(t.GetObject())
	}
	return opIter{func(c context.Context) int { return f(it.Next(c)) }, func(c context.Context) int { return f(it.Head(c)) }, it.Stop}
}

type adapterEv struct {
	E      string   `json:"e"`
	Kind   string   `json:"kind"`
	Impl   string   `json:"impl"`
	Srcs   [][]int  `json:"srcs"`
	Drop   []int    `json:"drop"`
	Ferr   []int    `json:"ferr"`
	Target int      `json:"target"`
	Ops    []string `json:"ops"`
	Obs    []int    `json:"obs"`
}

var adapterKinds = []string{"static", "statickeys", "combined", "combinedtup", "concat", "filter", "condfilter", "keyfilter", "validate", "skipto", "skiptostream", "merge", "ordered"}

func hasHead(impl string) bool {
	switch impl {
	case "concat", "filter", "merge":
		return false
	}
	return true
}
func nSources(impl string, r *rand.Rand) int {
	switch impl {
	case "combined", "combinedtup", "ordered":
		return 1 + r.Intn(3)
	case "concat", "merge":
		return 2
	}
	return 1
}

// runAdapter builds the real adapter, runs the script until the first error and fills Ops/Obs.
func runAdapter(ev *adapterEv, script []string) {
	ctx := context.Background()
	in := func(x int, set []int) bool {
		for _, y := range set {
			if x == y {
				return true
			}
		}
		return false
	}
	var it opIter
	switch ev.Impl {
	case "static":
		it = wrapInt(storage.NewStaticIterator[int](append([]int{}, ev.Srcs[0]...)))
	case "statickeys":
		it = wrapKey(storage.NewTupleKeyIteratorFromTupleIterator(tupSrc(ev.Srcs[0])))
	case "combined":
		var srcs []storage.Iterator[int]
		for _, s := range ev.Srcs {
			srcs = append(srcs, intSrc(s))
		}
		it = wrapInt(storage.NewCombinedIterator[int](srcs...))
	case "combinedtup":
		var srcs []storage.Iterator[*openfgav1.Tuple]
		for _, s := range ev.Srcs {
			srcs = append(srcs, tupSrc(s))
		}
		it = wrapTup(storage.NewCombinedIterator[*openfgav1.Tuple](srcs...))
	case "concat":
		it = wrapInt(iterator.Concat[int](intSrc(ev.Srcs[0]), intSrc(ev.Srcs[1])))
	case "filter":
		it = wrapInt(iterator.NewFilteredIterator[int](intSrc(ev.Srcs[0]),
			func(v int) (bool, error) { return !in(v, ev.Drop), nil },
			func(v int) (bool, error) {
				if in(v, ev.Ferr) {
					return false, codeErr(-(100 + v))
				}
				return true, nil
			}))
	case "condfilter":
		it = wrapKey(storage.NewConditionsFilteredTupleKeyIterator(keySrc(ev.Srcs[0]), func(k *openfgav1.TupleKey) (bool, error) {
			v := objVal(k.GetObject())
			if in(v, ev.Drop) {
				return false, nil
			}
			if in(v, ev.Ferr) {
				return false, codeErr(-(100 + v))
			}
			return true, nil
		}))
	case "keyfilter":
		it = wrapKey(storage.NewFilteredTupleKeyIterator(keySrc(ev.Srcs[0]), func(k *openfgav1.TupleKey) bool { return !in(objVal(k.GetObject()), ev.Drop) }))
	case "validate":
		it = wrapInt(iterator.Validate[int](intSrc(ev.Srcs[0]), func(v int) (bool, error) {
			if in(v, ev.Ferr) {
				return false, codeErr(-(100 + v))
			}
			return !in(v, ev.Drop), nil
		}))
	case "skipto", "skiptostream":
		src := strSrc(ev.Srcs[0])
		var err error
		var sit storage.Iterator[string] = src
		if ev.Impl == "skipto" {
			err = iterator.SkipTo(ctx, src, fmt.Sprintf("doc:%03d", ev.Target))
		} else {
			ch := make(chan *iterator.Msg, 1)
			ch <- &iterator.Msg{Iter: src}
			close(ch)
			st := iterator.NewStream(0, ch)
			ss := iterator.NewStreams([]*iterator.Stream{st})
			if _, cerr := ss.CleanDone(ctx); cerr != nil {
				err = cerr
			} else {
				err = st.SkipToTargetObject(ctx, fmt.Sprintf("doc:%03d", ev.Target))
			}
			sit = st
		}
		if err != nil {
			ev.Ops, ev.Obs = []string{"N"}, []int{resCode(0, err)}
			return
		}
		it = wrapStr(sit)
	case "merge":
		it = wrapInt(iterator.Merge[int](intSrc(ev.Srcs[0]), intSrc(ev.Srcs[1]), func(a, b int) int { return a - b }))
	case "ordered":
		var srcs []storage.TupleIterator
		for _, s := range ev.Srcs {
			srcs = append(srcs, tupSrc(s))
		}
		it = wrapTup(storage.NewOrderedCombinedIterator(func(t *openfgav1.Tuple) string { return t.GetKey().GetObject() }, srcs...))
	default:
		panic("unknown adapter " + ev.Impl)
	}
	ev.Ops, ev.Obs = []string{}, []int{}
	for _, op := range script {
		ev.Ops = append(ev.Ops, op)
		switch op {
		case "S":
			it.stop()
			continue
		case "N":
			ev.Obs = append(ev.Obs, it.next(ctx))
		case "H":
			ev.Obs = append(ev.Obs, it.head(ctx))
		}
		if ev.Obs[len(ev.Obs)-1] <= -2 {
			break
		}
	}
	it.stop()
}

func specKind(impl string) string {
	switch impl {
	case "statickeys":
		return "static"
	case "combinedtup":
		return "combined"
	case "skiptostream":
		return "skipto"
	}
	return impl
}

func genSource(r *rand.Rand, sorted bool, allowErr bool, maxLen, maxVal int) []int {
	n := r.Intn(maxLen + 1)
	s := make([]int, 0, n+1)
	cur := 0
	for i := 0; i < n; i++ {
		if sorted {
			cur += r.Intn(3)
			if cur > maxVal {
				cur = maxVal
			}
			s = append(s, cur)
		} else {
			s = append(s, r.Intn(maxVal+1))
		}
	}
	if allowErr && r.Intn(10) < 3 {
		p := r.Intn(len(s) + 1)
		s = append(s[:p], append([]int{-(2 + r.Intn(3))}, s[p:]...)...)
	}
	return s
}

func genScript(r *rand.Rand, impl string, total int, withStop bool) []string {
	var ops []string
	n := total + 2 + r.Intn(2)
	for i := 0; i < n; i++ {
		if hasHead(impl) && r.Intn(3) == 0 {
			ops = append(ops, "H")
			if r.Intn(3) == 0 {
				ops = append(ops, "H")
			}
		}
		ops = append(ops, "N")
	}
	if withStop {
		p := r.Intn(len(ops) + 1)
		ops = append(ops[:p:p], "S", "N", "N")
	}
	return ops
}

func subsetOf(r *rand.Rand, maxVal int) []int {
	out := []int{}
	for v := 0; v <= maxVal; v++ {
		if r.Intn(4) == 0 {
			out = append(out, v)
		}
	}
	return out
}

// ---------------------------------------------------------------- fan-in

func runFanIn(r *rand.Rand) *adapterEv {
	ctx := context.Background()
	n := 1 + r.Intn(4)
	ev := &adapterEv{E: "Adapter", Kind: "fanin", Impl: "fanin", Srcs: [][]int{}, Drop: []int{}, Ferr: []int{}, Ops: []string{}, Obs: []int{}}
	var chans []<-chan *iterator.Msg
	var wg sync.WaitGroup
	for c := 0; c < n; c++ {
		m := r.Intn(5)
		ids := []int{}
		for i := 0; i < m; i++ {
			ids = append(ids, (c+1)*100+i)
		}
		ev.Srcs = append(ev.Srcs, ids)
		ch := make(chan *iterator.Msg, r.Intn(2))
		chans = append(chans, ch)
		delay := time.Duration(r.Intn(200)) * time.Microsecond
		wg.Add(1)
		go func(ids []int, ch chan *iterator.Msg) {
			defer wg.Done()
			for _, id := range ids {
				time.Sleep(delay)
				ch <- &iterator.Msg{Iter: strSrc([]int{id})}
			}
			close(ch)
		}(ids, ch)
	}
	out := iterator.FanInIteratorChannels(ctx, chans)
	for m := range out {
		s, err := m.Iter.Next(ctx)
		if err != nil {
			ev.Obs = append(ev.Obs, -99)
			continue
		}
		ev.Obs = append(ev.Obs, objVal(s))
	}
	wg.Wait()
	return ev
}

// ---------------------------------------------------------------- shared iterator

type fakeReader struct {
	storage.RelationshipTupleReader
	mu      sync.Mutex
	u       []int
	iters   []*srcIter[*openfgav1.Tuple]
	onFetch func()
	hmu     sync.Mutex
	dynHook func() // installed for the duration of one call (cancel the caller's context when the source is read)
}

func (f *fakeReader) setHook(h func()) { f.hmu.Lock(); f.dynHook = h; f.hmu.Unlock() }

func (f *fakeReader) Read(ctx context.Context, store string, filter storage.ReadFilter, o storage.ReadOptions) (storage.TupleIterator, error) {
	f.mu.Lock()
	defer f.mu.Unlock()
	it := tupSrc(f.u)
	it.onCall = func() {
		if f.onFetch != nil {
			f.onFetch()
		}
		f.hmu.Lock()
		h := f.dynHook
		f.hmu.Unlock()
		if h != nil {
			h()
		}
	}
	f.iters = append(f.iters, it)
	return it, nil
}
func (f *fakeReader) count() int { f.mu.Lock(); defer f.mu.Unlock(); return len(f.iters) }
func (f *fakeReader) stoppedSet() []int {
	f.mu.Lock()
	defer f.mu.Unlock()
	out := []int{}
	for i, it := range f.iters {
		if _, st := it.state(); st {
			out = append(out, i+1)
		}
	}
	return out
}
func (f *fakeReader) calls(i int) int {
	f.mu.Lock()
	defer f.mu.Unlock()
	if i < 1 || i > len(f.iters) {
		return 0
	}
	c, _ := f.iters[i-1].state()
	return c
}

type sharedStep struct {
	C  int
	Op string // "C" clone, "N", "H", "S", "W" wait for the idle timer
}

const sharedChunk = 100 // sharediterator's bufferSize

// runSharedSchedule executes one sequential schedule on a fresh shared-iterator datastore and returns its trace lines.
func runSharedSchedule(u []int, sched []sharedStep, idle time.Duration) []any {
	ctx := context.Background()
	termu := -1
	vals := u
	if len(u) > 0 && u[len(u)-1] < 0 {
		termu = u[len(u)-1]
		vals = u[:len(u)-1]
	}
	fr := &fakeReader{u: u}
	ds := sharediterator.NewSharedIteratorDatastore(fr, sharediterator.NewSharedIteratorDatastoreStorage(),
		sharediterator.WithMaxAdmissionTime(time.Hour), sharediterator.WithMaxIdleTime(idle))
	events := []any{map[string]any{"e": "Reset", "u": append([]int{}, vals...), "termu": termu, "b": sharedChunk}}
	its := map[int]opIter{}
	under := map[int]int{} // clone -> index of its underlying iterator (generation)
	curGen := 0
	for _, st := range sched {
		switch st.Op {
		case "W":
			time.Sleep(idle + idle/2 + 5*time.Millisecond)
		case "C":
			before := fr.count()
			it, err := ds.Read(ctx, "store", storage.ReadFilter{Object: "doc:", Relation: "viewer"}, storage.ReadOptions{})
			if err != nil {
				panic(err)
			}
			kind := "bypass"
			if strings.Contains(fmt.Sprintf("%T", it), "sharedIterator") {
				kind = "shared"
			}
			created := 0
			if fr.count() > before {
				created = fr.count()
			}
			if kind == "shared" {
				if created != 0 {
					curGen = created
				}
				under[st.C] = curGen
			} else {
				under[st.C] = created
			}
			its[st.C] = wrapTup(it)
			events = append(events, map[string]any{"e": "Clone", "c": st.C, "kind": kind, "under": created, "stopped": fr.stoppedSet()})
		case "X": // Next whose caller is cancelled at the moment the underlying iterator is read on its behalf
			it, ok := its[st.C]
			if !ok {
				continue
			}
			cctx, cancel := context.WithCancel(ctx)
			fired := false
			fr.setHook(func() { fired = true; cancel() })
			res := it.next(cctx)
			fr.setHook(nil)
			cancel()
			events = append(events, map[string]any{"e": "CNext", "c": st.C, "res": res, "fired": fired, "calls": fr.calls(under[st.C]), "stopped": fr.stoppedSet()})
		case "N", "H", "S":
			it, ok := its[st.C]
			if !ok {
				continue
			}
			ev := map[string]any{"c": st.C}
			switch st.Op {
			case "N":
				ev["e"], ev["res"] = "Next", it.next(ctx)
			case "H":
				ev["e"], ev["res"] = "Head", it.head(ctx)
			case "S":
				ev["e"] = "Stop"
				it.stop()
			}
			ev["calls"], ev["stopped"] = fr.calls(under[st.C]), fr.stoppedSet()
			events = append(events, ev)
		}
	}
	for _, it := range its {
		it.stop()
	}
	return events
}

// runSharedConcurrent: n goroutines read the same key concurrently, each with its own script; one Consumer line each.
func runSharedConcurrent(r *rand.Rand, u []int, n int) []any {
	ctx := context.Background()
	termu := -1
	vals := u
	if len(u) > 0 && u[len(u)-1] < 0 {
		termu = u[len(u)-1]
		vals = u[:len(u)-1]
	}
	fr := &fakeReader{u: u}
	jit := rand.New(rand.NewSource(r.Int63()))
	var jmu sync.Mutex
	fr.onFetch = func() {
		jmu.Lock()
		d := jit.Intn(40)
		jmu.Unlock()
		if d < 3 {
			time.Sleep(time.Duration(d*20) * time.Microsecond)
		}
	}
	ds := sharediterator.NewSharedIteratorDatastore(fr, sharediterator.NewSharedIteratorDatastoreStorage(),
		sharediterator.WithMaxAdmissionTime(time.Duration(1+r.Intn(20))*time.Millisecond), sharediterator.WithMaxIdleTime(time.Duration(1+r.Intn(5))*time.Millisecond))
	events := []any{map[string]any{"e": "Reset", "u": append([]int{}, vals...), "termu": termu, "b": sharedChunk}}
	type plan struct {
		stopAfter int // -1: drain
		heads     bool
		delay     time.Duration
		cancelAt  time.Duration // > 0: this consumer's context is cancelled after that time; it stops at the first cancellation error
	}
	plans := make([]plan, n)
	for i := range plans {
		plans[i] = plan{stopAfter: -1, heads: r.Intn(2) == 0, delay: time.Duration(r.Intn(300)) * time.Microsecond}
		if r.Intn(3) == 0 {
			plans[i].stopAfter = r.Intn(len(vals) + 1)
		}
		if i > 0 && r.Intn(3) == 0 { // consumer 0 is never cancelled: somebody always observes the stream
			plans[i].cancelAt = time.Duration(1+r.Intn(400)) * time.Microsecond
		}
	}
	out := make([]any, n)
	var wg sync.WaitGroup
	for i := 0; i < n; i++ {
		wg.Add(1)
		go func(i int) {
			defer wg.Done()
			p := plans[i]
			time.Sleep(p.delay)
			ctx := ctx
			if p.cancelAt > 0 {
				c2, cancel := context.WithTimeout(ctx, p.cancelAt)
				defer cancel()
				ctx = c2
			}
			it, err := ds.Read(ctx, "store", storage.ReadFilter{Object: "doc:", Relation: "viewer"}, storage.ReadOptions{})
			if err != nil {
				out[i] = map[string]any{"e": "Consumer", "obs": []int{-99}, "full": true}
				return
			}
			oi := wrapTup(it)
			obs := []int{}
			full := false
			for k := 0; ; k++ {
				if p.stopAfter >= 0 && k >= p.stopAfter {
					break
				}
				var h, x int
				if p.heads {
					h = oi.head(ctx)
				}
				x = oi.next(ctx)
				if p.cancelAt > 0 && ctx.Err() != nil { // its own cancellation: what it saw before still has to be the stream
					break
				}
				if p.heads && h != x {
					obs = append(obs, -97) // Head disagreed with the following Next
				}
				obs = append(obs, x)
				if obs[len(obs)-1] < 0 {
					full = true
					break
				}
			}
			oi.stop()
			out[i] = map[string]any{"e": "Consumer", "obs": obs, "full": full}
		}(i)
	}
	wg.Wait()
	return append(events, out...)
}

// ---------------------------------------------------------------- C23

func C23(run *Run) {
	r := rand.New(rand.NewSource(run.Seed))
	// ---- design model: exhaustive TLC runs of SharedIter
	cfgs := []string{"SharedIterMC.cfg", "SharedIterMC_err.cfg"}
	if run.Thorough() {
		cfgs = append(cfgs, "SharedIterMC_big.cfg")
	}
	for _, cfg := range cfgs {
		out, err := TLCRun{SpecDirs: IterSpecDirs(), Module: "SharedIterMC", Config: cfg, Workers: 8, Timeout: 10 * time.Minute}.Run()
		if err != nil || out.TimedOut {
			run.Inconclusive("TLC on %s: %v\n%s", cfg, err, tail(out))
		}
		if out.Violated != "" {
			run.Violation(map[string]any{"prop": "C23", "class": "DESIGN_MODEL_VIOLATION", "cfg": cfg, "violated": out.Violated, "tlc": tail(out)}, "SharedIter design model violates "+out.Violated+" under "+cfg)
			continue
		}
		if !strings.Contains(out.Stdout, "No error has been found") {
			run.Inconclusive("TLC on %s did not complete:\n%s", cfg, tail(out))
		}
		run.Coverage["tlc:"+cfg] = fmt.Sprintf("%d states generated, %d distinct, exhaustive", out.Generated, out.Distinct)
	}
	// ---- adapters
	var events []any
	nAd := run.Pick(6000, 60000)
	for i := 0; i < nAd; i++ {
		impl := adapterKinds[i%len(adapterKinds)]
		ev := &adapterEv{E: "Adapter", Impl: impl, Kind: specKind(impl), Drop: []int{}, Ferr: []int{}}
		sorted := impl == "merge" || impl == "ordered" || impl == "skipto" || impl == "skiptostream"
		allowErr := impl != "static"
		total := 0
		for k, n := 0, nSources(impl, r); k < n; k++ {
			s := genSource(r, sorted && r.Intn(8) != 0 || impl == "merge" || impl == "ordered", allowErr, 4, 5)
			ev.Srcs = append(ev.Srcs, s)
			total += len(s)
		}
		switch impl {
		case "filter", "condfilter", "validate":
			ev.Drop, ev.Ferr = subsetOf(r, 5), subsetOf(r, 5)
		case "keyfilter":
			ev.Drop = subsetOf(r, 5)
		case "skipto", "skiptostream":
			ev.Target = r.Intn(7)
		}
		withStop := r.Intn(5) == 0 && stopContract(impl)
		runAdapter(ev, genScript(r, impl, total, withStop))
		events = append(events, ev)
		run.Evals++
		run.Nontrivial(fmt.Sprintf("%s|%v|%v|%v|%d|%v", impl, ev.Srcs, ev.Drop, ev.Ferr, ev.Target, ev.Ops))
		if i < 2 {
			run.AddSample(ev)
		}
	}
	for i := 0; i < run.Pick(300, 3000); i++ {
		events = append(events, runFanIn(r))
		run.Evals++
	}
	sum, err := ValidateTrace(IterSpecDirs(), "IterTrace", events, 8, func(int) bool { return true }, 20*time.Minute)
	if err != nil {
		run.Inconclusive("IterTrace validation failed: %v", err)
	}
	for _, b := range sum.Bad {
		run.Classified(b.Cls, map[string]any{"prop": run.Prop, "class": b.Cls, "event": events[b.L], "want": b.Ref}, fmt.Sprintf("%s want %s", jsonOf(events[b.L]), b.Ref))
	}
	counts := map[string]int{}
	for k, v := range sum.Counts {
		counts[k] = v
	}
	judged, lines := sum.Judged, sum.Lines
	// ---- shared iterator: sequential schedules (exhaustive small, then random) and concurrent runs
	var sev []any
	cuts := map[int]bool{}
	addRun := func(evs []any) {
		cuts[len(sev)] = true
		sev = append(sev, evs...)
	}
	idle := 15 * time.Millisecond
	// exhaustive: two clones, every interleaving of their scripts up to a bound over a short sequence
	scripts := [][]string{{"C", "N", "N", "N", "S"}, {"C", "H", "N", "S", "N"}, {"C", "N", "N", "N", "N"}, {"C", "X", "N", "X", "N"}}
	nsched := 0
	var inter func(a, b []string, acc []sharedStep)
	var us = [][]int{{10, 11}, {10, 11, -2}, {}}
	inter = func(a, b []string, acc []sharedStep) {
		if len(a) == 0 && len(b) == 0 {
			for _, u := range us {
				addRun(runSharedSchedule(u, acc, time.Hour))
				nsched++
			}
			return
		}
		if len(a) > 0 {
			inter(a[1:], b, append(acc[:len(acc):len(acc)], sharedStep{1, a[0]}))
		}
		if len(b) > 0 {
			inter(a, b[1:], append(acc[:len(acc):len(acc)], sharedStep{2, b[0]}))
		}
	}
	for i, a := range scripts {
		for j, b := range scripts {
			if run.Thorough() || (i+j)%2 == 0 {
				inter(a, b[:run.Pick(4, 5)], nil)
			}
		}
	}
	// random longer schedules with timer waits and sequences spanning several chunks
	for i := 0; i < run.Pick(60, 600); i++ {
		n := []int{0, 3, 99, 100, 101, 200, 250}[r.Intn(7)]
		u := make([]int, n)
		for k := range u {
			u[k] = 10 + k
		}
		if r.Intn(3) == 0 {
			u = append(u, -2)
		}
		var sched []sharedStep
		nc := 1 + r.Intn(4)
		started := map[int]bool{}
		for k, steps := 0, 10+r.Intn(n+20); k < steps; k++ {
			c := 1 + r.Intn(nc)
			if !started[c] {
				started[c] = true
				sched = append(sched, sharedStep{c, "C"})
				continue
			}
			switch x := r.Intn(40); {
			case x == 0 && i%4 == 0:
				sched = append(sched, sharedStep{0, "W"})
			case x < 3:
				sched = append(sched, sharedStep{c, "S"})
			case x < 10:
				sched = append(sched, sharedStep{c, "H"})
			case x < 13:
				sched = append(sched, sharedStep{c, "X"})
			default:
				sched = append(sched, sharedStep{c, "N"})
			}
		}
		addRun(runSharedSchedule(u, sched, idle))
		nsched++
	}
	ncon := 0
	for i := 0; i < run.Pick(150, 1500); i++ {
		n := []int{0, 5, 100, 101, 230}[r.Intn(5)]
		u := make([]int, n)
		for k := range u {
			u[k] = 10 + k
		}
		if r.Intn(3) == 0 {
			u = append(u, -2)
		}
		addRun(runSharedConcurrent(r, u, 2+r.Intn(6)))
		ncon++
	}
	for _, e := range sev {
		if m, ok := e.(map[string]any); ok && m["e"] != "Reset" {
			run.Evals++
		}
	}
	ssum, err := ValidateTrace(IterSpecDirs(), "SharedIterTrace", sev, 8, func(i int) bool { return cuts[i] }, 20*time.Minute)
	if err != nil {
		run.Inconclusive("SharedIterTrace validation failed: %v", err)
	}
	for _, b := range ssum.Bad {
		// replay = the whole run the line belongs to
		lo := b.L
		for lo > 0 && !cuts[lo] {
			lo--
		}
		hi := b.L + 1
		for hi < len(sev) && !cuts[hi] {
			hi++
		}
		run.Classified(b.Cls, map[string]any{"prop": run.Prop, "class": b.Cls, "line": b.L - lo, "run": sev[lo:hi], "want": b.Ref}, fmt.Sprintf("line %s want %s", jsonOf(sev[b.L]), b.Ref))
	}
	for k, v := range ssum.Counts {
		counts[k] += v
	}
	run.Nontrivial(fmt.Sprintf("shared schedules %d concurrent %d", nsched, ncon))
	run.Coverage["shared_sequential_schedules"] = nsched
	run.Coverage["shared_concurrent_runs"] = ncon
	run.Coverage["judged_by_tlc"] = judged + ssum.Judged
	run.Coverage["verdict_classes"] = counts
	run.Coverage["traces_validated_against_impl"] = lines + ssum.Lines
	run.Coverage["rule"] = "adapters: random sources (values 0..5, length <= 4, sorted where the adapter requires it, an injected sticky error at a random position in 30%) and random Head/Next/Stop scripts on the real static, tuple-key, combined, concat, filter, conditions-filter, key-filter, validate, SkipTo, Stream.SkipToTargetObject, Merge and OrderedCombined iterators, plus fan-in of channels under random producer timing; TLC computes each adapter's specified stream (IterTrace.tla) and compares the observation. Shared iterator: design model SharedIter.tla checked exhaustively by TLC (3 clones, chunked fetch, timer stop: prefix/complete/refcount/no-use-after-stop); every interleaving of two consumers' scripts and random longer schedules (sequences spanning 0..3 chunks, idle-timer waits, early stops) run on the real IteratorDatastore and validated line by line against SharedIterTrace.tla (results, fetch counts of the underlying iterator, release of the underlying iterator), and concurrent goroutine runs whose per-consumer observations must be the underlying sequence"
	run.Assumptions = []string{"element values are small integers rendered as object ids", "merge / ordered combination with an erroring source are judged by the prefix rule (look-ahead makes the error position schedule-dependent)"}
}

// adapters for which "Next after Stop returns done" is checked (those without buffered look-ahead or remembered errors)
func stopContract(impl string) bool {
	switch impl {
	case "static", "statickeys", "combined", "combinedtup", "concat", "keyfilter", "validate", "ordered":
		return true
	}
	return false
}

func jsonOf(x any) string {
	b, _ := json.Marshal(x)
	if len(b) > 400 {
		b = b[:400]
	}
	return string(b)
}
