package h

import (
	"context"
	"fmt"
	"math/rand"
	"sort"
	"strconv"
	"strings"
	"time"

	openfgav1 "github.com/openfga/api/proto/openfga/v1"

	"github.com/openfga/openfga/internal/graph"
	"github.com/openfga/openfga/internal/modelgraph"
	"github.com/openfga/openfga/internal/planner"
	"github.com/openfga/openfga/pkg/server/commands"
	"github.com/openfga/openfga/pkg/tuple"
	"github.com/openfga/openfga/pkg/typesystem"
)

// Events of spec/core/ApiTrace.tla.

type SetupEv struct {
	E      string  `json:"e"`
	Case   int     `json:"case"`
	Model  *Model  `json:"model"`
	Tuples []Tuple `json:"tuples"`
}

type CheckEv struct {
	E    string  `json:"e"`
	Eng  string  `json:"eng"`
	O    Obj     `json:"o"`
	R    string  `json:"r"`
	U    Subj    `json:"u"`
	Ctx  Ctx     `json:"ctx"`
	Ctxt []Tuple `json:"ctxt"`
	Got  string  `json:"got"`
	Errk string  `json:"errk"`
	Err  string  `json:"errmsg"`
	HC   bool    `json:"hc"`
	Solo string  `json:"solo,omitempty"` // outcome of the same request as a standalone Check (C07, C32)
	Shi  bool    `json:"shi,omitempty"`  // the serving engine has shared iterators on
}

type BatchEv struct {
	E      string   `json:"e"`
	IDs    []string `json:"ids"`
	ResIDs []string `json:"resids"`
	IsErr  bool     `json:"err"`
	Err    string   `json:"errmsg"`
}

type ListObjectsEv struct {
	E     string   `json:"e"`
	Eng   string   `json:"eng"`
	T     string   `json:"t"`
	R     string   `json:"r"`
	U     Subj     `json:"u"`
	Ctx   Ctx      `json:"ctx"`
	Ctxt  []Tuple  `json:"ctxt"`
	Limit int      `json:"limit"`
	Got   []string `json:"got"`
	IsErr bool     `json:"err"`
	Errk  string   `json:"errk"`
	Err   string   `json:"errmsg"`
	HC    bool     `json:"hc"`
	WB1   bool     `json:"wb1,omitempty"` // weighted engine running with resolve-node breadth limit 1 (KF-18 call site)
}

type ListUsersEv struct {
	E     string  `json:"e"`
	Eng   string  `json:"eng"`
	O     Obj     `json:"o"`
	R     string  `json:"r"`
	FT    string  `json:"ft"`
	FRel  string  `json:"frel"`
	Ctx   Ctx     `json:"ctx"`
	Ctxt  []Tuple `json:"ctxt"`
	Got   []Subj  `json:"got"`
	IsErr bool    `json:"err"`
	Errk  string  `json:"errk"`
	Err   string  `json:"errmsg"`
	HC    bool    `json:"hc"`
}

type ORef struct {
	O Obj    `json:"o"`
	R string `json:"r"`
}

type Tree struct {
	Name     ORef    `json:"name"`
	K        string  `json:"k"`
	Users    *[]Subj `json:"users,omitempty"`
	Sorted   bool    `json:"sorted"`
	Target   *ORef   `json:"target,omitempty"`
	TS       *ORef   `json:"ts,omitempty"`
	Computed *[]ORef `json:"computed,omitempty"`
	Ch       []*Tree `json:"ch,omitempty"`
	Base     *Tree   `json:"base,omitempty"`
	Sub      *Tree   `json:"sub,omitempty"`
}

type ExpandEv struct {
	E     string  `json:"e"`
	Eng   string  `json:"eng"`
	O     Obj     `json:"o"`
	R     string  `json:"r"`
	Ctxt  []Tuple `json:"ctxt"`
	Got   *Tree   `json:"got"`
	IsErr bool    `json:"err"`
	Err   string  `json:"errmsg"`
}

func normCtx(c Ctx) Ctx {
	if c == nil {
		return Ctx{}
	}
	return c
}
func normTuples(ts []Tuple) []Tuple {
	out := make([]Tuple, 0, len(ts))
	for _, t := range ts {
		out = append(out, t.Norm())
	}
	return out
}

func consistency(hc bool) openfgav1.ConsistencyPreference {
	if hc {
		return openfgav1.ConsistencyPreference_HIGHER_CONSISTENCY
	}
	return openfgav1.ConsistencyPreference_UNSPECIFIED
}

// ---------------------------------------------------------------- Check

// RunCheck executes ev through the engine named by ev.Eng and fills Got/Errk.
//
//	"server"                production wiring (Server.Check)
//	"v1:<strategy>"         LocalChecker with the planner forced to <strategy>
//	"v2:<strategy>"         weighted-graph CheckQueryV2 with forced planner
func (e *Env) RunCheck(ctx context.Context, ev *CheckEv, ts *typesystem.TypeSystem, mg *modelgraph.AuthorizationModelGraph) {
	ev.E = "Check"
	ev.Got, ev.Errk, ev.Err = "", "", ""
	if e.lastSetup != "" {
		Activity.Store("Check eng=" + ev.Eng + " " + ev.O.String() + "#" + ev.R + "@" + ev.U.String() + " ctx=" + jsonOf(ev.Ctx) + " ctxt=" + jsonOf(ev.Ctxt) + " || " + e.lastSetup)
	}
	ev.Shi = strings.Contains(e.name+":", ":shi:") // served with shared iterators on (KF-24 call site)
	ev.Ctx = normCtx(ev.Ctx)
	ev.Ctxt = normTuples(ev.Ctxt)
	var allowed bool
	var err error
	switch {
	case ev.Eng == "server" || strings.HasPrefix(ev.Eng, "server:"):
		var resp *openfgav1.CheckResponse
		call := func() {
			resp, err = e.S.Check(ctx, &openfgav1.CheckRequest{StoreId: e.StoreID, AuthorizationModelId: e.ModelID,
				TupleKey:         &openfgav1.CheckRequestTupleKey{Object: ev.O.String(), Relation: ev.R, User: ev.U.String()},
				ContextualTuples: CtxTuples(ev.Ctxt), Context: ev.Ctx.ToProto(), Consistency: consistency(ev.HC)})
		}
		if ev.Eng == "server:v2" {
			// KF-28: Server.Check with weighted_graph_check runs away the same way (goroutine dump: main goroutine
			// three minutes inside Server.v2Check > ResolveUnionEdges, 18 406 goroutines)
			if !Watchdog(V2RunawayLimit+5*time.Second, call) {
				V2RanAway.Store(true)
				ev.Got, ev.Errk, ev.Err = "ERR", "runaway", fmt.Sprintf("no answer within %s", V2RunawayLimit+5*time.Second)
				recordRunaway(ev)
				return
			}
		} else {
			call()
		}
		allowed = resp.GetAllowed()
	case strings.HasPrefix(ev.Eng, "v1:"):
		// v1:<strategy|script-<seed>>[:b<breadth>][:r<reads>]
		parts := strings.Split(strings.TrimPrefix(ev.Eng, "v1:"), ":")
		var pl planner.Manager = &Forced{parts[0]}
		if strings.HasPrefix(parts[0], "script-") {
			seed, _ := strconv.ParseInt(strings.TrimPrefix(parts[0], "script-"), 10, 64)
			rr := rand.New(rand.NewSource(seed))
			script := make([]int, 16)
			for i := range script {
				script[i] = rr.Intn(6)
			}
			pl = NewScripted(script)
		}
		lopts := []graph.LocalCheckerOption{graph.WithPlanner(pl)}
		var copts []commands.CheckQueryOption
		for _, p := range parts[1:] {
			n, _ := strconv.Atoi(p[1:])
			switch p[0] {
			case 'b':
				lopts = append(lopts, graph.WithResolveNodeBreadthLimit(uint32(n)))
			case 'r':
				copts = append(copts, commands.WithCheckCommandMaxConcurrentReads(uint32(n)))
			}
		}
		checker := graph.NewLocalChecker(lopts...)
		cmd := commands.NewCheckCommand(e.DS, checker, ts, copts...)
		var res *commands.CheckResult
		res, err = cmd.Execute(ctx, &commands.CheckCommandParams{StoreID: e.StoreID,
			TupleKey:         tuple.NewCheckRequestTupleKey(ev.O.String(), ev.R, ev.U.String()),
			ContextualTuples: CtxTuples(ev.Ctxt), Context: ev.Ctx.ToProto(), Consistency: consistency(ev.HC)})
		if res != nil {
			allowed = res.Allowed
		}
		checker.Close()
	case strings.HasPrefix(ev.Eng, "v1c:"):
		// default engine, forced strategy, query cache shared by the requests of the current case
		resolver, closer, berr := graph.NewOrderedCheckResolvers(
			graph.WithCachedCheckResolverOpts(true, graph.WithExistingCache(e.CaseCache()), graph.WithCacheTTL(time.Minute)),
			graph.WithLocalCheckerOpts(graph.WithPlanner(&Forced{strings.TrimPrefix(ev.Eng, "v1c:")}))).Build()
		if berr != nil {
			err = berr
			break
		}
		cmd := commands.NewCheckCommand(e.DS, resolver, ts)
		var res *commands.CheckResult
		res, err = cmd.Execute(ctx, &commands.CheckCommandParams{StoreID: e.StoreID,
			TupleKey:         tuple.NewCheckRequestTupleKey(ev.O.String(), ev.R, ev.U.String()),
			ContextualTuples: CtxTuples(ev.Ctxt), Context: ev.Ctx.ToProto(), Consistency: consistency(ev.HC)})
		if res != nil {
			allowed = res.Allowed
		}
		closer()
	case strings.HasPrefix(ev.Eng, "v2c:"):
		if mg == nil {
			err = fmt.Errorf("no model graph")
			break
		}
		q := commands.NewCheckQuery(commands.WithCheckQueryV2Datastore(e.DS), commands.WithCheckQueryV2Model(mg),
			commands.WithCheckQueryV2Planner(&Forced{strings.TrimPrefix(ev.Eng, "v2c:")}), commands.WithCheckQueryV2ConcurrencyLimit(10),
			commands.WithCheckQueryV2UpstreamTimeout(3*time.Second), commands.WithCheckQueryV2Cache(e.CaseCache()),
			commands.WithCheckQueryV2QueryCacheEnabled(true), commands.WithCheckQueryV2QueryCacheTTL(time.Minute))
		var res *commands.CheckResult
		res, err = q.Execute(ctx, &commands.CheckCommandParams{StoreID: e.StoreID,
			TupleKey:         tuple.NewCheckRequestTupleKey(ev.O.String(), ev.R, ev.U.String()),
			ContextualTuples: CtxTuples(ev.Ctxt), Context: ev.Ctx.ToProto(), Consistency: consistency(ev.HC)})
		if res != nil {
			allowed = res.Allowed
		}
	case strings.HasPrefix(ev.Eng, "v2:"):
		if mg == nil {
			err = fmt.Errorf("no model graph")
			break
		}
		q := commands.NewCheckQuery(commands.WithCheckQueryV2Datastore(e.DS), commands.WithCheckQueryV2Model(mg),
			commands.WithCheckQueryV2Planner(&Forced{strings.TrimPrefix(ev.Eng, "v2:")}), commands.WithCheckQueryV2ConcurrencyLimit(10),
			commands.WithCheckQueryV2UpstreamTimeout(3*time.Second))
		var res *commands.CheckResult
		// the weighted-graph Check has been seen to spawn resolver goroutines without bound (25 000 goroutines,
		// 47 GB after six minutes, KF-28); a caller without a deadline gets one here, and a request that runs
		// into it is recorded with its full input instead of taking the driver down.
		rctx, rcancel := context.WithTimeout(ctx, V2RunawayLimit)
		done := make(chan struct{})
		var res2 *commands.CheckResult
		var err2 error
		go func() {
			defer close(done)
			res2, err2 = q.Execute(rctx, &commands.CheckCommandParams{StoreID: e.StoreID,
				TupleKey:         tuple.NewCheckRequestTupleKey(ev.O.String(), ev.R, ev.U.String()),
				ContextualTuples: CtxTuples(ev.Ctxt), Context: ev.Ctx.ToProto(), Consistency: consistency(ev.HC)})
		}()
		ranAway := false
		select {
		case <-done:
			res, err = res2, err2
			ranAway = rctx.Err() == context.DeadlineExceeded && ctx.Err() == nil
		case <-time.After(V2RunawayLimit + 5*time.Second):
			// the call ignores its cancelled context as well (observed: seven minutes inside ResolveUnionEdges
			// after the 20 s deadline): its goroutines cannot be stopped, the driver must wind up
			ranAway = true
			V2RanAway.Store(true)
		}
		rcancel()
		if res != nil {
			allowed = res.Allowed
		}
		if ranAway {
			if err == nil {
				err = context.DeadlineExceeded
			}
			ev.Got, ev.Errk, ev.Err = "ERR", "runaway", fmt.Sprintf("no answer within %s", V2RunawayLimit)
			recordRunaway(ev)
			return
		}
	default:
		err = fmt.Errorf("unknown engine %q", ev.Eng)
	}
	ev.Got = Got(allowed, err)
	ev.Errk = ErrKind(err)
	if err != nil {
		ev.Err = err.Error()
	}
}

// ---------------------------------------------------------------- ListObjects / ListUsers / Expand

func (e *Env) RunListObjects(ctx context.Context, ev *ListObjectsEv) {
	ev.E = "ListObjects"
	ev.IsErr, ev.Errk, ev.Err = false, "", ""
	ev.Ctx = normCtx(ev.Ctx)
	ev.Ctxt = normTuples(ev.Ctxt)
	var resp *openfgav1.ListObjectsResponse
	var err error
	if !Watchdog(HangLimit, func() {
		resp, err = e.S.ListObjects(ctx, &openfgav1.ListObjectsRequest{StoreId: e.StoreID, AuthorizationModelId: e.ModelID,
			Type: ev.T, Relation: ev.R, User: ev.U.String(), ContextualTuples: CtxTuples(ev.Ctxt), Context: ev.Ctx.ToProto(),
			Consistency: consistency(ev.HC)})
	}) {
		ev.Got = []string{}
		ev.IsErr, ev.Errk, ev.Err = true, "hang", fmt.Sprintf("ListObjects did not return within %s", HangLimit)
		return
	}
	ev.Got = []string{}
	if err != nil {
		ev.IsErr, ev.Errk, ev.Err = true, ErrKind(err), err.Error()
		return
	}
	for _, o := range resp.GetObjects() {
		ev.Got = append(ev.Got, ParseObj(o).ID)
	}
}

func (e *Env) RunListUsers(ctx context.Context, ev *ListUsersEv) {
	ev.E = "ListUsers"
	ev.IsErr, ev.Errk, ev.Err = false, "", ""
	ev.Ctx = normCtx(ev.Ctx)
	ev.Ctxt = normTuples(ev.Ctxt)
	var ctxt []*openfgav1.TupleKey
	for _, t := range ev.Ctxt {
		ctxt = append(ctxt, t.ToProto())
	}
	resp, err := e.S.ListUsers(ctx, &openfgav1.ListUsersRequest{StoreId: e.StoreID, AuthorizationModelId: e.ModelID,
		Object: &openfgav1.Object{Type: ev.O.T, Id: ev.O.ID}, Relation: ev.R,
		UserFilters:      []*openfgav1.UserTypeFilter{{Type: ev.FT, Relation: ev.FRel}},
		ContextualTuples: ctxt, Context: ev.Ctx.ToProto(), Consistency: consistency(ev.HC)})
	ev.Got = []Subj{}
	if err != nil {
		ev.IsErr, ev.Errk, ev.Err = true, ErrKind(err), err.Error()
		return
	}
	for _, u := range resp.GetUsers() {
		ev.Got = append(ev.Got, ParseSubj(tuple.UserProtoToString(u)))
	}
}

func treeFromProto(n *openfgav1.UsersetTree_Node) *Tree {
	if n == nil {
		return nil
	}
	oref := func(s string) ORef {
		o, r := tuple.SplitObjectRelation(s)
		return ORef{ParseObj(o), r}
	}
	t := &Tree{Name: oref(n.GetName())}
	switch v := n.GetValue().(type) {
	case *openfgav1.UsersetTree_Node_Leaf:
		switch lv := v.Leaf.GetValue().(type) {
		case *openfgav1.UsersetTree_Leaf_Users:
			t.K = "users"
			users := []Subj{}
			t.Users = &users
			us := lv.Users.GetUsers()
			t.Sorted = sort.StringsAreSorted(us)
			for _, u := range us {
				users = append(users, ParseSubj(u))
			}
		case *openfgav1.UsersetTree_Leaf_Computed:
			t.K = "computed"
			r := oref(lv.Computed.GetUserset())
			t.Target = &r
		case *openfgav1.UsersetTree_Leaf_TupleToUserset:
			t.K = "ttu"
			r := oref(lv.TupleToUserset.GetTupleset())
			t.TS = &r
			comp := []ORef{}
			t.Computed = &comp
			for _, c := range lv.TupleToUserset.GetComputed() {
				comp = append(comp, oref(c.GetUserset()))
			}
		}
	case *openfgav1.UsersetTree_Node_Union:
		t.K = "union"
		for _, c := range v.Union.GetNodes() {
			t.Ch = append(t.Ch, treeFromProto(c))
		}
	case *openfgav1.UsersetTree_Node_Intersection:
		t.K = "inter"
		for _, c := range v.Intersection.GetNodes() {
			t.Ch = append(t.Ch, treeFromProto(c))
		}
	case *openfgav1.UsersetTree_Node_Difference:
		t.K = "diff"
		t.Base = treeFromProto(v.Difference.GetBase())
		t.Sub = treeFromProto(v.Difference.GetSubtract())
	}
	return t
}

func (e *Env) RunExpand(ctx context.Context, ev *ExpandEv) {
	ev.E = "Expand"
	ev.IsErr, ev.Err = false, ""
	ev.Ctxt = normTuples(ev.Ctxt)
	resp, err := e.S.Expand(ctx, &openfgav1.ExpandRequest{StoreId: e.StoreID, AuthorizationModelId: e.ModelID,
		TupleKey: &openfgav1.ExpandRequestTupleKey{Object: ev.O.String(), Relation: ev.R}, ContextualTuples: CtxTuples(ev.Ctxt)})
	if err != nil {
		ev.IsErr, ev.Err = true, err.Error()
		ev.Got = &Tree{K: "none"}
		return
	}
	ev.Got = treeFromProto(resp.GetTree().GetRoot())
}

// LastModelGraphErr is the error of the most recent failed modelgraph.New.
var LastModelGraphErr string

// Typesystem builds the validated typesystem of the model as stored (with id).
func (e *Env) Typesystem(ctx context.Context, m *Model) (*typesystem.TypeSystem, *modelgraph.AuthorizationModelGraph, error) {
	pm := m.ToProto()
	pm.Id = e.ModelID
	ts, err := typesystem.NewAndValidate(ctx, pm)
	if err != nil {
		return nil, nil, err
	}
	mg, mgErr := modelgraph.New(pm)
	if mgErr != nil {
		LastModelGraphErr = mgErr.Error()
		mg = nil
	}
	return ts, mg, nil
}

var _ = time.Second
