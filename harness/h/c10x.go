package h

import (
	"context"
	"fmt"

	openfgav1 "github.com/openfga/api/proto/openfga/v1"
)

// batchHC issues one BatchCheck with the HIGHER_CONSISTENCY preference for reqs and renders every
// item as a Check event of engine <combo>:batchHC (C10: the preference applies to every item).
func batchHC(ctx context.Context, env *Env, combo string, reqs []Req) []*CheckEv {
	req := &openfgav1.BatchCheckRequest{StoreId: env.StoreID, AuthorizationModelId: env.ModelID, Consistency: openfgav1.ConsistencyPreference_HIGHER_CONSISTENCY}
	for i, q := range reqs {
		req.Checks = append(req.Checks, &openfgav1.BatchCheckItem{CorrelationId: fmt.Sprintf("i%d", i),
			TupleKey: &openfgav1.CheckRequestTupleKey{Object: q.O.String(), Relation: q.R, User: q.U.String()}, Context: normCtx(q.Ctx).ToProto()})
	}
	resp, err := env.S.BatchCheck(ctx, req)
	var out []*CheckEv
	for i, q := range reqs {
		ev := &CheckEv{E: "Check", Eng: combo + ":batchHC", O: q.O, R: q.R, U: q.U, Ctx: normCtx(q.Ctx), Ctxt: []Tuple{}, HC: true}
		res, ok := resp.GetResult()[fmt.Sprintf("i%d", i)]
		switch {
		case err != nil:
			ev.Got, ev.Errk, ev.Err = "ERR", ErrKind(err), err.Error()
		case !ok:
			ev.Got, ev.Errk = "ERR", "missing"
		case res.GetError() != nil:
			ev.Got, ev.Err, ev.Errk = "ERR", res.GetError().GetMessage(), batchErrKind(res.GetError())
		case res.GetAllowed():
			ev.Got = "T"
		default:
			ev.Got = "F"
		}
		out = append(out, ev)
	}
	return out
}
