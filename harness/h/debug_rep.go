package h

import (
	"context"
	"encoding/json"
	"fmt"
)

// DebugRepeat asks the Check of a replay file n times on each of several variants and prints the answer histogram.
func DebugRepeat(run *Run) {
	rf := LoadReplay(run.Replay)
	var ev CheckEv
	json.Unmarshal(rf.Event, &ev)
	ctx := context.Background()
	v := NewVariants()
	defer v.Close()
	if err := v.Base.Setup(ctx, rf.Setup.Model, rf.Setup.Tuples); err != nil {
		panic(err)
	}
	ts, mg, _ := v.Base.Typesystem(ctx, rf.Setup.Model)
	for _, eng := range []string{"server", "server:shi", "server:ic", "v1:default", "v1:weight2", "v1:recursive", "server:r1", "server:shi:r1"} {
		hist := map[string]int{}
		for i := 0; i < 200; i++ {
			e := ev
			e.Eng = eng
			if eng[:2] == "v1" {
				v.Base.RunCheck(ctx, &e, ts, mg)
			} else {
				v.Get(eng).RunCheck(ctx, &e, ts, mg)
			}
			hist[e.Got]++
		}
		fmt.Printf("%-16s %v\n", eng, hist)
	}
}
