package h

import (
	"bufio"
	"context"
	"encoding/json"
	"fmt"
	"math"
	"math/rand"
	"os"
	"os/exec"
	"runtime"
	"strconv"
	"strings"
	"time"

	openfgav1 "github.com/openfga/api/proto/openfga/v1"
	"google.golang.org/grpc/codes"
	"google.golang.org/grpc/status"
	"google.golang.org/protobuf/types/known/structpb"

	"github.com/openfga/openfga/pkg/server"
	"github.com/openfga/openfga/pkg/storage/memory"
)

type hostileEv struct {
	E            string `json:"e"`
	Kind         string `json:"kind"`
	Outcome      string `json:"outcome"`
	Wall         int    `json:"wall"`
	Deadline     int    `json:"deadline"`
	Slack        int    `json:"slack"`
	HeapGrowth   int    `json:"heapgrowth"`
	PipelineCond bool   `json:"pipelinecond"`
	Detail       string `json:"detail"`
	N            int    `json:"n"`
	Req          string `json:"req"`
	HostileStore bool   `json:"hostilestore"` // a tuple with malformed fields has been put into the store behind the API's back
}

var hostileStrings = []string{"", " ", ":", "#", "@", "*", "a:", ":a", "a:b:c", "a#b#c", "a:b#", "a:*#r", "doc:1#viewer@x", "\x00", "a\x00b", "\n", "‮", "😀:😀", "%s%n", "../../etc", "doc:" + strings.Repeat("x", 300),
	strings.Repeat("a", 5000), "doc:1 ", " doc:1", "DOC:1", "doc:\t1", "user:*", "*", "doc:1#", "#viewer", "doc:1##viewer"}

func nestedValue(depth int, wide bool) *structpb.Value {
	v := structpb.NewStringValue("x")
	for i := 0; i < depth; i++ {
		if i%2 == 0 {
			v = structpb.NewListValue(&structpb.ListValue{Values: []*structpb.Value{v}})
		} else {
			v = structpb.NewStructValue(&structpb.Struct{Fields: map[string]*structpb.Value{"k": v}})
		}
	}
	if wide {
		l := &structpb.ListValue{}
		for i := 0; i < 20000; i++ {
			l.Values = append(l.Values, structpb.NewNumberValue(float64(i)))
		}
		return structpb.NewListValue(l)
	}
	return v
}

func nestedRewrite(depth int, kind int) *openfgav1.Userset {
	u := &openfgav1.Userset{Userset: &openfgav1.Userset_This{}}
	for i := 0; i < depth; i++ {
		switch (kind + i) % 3 {
		case 0:
			u = &openfgav1.Userset{Userset: &openfgav1.Userset_Union{Union: &openfgav1.Usersets{Child: []*openfgav1.Userset{u, {Userset: &openfgav1.Userset_ComputedUserset{ComputedUserset: &openfgav1.ObjectRelation{Relation: "viewer"}}}}}}}
		case 1:
			u = &openfgav1.Userset{Userset: &openfgav1.Userset_Intersection{Intersection: &openfgav1.Usersets{Child: []*openfgav1.Userset{u, {Userset: &openfgav1.Userset_This{}}}}}}
		default:
			u = &openfgav1.Userset{Userset: &openfgav1.Userset_Difference{Difference: &openfgav1.Difference{Base: u, Subtract: &openfgav1.Userset{Userset: &openfgav1.Userset_This{}}}}}
		}
	}
	return u
}

// HostileChild is the body of the child process: it issues n hostile requests and journals each one.
func HostileChild() {
	seed, _ := strconv.ParseInt(os.Args[2], 10, 64)
	n, _ := strconv.Atoi(os.Args[3])
	j, err := os.OpenFile(os.Args[4], os.O_CREATE|os.O_WRONLY|os.O_APPEND, 0o644)
	if err != nil {
		os.Exit(3)
	}
	w := bufio.NewWriter(j)
	say := func(prefix string, v any) {
		b, _ := json.Marshal(v)
		w.WriteString(prefix + " " + string(b) + "\n")
		w.Flush()
		j.Sync()
	}
	r := rand.New(rand.NewSource(seed))
	bg := context.Background()
	ds := memory.New()
	srv := server.MustNewServerWithOpts(server.WithDatastore(ds), server.WithExperimentals("pipeline_list_objects"))
	plain := server.MustNewServerWithOpts(server.WithDatastore(ds))
	// a sane store to aim requests at
	cs, _ := GenCase(r, 0, GenOpts{ForceShapes: true})
	env := &Env{DS: ds, S: plain}
	if err := env.Setup(bg, cs.Model, cs.Tuples); err != nil {
		os.Exit(3)
	}
	const deadline = 5000
	pick := func() string { return hostileStrings[r.Intn(len(hostileStrings))] }
	okStr := func(s string) string {
		if r.Intn(3) == 0 {
			return pick()
		}
		return s
	}
	hostileStored := false
	for i := 0; i < n; i++ {
		ev := &hostileEv{E: "Hostile", Deadline: deadline, Slack: 2000, N: i}
		ctx, cancel := context.WithTimeout(bg, deadline*time.Millisecond)
		var call func() error
		s := srv
		if r.Intn(2) == 0 {
			s = plain
		}
		var hctx *structpb.Struct
		switch r.Intn(5) {
		case 0:
			hctx = &structpb.Struct{Fields: map[string]*structpb.Value{"x": nestedValue(10+r.Intn(3000), false)}}
		case 1:
			hctx = &structpb.Struct{Fields: map[string]*structpb.Value{pick(): structpb.NewStringValue(pick()), "s": nestedValue(0, true)}}
		case 2:
			hctx = &structpb.Struct{Fields: map[string]*structpb.Value{"x": structpb.NewNumberValue(math.Inf(1)), "y": structpb.NewNullValue(), "s": structpb.NewStringValue(pick())}}
		}
		var ctxt *openfgav1.ContextualTupleKeys
		if r.Intn(3) == 0 {
			ctxt = &openfgav1.ContextualTupleKeys{}
			for k := 0; k < 1+r.Intn(3); k++ {
				tk := &openfgav1.TupleKey{Object: okStr("doc:1"), Relation: okStr("viewer"), User: okStr("user:a")}
				if r.Intn(3) == 0 {
					tk.Condition = &openfgav1.RelationshipCondition{Name: okStr("c1"), Context: hctx}
				}
				ctxt.TupleKeys = append(ctxt.TupleKeys, tk)
			}
		}
		switch k := r.Intn(9); k {
		case 0:
			ev.Kind = "Check"
			call = func() error {
				req := &openfgav1.CheckRequest{StoreId: env.StoreID, TupleKey: &openfgav1.CheckRequestTupleKey{Object: okStr("doc:1"), Relation: okStr("viewer"), User: okStr("user:a")}, Context: hctx, ContextualTuples: ctxt}
				ev.Req = reqStr(req.GetTupleKey(), req.GetContextualTuples())
				_, err := s.Check(ctx, req)
				return err
			}
		case 1:
			ev.Kind = "ListObjects"
			call = func() error {
				req := &openfgav1.ListObjectsRequest{StoreId: env.StoreID, Type: okStr("doc"), Relation: okStr("viewer"), User: okStr("user:a"), Context: hctx, ContextualTuples: ctxt}
				ev.Req = reqStr(map[string]string{"type": req.GetType(), "relation": req.GetRelation(), "user": req.GetUser()}, req.GetContextualTuples())
				_, err := s.ListObjects(ctx, req)
				return err
			}
		case 2:
			ev.Kind = "ListUsers"
			call = func() error {
				_, err := s.ListUsers(ctx, &openfgav1.ListUsersRequest{StoreId: env.StoreID, Object: &openfgav1.Object{Type: okStr("doc"), Id: okStr("1")}, Relation: okStr("viewer"),
					UserFilters: []*openfgav1.UserTypeFilter{{Type: okStr("user"), Relation: []string{"", "", "member", pick()}[r.Intn(4)]}}, Context: hctx})
				return err
			}
		case 3:
			ev.Kind = "Expand"
			call = func() error {
				_, err := s.Expand(ctx, &openfgav1.ExpandRequest{StoreId: env.StoreID, TupleKey: &openfgav1.ExpandRequestTupleKey{Object: okStr("doc:1"), Relation: okStr("viewer")}, ContextualTuples: ctxt})
				return err
			}
		case 4:
			ev.Kind = "Write"
			call = func() error {
				tk := &openfgav1.TupleKey{Object: okStr("doc:9"), Relation: okStr("viewer"), User: okStr("user:a")}
				if r.Intn(2) == 0 {
					tk.Condition = &openfgav1.RelationshipCondition{Name: okStr("c1"), Context: hctx}
				}
				_, err := s.Write(ctx, &openfgav1.WriteRequest{StoreId: env.StoreID, Writes: &openfgav1.WriteRequestWrites{TupleKeys: []*openfgav1.TupleKey{tk}}})
				return err
			}
		case 5, 6:
			ev.Kind = "WriteAuthorizationModel+queries"
			call = func() error {
				depth := []int{1, 5, 24, 25, 26, 60, 400}[r.Intn(7)]
				rels := map[string]*openfgav1.Userset{"viewer": nestedRewrite(depth, r.Intn(3)), "parent": {Userset: &openfgav1.Userset_This{}}}
				meta := &openfgav1.Metadata{Relations: map[string]*openfgav1.RelationMetadata{
					"viewer": {DirectlyRelatedUserTypes: []*openfgav1.RelationReference{{Type: okStr("user")}, {Type: "doc", RelationOrWildcard: &openfgav1.RelationReference_Relation{Relation: okStr("viewer")}}}},
					"parent": {DirectlyRelatedUserTypes: []*openfgav1.RelationReference{{Type: "doc"}}}}}
				if r.Intn(4) == 0 {
					rels["viewer"] = &openfgav1.Userset{Userset: &openfgav1.Userset_TupleToUserset{TupleToUserset: &openfgav1.TupleToUserset{Tupleset: &openfgav1.ObjectRelation{Relation: okStr("parent")}, ComputedUserset: &openfgav1.ObjectRelation{Relation: okStr("viewer")}}}}
				}
				if r.Intn(5) == 0 {
					meta = nil
				}
				st, err := s.CreateStore(ctx, &openfgav1.CreateStoreRequest{Name: "h" + strconv.Itoa(i)})
				if err != nil {
					return err
				}
				_, err = s.WriteAuthorizationModel(ctx, &openfgav1.WriteAuthorizationModelRequest{StoreId: st.GetId(), SchemaVersion: []string{"1.1", "1.1", "1.0", "9.9", pick()}[r.Intn(5)],
					TypeDefinitions: []*openfgav1.TypeDefinition{{Type: "user"}, {Type: okStr("doc"), Relations: rels, Metadata: meta}}})
				if err != nil {
					return err
				}
				// accepted: data with cycles, then every query
				_ = ds.Write(ctx, st.GetId(), nil, []*openfgav1.TupleKey{{Object: "doc:1", Relation: "viewer", User: "doc:2#viewer"}, {Object: "doc:2", Relation: "viewer", User: "doc:1#viewer"},
					{Object: "doc:1", Relation: "parent", User: "doc:1"}, {Object: "doc:2", Relation: "viewer", User: "user:a"}, {Object: pick(), Relation: pick(), User: pick()}})
				if _, err := s.Check(ctx, &openfgav1.CheckRequest{StoreId: st.GetId(), TupleKey: &openfgav1.CheckRequestTupleKey{Object: "doc:1", Relation: "viewer", User: "user:b"}}); err != nil {
					return err
				}
				if _, err := s.ListObjects(ctx, &openfgav1.ListObjectsRequest{StoreId: st.GetId(), Type: "doc", Relation: "viewer", User: "user:a"}); err != nil {
					return err
				}
				_, err = s.ListUsers(ctx, &openfgav1.ListUsersRequest{StoreId: st.GetId(), Object: &openfgav1.Object{Type: "doc", Id: "1"}, Relation: "viewer", UserFilters: []*openfgav1.UserTypeFilter{{Type: "user"}}})
				return err
			}
		case 7:
			ev.Kind = "stored hostile tuple + queries"
			call = func() error {
				tk := &openfgav1.TupleKey{Object: okStr("doc:1"), Relation: okStr("viewer"), User: okStr("user:a"),
					Condition: &openfgav1.RelationshipCondition{Name: okStr("c1"), Context: hctx}}
				if werr := ds.Write(ctx, env.StoreID, nil, []*openfgav1.TupleKey{tk}); werr == nil && (tk.GetObject() != "doc:1" || tk.GetRelation() != "viewer" || tk.GetUser() != "user:a") {
					hostileStored = true
				}
				ev.Req = reqStr(tk.GetObject(), tk.GetRelation(), tk.GetUser(), tk.GetCondition().GetName())
				if _, err := s.Check(ctx, &openfgav1.CheckRequest{StoreId: env.StoreID, TupleKey: &openfgav1.CheckRequestTupleKey{Object: "doc:1", Relation: "viewer", User: "user:a"}}); err != nil {
					return err
				}
				if _, err := s.Read(ctx, &openfgav1.ReadRequest{StoreId: env.StoreID}); err != nil {
					return err
				}
				_, err := s.ListObjects(ctx, &openfgav1.ListObjectsRequest{StoreId: env.StoreID, Type: "doc", Relation: "viewer", User: "user:a"})
				return err
			}
		default:
			ev.Kind = "BatchCheck"
			call = func() error {
				req := &openfgav1.BatchCheckRequest{StoreId: env.StoreID}
				for k := 0; k < 1+r.Intn(4); k++ {
					req.Checks = append(req.Checks, &openfgav1.BatchCheckItem{CorrelationId: okStr("id" + strconv.Itoa(k)), TupleKey: &openfgav1.CheckRequestTupleKey{Object: okStr("doc:1"), Relation: okStr("viewer"), User: okStr("user:a")}, Context: hctx})
				}
				_, err := s.BatchCheck(ctx, req)
				return err
			}
		}
		say("START", ev)
		var ms0, ms1 runtime.MemStats
		runtime.ReadMemStats(&ms0)
		start := time.Now()
		var cerr error
		panicked := ""
		returned := Watchdog(deadline*time.Millisecond+4*time.Second, func() {
			defer func() {
				if p := recover(); p != nil {
					panicked = fmt.Sprint(p)
				}
			}()
			cerr = call()
		})
		cancel()
		ev.Wall = int(time.Since(start) / time.Millisecond)
		runtime.GC()
		runtime.ReadMemStats(&ms1)
		if ms1.HeapAlloc > ms0.HeapAlloc {
			ev.HeapGrowth = int((ms1.HeapAlloc - ms0.HeapAlloc) >> 20)
		}
		switch {
		case !returned:
			ev.Outcome = "hang"
			ev.PipelineCond = s == srv && (strings.Contains(ev.Kind, "ListObjects") || strings.Contains(ev.Kind, "queries"))
		case panicked != "":
			ev.Outcome, ev.Detail = "panic", panicked
		case cerr == nil:
			ev.Outcome = "ok"
		default:
			ev.Detail = cerr.Error()
			if len(ev.Detail) > 300 {
				ev.Detail = ev.Detail[:300]
			}
			st, _ := status.FromError(cerr)
			switch {
			case st.Code() == codes.Code(openfgav1.InternalErrorCode_internal_error) || st.Code() == codes.Internal || st.Code() == codes.Unknown:
				ev.Outcome = "internal"
				ev.PipelineCond = s == srv && (strings.Contains(ev.Kind, "ListObjects") || strings.Contains(ev.Kind, "queries"))
			default:
				ev.Outcome = "rejected"
			}
		}
		ev.HostileStore = hostileStored
		say("DONE", ev)
	}
	say("END", map[string]any{})
	os.Exit(0)
}

func C19(run *Run) {
	self, err := os.Executable()
	if err != nil {
		run.Inconclusive("cannot find own executable: %v", err)
	}
	batches, per := run.Pick(4, 30), run.Pick(250, 500)
	var events []any
	for b := 0; b < batches; b++ {
		journal := Scratch("hostile") + "/journal"
		cmd := exec.Command(self, "hostile-child", strconv.FormatInt(run.Seed*1000+int64(b), 10), strconv.Itoa(per), journal)
		var stderr strings.Builder
		cmd.Stderr = &stderr
		cmd.Stdout = &stderr
		done := make(chan error, 1)
		go func() { done <- cmd.Run() }()
		var cerr error
		select {
		case cerr = <-done:
		case <-time.After(20 * time.Minute):
			cmd.Process.Kill()
			cerr = fmt.Errorf("batch timed out")
		}
		data, _ := os.ReadFile(journal)
		var last *hostileEv
		ended := false
		for _, line := range strings.Split(string(data), "\n") {
			switch {
			case strings.HasPrefix(line, "START "):
				var ev hostileEv
				json.Unmarshal([]byte(line[6:]), &ev)
				last = &ev
			case strings.HasPrefix(line, "DONE "):
				var ev hostileEv
				json.Unmarshal([]byte(line[5:]), &ev)
				events = append(events, &ev)
				run.Evals++
				run.Nontrivial(fmt.Sprintf("%d/%d/%s", b, ev.N, ev.Kind))
				last = nil
			case strings.HasPrefix(line, "END"):
				ended = true
			}
		}
		if !ended {
			if last == nil {
				run.Inconclusive("hostile child ended without a journal entry: %v\n%s", cerr, tailStr(stderr.String(), 2000))
			}
			last.Outcome, last.Detail = "died", fmt.Sprintf("%v: %s", cerr, tailStr(stderr.String(), 1500))
			events = append(events, last)
			run.Evals++
		}
		os.RemoveAll(journal)
	}
	run.AddSample(events[0])
	sum := validatePure(run, "HostileTrace", events, 4)
	_ = sum
	run.Coverage["rule"] = "a real server (default and pipeline ListObjects) in a child process receives hostile payloads: object / relation / user / type / id / correlation-id strings from a catalogue of malformed and adversarial strings (empty, separators, NUL, control and bidi characters, format verbs, 5000-byte names, typed wildcards in every position), request and tuple contexts nested up to 3000 levels, 20000-element lists, infinities and nulls, malformed contextual tuples, models with rewrites nested 1-400 levels, missing metadata, unknown schema versions and dangling references followed by queries over cyclic data, and stored tuples with hostile fields and contexts followed by Check / Read / ListObjects; every request is journalled before it is issued, so a process death is attributed to it; TLC (HostileTrace.tla) requires: no process death, no panic, no hang past deadline + slack, bounded heap growth, and a normal answer or a non-internal error"
	run.Assumptions = []string{"the generator mutates well-typed protobuf messages at the string / nesting level (no wire-level fuzzing)", "heap growth measured after a forced GC"}
}

func tailStr(s string, n int) string {
	if len(s) > n {
		return s[len(s)-n:]
	}
	return s
}

func reqStr(parts ...any) string {
	b, _ := json.Marshal(parts)
	if len(b) > 700 {
		b = b[:700]
	}
	return string(b)
}
