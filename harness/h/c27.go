package h

import (
	"context"
	"crypto/rand"
	"crypto/rsa"
	"crypto/x509"
	"encoding/base64"
	"encoding/json"
	"math/big"
	"net"
	"net/http"
	"strings"
	"time"

	"github.com/golang-jwt/jwt/v5"
	"google.golang.org/grpc/metadata"

	"github.com/openfga/openfga/internal/authn/oidc"
	"github.com/openfga/openfga/internal/authn/presharedkey"
)

func jwksServer(pub *rsa.PublicKey) (url string, stop func(), err error) {
	ln, err := net.Listen("tcp", "127.0.0.1:0")
	if err != nil {
		return "", nil, err
	}
	url = "http://" + ln.Addr().String()
	mux := http.NewServeMux()
	mux.HandleFunc("/.well-known/openid-configuration", func(w http.ResponseWriter, r *http.Request) {
		json.NewEncoder(w).Encode(map[string]string{"issuer": url, "jwks_uri": url + "/jwks.json"})
	})
	mux.HandleFunc("/jwks.json", func(w http.ResponseWriter, r *http.Request) {
		json.NewEncoder(w).Encode(map[string]any{"keys": []map[string]string{{"kid": "1", "kty": "RSA",
			"n": base64.RawURLEncoding.EncodeToString(pub.N.Bytes()), "e": base64.RawURLEncoding.EncodeToString(big.NewInt(int64(pub.E)).Bytes())}}})
	})
	srv := &http.Server{Handler: mux}
	go srv.Serve(ln)
	return url, func() { srv.Close() }, nil
}

func bearerCtx(tok string) context.Context {
	return metadata.NewIncomingContext(context.Background(), metadata.Pairs("authorization", "Bearer "+tok))
}

func C27(run *Run) {
	var events []any
	// ---- preshared keys
	keys := []string{"key-One-12345", "second_KEY"}
	pk, err := presharedkey.NewPresharedKeyAuthenticator(keys)
	if err != nil {
		run.Inconclusive("preshared: %v", err)
	}
	type cand struct{ tok, rel string }
	var cands []cand
	for _, k := range keys {
		cands = append(cands, cand{k, "equal"}, cand{k[:len(k)-1], "prefix"}, cand{k + "x", "extended"}, cand{strings.ToUpper(k), "case"}, cand{strings.ToLower(k), "case"},
			cand{" " + k, "space"}, cand{k + " ", "space"}, cand{k[1:], "suffix"})
	}
	cands = append(cands, cand{"", "empty"}, cand{"other", "other"}, cand{keys[0] + keys[1], "concatenated"}, cand{keys[0] + "," + keys[1], "joined"})
	for _, c := range cands {
		_, err := pk.Authenticate(bearerCtx(c.tok))
		ev := map[string]any{"e": "Preshared", "rel": c.rel, "accepted": err == nil, "token": c.tok}
		if c.rel == "case" && (c.tok == keys[0] || c.tok == keys[1]) {
			ev["rel"] = "equal"
		}
		events = append(events, ev)
		run.Evals++
		run.Nontrivial("psk:" + c.tok)
	}
	// a key list with a repeated entry (merged key sources during a rotation)
	if pkd, err := presharedkey.NewPresharedKeyAuthenticator([]string{keys[0], keys[1], keys[0]}); err == nil {
		for _, c := range cands {
			_, aerr := pkd.Authenticate(bearerCtx(c.tok))
			rel := c.rel
			if c.tok == keys[0] || c.tok == keys[1] {
				rel = "equal"
			}
			events = append(events, map[string]any{"e": "Preshared", "rel": rel, "accepted": aerr == nil, "token": c.tok, "keys": "repeated entry"})
			run.Evals++
		}
	}
	_, errNoHeader := pk.Authenticate(context.Background())
	events = append(events, map[string]any{"e": "Preshared", "rel": "no header", "accepted": errNoHeader == nil, "token": ""})
	// ---- OIDC
	good, err := rsa.GenerateKey(rand.Reader, 2048)
	if err != nil {
		run.Inconclusive("rsa: %v", err)
	}
	other, _ := rsa.GenerateKey(rand.Reader, 2048)
	issuer, stop, err := jwksServer(&good.PublicKey)
	if err != nil {
		run.Inconclusive("jwks server: %v", err)
	}
	defer stop()
	alias := "http://alias.example"
	mk := func(subjects []string) *oidc.RemoteOidcAuthenticator {
		a, err := oidc.NewRemoteOidcAuthenticator(issuer, []string{alias}, "my-audience", subjects, nil)
		if err != nil {
			run.Inconclusive("oidc authenticator: %v", err)
		}
		return a
	}
	auths := map[bool]*oidc.RemoteOidcAuthenticator{false: mk(nil), true: mk([]string{"alice", "bob"})}
	defer auths[false].Close()
	defer auths[true].Close()
	pubDER := x509.MarshalPKCS1PublicKey(&good.PublicKey)
	now := time.Now()
	for _, alg := range []string{"RS256", "RS384", "HS256", "none"} {
		for _, key := range []string{"jwks", "other"} {
			if (alg == "HS256" || alg == "none") && key == "other" {
				continue
			}
			for _, exp := range []string{"absent", "past", "future"} {
				for _, iat := range []string{"absent", "past", "future"} {
					for _, aud := range []string{"match", "other", "list", "absent"} {
						for _, iss := range []string{"main", "alias", "other", "absent"} {
							for _, sub := range []string{"allowed", "other", "absent"} {
								claims := jwt.MapClaims{}
								switch exp {
								case "past":
									claims["exp"] = now.Add(-time.Hour).Unix()
								case "future":
									claims["exp"] = now.Add(time.Hour).Unix()
								}
								switch iat {
								case "past":
									claims["iat"] = now.Add(-time.Minute).Unix()
								case "future":
									claims["iat"] = now.Add(time.Hour / 2).Unix()
								}
								switch aud {
								case "match":
									claims["aud"] = "my-audience"
								case "other":
									claims["aud"] = "someone-else"
								case "list":
									claims["aud"] = []string{"someone-else", "my-audience"}
								}
								switch iss {
								case "main":
									claims["iss"] = issuer
								case "alias":
									claims["iss"] = alias
								case "other":
									claims["iss"] = "http://evil.example"
								}
								switch sub {
								case "allowed":
									claims["sub"] = "alice"
								case "other":
									claims["sub"] = "mallory"
								}
								var tok string
								var serr error
								switch alg {
								case "RS256", "RS384":
									m := jwt.SigningMethodRS256
									if alg == "RS384" {
										m = jwt.SigningMethodRS384
									}
									t := jwt.NewWithClaims(m, claims)
									t.Header["kid"] = "1"
									k := good
									if key == "other" {
										k = other
									}
									tok, serr = t.SignedString(k)
								case "HS256": // algorithm confusion: HMAC with the public key bytes as secret
									t := jwt.NewWithClaims(jwt.SigningMethodHS256, claims)
									t.Header["kid"] = "1"
									tok, serr = t.SignedString(pubDER)
								case "none":
									t := jwt.NewWithClaims(jwt.SigningMethodNone, claims)
									t.Header["kid"] = "1"
									tok, serr = t.SignedString(jwt.UnsafeAllowNoneSignatureType)
								}
								if serr != nil {
									run.Inconclusive("cannot mint token: %v", serr)
								}
								for _, subjects := range []bool{false, true} {
									_, err := auths[subjects].Authenticate(bearerCtx(tok))
									events = append(events, map[string]any{"e": "Oidc", "alg": alg, "key": key, "exp": exp, "iat": iat, "aud": aud, "iss": iss, "sub": sub,
										"subjects": subjects, "accepted": err == nil})
									run.Evals++
								}
								run.Nontrivial("oidc:" + alg + key + exp + iat + aud + iss + sub)
							}
						}
					}
				}
			}
		}
	}
	run.AddSample(events[0])
	run.AddSample(events[len(events)-1])
	validatePure(run, "AuthnTrace", events, 8)
	run.Coverage["exhaustive"] = true
	run.Coverage["rule"] = "pre-shared keys: every configured key plus prefixes, suffixes, extensions, case changes, padding, concatenations, empty and missing header; OIDC: the full product alg{RS256,RS384,HS256 signed with the public key,none} x signing key{in JWKS,other} x exp{absent,past,future} x iat{absent,past,future} x aud{match,other,list containing it,absent} x iss{main,alias,other,absent} x sub{allowed,other,absent} x subjects configured or not, minted with real RSA keys against a local JWKS endpoint; the real authenticators' verdicts are judged by TLC against AuthnTrace.tla (decision table); non-trivial = distinct credentials"
	run.Assumptions = []string{"RSA/JWT parsing is exercised, not modelled; the spec is the decision table over token attributes", "clock skew: past = 1 h/1 min ago, future = 30-60 min ahead"}
}
