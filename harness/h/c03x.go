package h

// Scripted cases for C03: the documented "alias_userset" breaking-change shape, enumerated over
// what the alias chain ends in.  The target relation accepts doc#a1 (a1: e0) or doc#a2 (a2: a1,
// a1: e0); e0 is directly assignable, a union, an exclusion or an intersection.  Requests ask for
// every relation on the chain as a userset subject: v1 follows the alias from the stored tuple,
// v2 does not, and the difference has to be reported by the detector whatever e0's rewrite is.
type scriptedCase struct {
	cs   *Case
	reqs []Req
}

func v2AliasCases() []scriptedCase {
	this := &Rewrite{K: "this"}
	ends := []*Rewrite{
		this,
		{K: "union", Ch: []*Rewrite{this, {K: "computed", Rel: "x"}}},
		{K: "diff", Base: this, Sub: &Rewrite{K: "computed", Rel: "x"}},
		{K: "inter", Ch: []*Rewrite{this, {K: "computed", Rel: "y"}}},
	}
	var out []scriptedCase
	for i, end := range ends {
		m := &Model{
			Types: []string{"user", "doc"},
			Conds: []CondDef{},
			Rels: []RelDef{
				{T: "doc", R: "x", Rw: this, Restr: []Restr{{T: "user"}}},
				{T: "doc", R: "y", Rw: this, Restr: []Restr{{T: "user"}}},
				{T: "doc", R: "e0", Rw: end, Restr: []Restr{{T: "user"}}},
				{T: "doc", R: "a1", Rw: &Rewrite{K: "computed", Rel: "e0"}, Restr: []Restr{}},
				{T: "doc", R: "a2", Rw: &Rewrite{K: "computed", Rel: "a1"}, Restr: []Restr{}},
				{T: "doc", R: "owner1", Rw: this, Restr: []Restr{{T: "doc", Rel: "a1"}, {T: "user"}}},
				{T: "doc", R: "owner2", Rw: this, Restr: []Restr{{T: "doc", Rel: "a2"}}},
			},
		}
		tuples := []Tuple{
			tp("doc:2", "owner1", "doc:1#a1"), tp("doc:2", "owner2", "doc:1#a2"),
			tp("doc:1", "e0", "user:a"), tp("doc:1", "y", "user:a"), tp("doc:1", "x", "user:b"), tp("doc:1", "e0", "user:b"),
		}
		var reqs []Req
		for _, rel := range []string{"owner1", "owner2"} {
			for _, u := range []string{"doc:1#e0", "doc:1#a1", "doc:1#a2", "doc:1#x", "doc:2#e0", "user:a", "user:b"} {
				reqs = append(reqs, Req{O: ParseObj("doc:2"), R: rel, U: ParseSubj(u), Ctx: Ctx{}})
			}
		}
		out = append(out, scriptedCase{&Case{N: 900000 + i, Model: m, Tuples: tuples}, reqs})
	}
	return out
}

// Scripted cases for C04 (and the weighted-graph engines in it): a contextual tuple and a stored
// tuple in the same (user, relation, object type) bucket, with the contextual object id sorting
// before, after or equal to the stored one, and the linking tuples stored or contextual.  Engines
// that merge the two sources (sorted merge in the bottom-up strategies, the contextual index of the
// weighted-graph resolver) must treat every order alike.
type splitCase struct {
	cs           *Case
	stored, ctxt []Tuple
	reqs         []Req
}

func contextualOrderCases() []splitCase {
	this := &Rewrite{K: "this"}
	m := &Model{
		Types: []string{"user", "group", "folder", "doc"},
		Conds: []CondDef{},
		Rels: []RelDef{
			{T: "group", R: "member", Rw: this, Restr: []Restr{{T: "user"}}},
			{T: "folder", R: "viewer", Rw: this, Restr: []Restr{{T: "user"}}}, // weight-two edges only: the bottom-up strategies apply
			{T: "doc", R: "parent", Rw: this, Restr: []Restr{{T: "folder"}}},
			{T: "doc", R: "viewer", Rw: &Rewrite{K: "ttu", TS: "parent", Rel: "viewer"}, Restr: []Restr{}},
			{T: "doc", R: "editor", Rw: this, Restr: []Restr{{T: "group", Rel: "member"}}},
			{T: "doc", R: "owner", Rw: this, Restr: []Restr{{T: "user"}}},
		},
	}
	var out []splitCase
	n := 0
	for _, ord := range [][2]string{{"1", "2"}, {"2", "1"}, {"1", "1"}, {"10", "9"}} {
		for _, linksCtx := range []bool{false, true} {
			ci, si := ord[0], ord[1]
			ctxt := []Tuple{tp("folder:"+ci, "viewer", "user:a"), tp("group:"+ci, "member", "user:a"), tp("doc:"+ci, "owner", "user:a")}
			stored := []Tuple{tp("folder:"+si, "viewer", "user:a"), tp("group:"+si, "member", "user:a"), tp("doc:"+si, "owner", "user:a"),
				tp("folder:3", "viewer", "user:b"), tp("doc:3", "parent", "folder:3")}
			links := []Tuple{tp("doc:1", "parent", "folder:"+ci), tp("doc:2", "parent", "folder:"+si), tp("doc:1", "editor", "group:"+ci+"#member"), tp("doc:2", "editor", "group:"+si+"#member")}
			if linksCtx {
				ctxt = append(ctxt, links...)
			} else {
				stored = append(stored, links...)
			}
			var reqs []Req
			for _, o := range []string{"doc:1", "doc:2", "doc:3", "doc:" + ci, "doc:" + si} {
				for _, rel := range []string{"viewer", "editor", "owner"} {
					for _, u := range []string{"user:a", "user:b"} {
						reqs = append(reqs, Req{O: ParseObj(o), R: rel, U: ParseSubj(u), Ctx: Ctx{}})
					}
				}
			}
			all := append(append([]Tuple{}, stored...), ctxt...)
			out = append(out, splitCase{&Case{N: 910000 + n, Model: m, Tuples: all}, stored, ctxt, reqs})
			n++
		}
	}
	return out
}

// Scripted cases for C01 / C02: a recursive relation that also admits usersets of ANOTHER relation
// whose members are of a different subject type (so that relation has no path to the request's user
// type).  Strategies that follow usersets "by object" must not mistake such a userset for the
// recursive one.  (Found by a sub-agent probing the unmodified code: the recursive strategy granted
// group:1#member@user:anne through group:1#member@group:2#owner and group:2#member@user:anne.)
func recursiveOtherUsersetCases() []scriptedCase {
	this := &Rewrite{K: "this"}
	var out []scriptedCase
	for i, ownerRestr := range [][]Restr{{{T: "employee"}}, {{T: "employee"}, {T: "employee", WC: true}}} {
		m := &Model{Types: []string{"user", "employee", "group", "folder"}, Conds: []CondDef{}, Rels: []RelDef{
			{T: "group", R: "owner", Rw: this, Restr: ownerRestr},
			{T: "group", R: "member", Rw: this, Restr: []Restr{{T: "user"}, {T: "group", Rel: "member"}, {T: "group", Rel: "owner"}}},
			{T: "folder", R: "owner", Rw: this, Restr: ownerRestr},
			{T: "folder", R: "parent", Rw: this, Restr: []Restr{{T: "folder"}}},
			{T: "folder", R: "viewer", Rw: &Rewrite{K: "union", Ch: []*Rewrite{this, {K: "ttu", TS: "parent", Rel: "viewer"}}}, Restr: []Restr{{T: "user"}, {T: "folder", Rel: "owner"}}},
		}}
		ts := []Tuple{
			tp("group:1", "member", "group:2#owner"), tp("group:2", "member", "user:anne"), tp("group:2", "owner", "employee:e1"),
			tp("group:3", "member", "group:2#member"), tp("group:2", "member", "group:4#member"), tp("group:4", "member", "user:bob"),
			tp("group:5", "member", "group:4#owner"),
			tp("folder:1", "viewer", "folder:2#owner"), tp("folder:2", "viewer", "user:anne"), tp("folder:3", "parent", "folder:2"), tp("folder:4", "parent", "folder:1"),
		}
		var reqs []Req
		for _, o := range []string{"group:1", "group:2", "group:3", "group:5"} {
			for _, u := range []string{"user:anne", "user:bob", "employee:e1"} {
				reqs = append(reqs, Req{O: ParseObj(o), R: "member", U: ParseSubj(u), Ctx: Ctx{}})
			}
		}
		for _, o := range []string{"folder:1", "folder:2", "folder:3", "folder:4"} {
			for _, u := range []string{"user:anne", "user:bob"} {
				reqs = append(reqs, Req{O: ParseObj(o), R: "viewer", U: ParseSubj(u), Ctx: Ctx{}})
			}
		}
		out = append(out, scriptedCase{&Case{N: 920000 + i, Model: m, Tuples: ts}, reqs})
	}
	return out
}
