package h

// Scripted cases for C03: the documented "alias_userset" breaking-change shape, enumerated over
// what the alias chain ends in.  The target relation accepts doc#a1 (a1: e0) or doc#a2 (a2: a1,
// a1: e0); e0 is directly assignable, a union, an exclusion or an intersection.  Requests ask for
// every relation on the chain as a userset subject: v1 follows the alias from the stored tuple,
// v2 does not, and the difference has to be reported by the detector whatever e0's rewrite is.
type scriptedCase struct {
	cs   *Case
	reqs []Req
}

func v2AliasCases() []scriptedCase {
	this := &Rewrite{K: "this"}
	ends := []*Rewrite{
		this,
		{K: "union", Ch: []*Rewrite{this, {K: "computed", Rel: "x"}}},
		{K: "diff", Base: this, Sub: &Rewrite{K: "computed", Rel: "x"}},
		{K: "inter", Ch: []*Rewrite{this, {K: "computed", Rel: "y"}}},
	}
	var out []scriptedCase
	for i, end := range ends {
		m := &Model{
			Types: []string{"user", "doc"},
			Conds: []CondDef{},
			Rels: []RelDef{
				{T: "doc", R: "x", Rw: this, Restr: []Restr{{T: "user"}}},
				{T: "doc", R: "y", Rw: this, Restr: []Restr{{T: "user"}}},
				{T: "doc", R: "e0", Rw: end, Restr: []Restr{{T: "user"}}},
				{T: "doc", R: "a1", Rw: &Rewrite{K: "computed", Rel: "e0"}, Restr: []Restr{}},
				{T: "doc", R: "a2", Rw: &Rewrite{K: "computed", Rel: "a1"}, Restr: []Restr{}},
				{T: "doc", R: "owner1", Rw: this, Restr: []Restr{{T: "doc", Rel: "a1"}, {T: "user"}}},
				{T: "doc", R: "owner2", Rw: this, Restr: []Restr{{T: "doc", Rel: "a2"}}},
			},
		}
		tuples := []Tuple{
			tp("doc:2", "owner1", "doc:1#a1"), tp("doc:2", "owner2", "doc:1#a2"),
			tp("doc:1", "e0", "user:a"), tp("doc:1", "y", "user:a"), tp("doc:1", "x", "user:b"), tp("doc:1", "e0", "user:b"),
		}
		var reqs []Req
		for _, rel := range []string{"owner1", "owner2"} {
			for _, u := range []string{"doc:1#e0", "doc:1#a1", "doc:1#a2", "doc:1#x", "doc:2#e0", "user:a", "user:b"} {
				reqs = append(reqs, Req{O: ParseObj("doc:2"), R: rel, U: ParseSubj(u), Ctx: Ctx{}})
			}
		}
		out = append(out, scriptedCase{&Case{N: 900000 + i, Model: m, Tuples: tuples}, reqs})
	}
	return out
}
