package h

import (
	"context"
	"encoding/json"
	"errors"
	"fmt"

	openfgav1 "github.com/openfga/api/proto/openfga/v1"

	"github.com/openfga/openfga/internal/graph"
	"github.com/openfga/openfga/pkg/featureflags"
	"github.com/openfga/openfga/pkg/server/commands"
	"github.com/openfga/openfga/pkg/typesystem"
)

// DebugLO re-runs the ListObjects event of a replay file directly through
// commands.ListObjectsQuery and prints the raw (unmapped) error.
func DebugLO(run *Run) {
	ctx := context.Background()
	rf := LoadReplay(run.Replay)
	env := NewEnv(nil)
	defer env.Close()
	if err := env.Setup(ctx, rf.Setup.Model, rf.Setup.Tuples); err != nil {
		panic(err)
	}
	ts, _, err := env.Typesystem(ctx, rf.Setup.Model)
	if err != nil {
		panic(err)
	}
	var ev ListObjectsEv
	json.Unmarshal(rf.Event, &ev)
	checker := graph.NewLocalChecker()
	defer checker.Close()
	var exps []string
	switch ev.Eng[:4] {
	case "weig":
		exps = []string{"enable-list-objects-optimizations"}
	case "pipe":
		exps = []string{"pipeline_list_objects"}
	}
	q, err := commands.NewListObjectsQuery(env.DS, checker, env.StoreID,
		commands.WithFeatureFlagClient(featureflags.NewDefaultClient(exps)),
		commands.WithListObjectsPipelineEnabled(ev.Eng[:4] == "pipe"))
	if err != nil {
		panic(err)
	}
	resp, err := q.Execute(typesystem.ContextWithTypesystem(ctx, ts), &openfgav1.ListObjectsRequest{StoreId: env.StoreID, AuthorizationModelId: env.ModelID,
		Type: ev.T, Relation: ev.R, User: ev.U.String(), ContextualTuples: CtxTuples(ev.Ctxt), Context: ev.Ctx.ToProto()})
	fmt.Printf("raw result: %v\nraw error: %v\n", resp, err)
	for e := errors.Unwrap(err); e != nil; e = errors.Unwrap(e) {
		fmt.Printf("  caused by: %v\n", e)
	}
}
