package h

import (
	"context"
	"fmt"
	"math/rand"
	"sync"
	"time"

	openfgav1 "github.com/openfga/api/proto/openfga/v1"

	"github.com/openfga/openfga/pkg/storage"
)

// slowModelDS delays the latest-model lookup so that lookups of different stores overlap.
type slowModelDS struct {
	storage.OpenFGADatastore
	delay time.Duration
}

func (d *slowModelDS) FindLatestAuthorizationModel(ctx context.Context, store string) (*openfgav1.AuthorizationModel, error) {
	time.Sleep(d.delay)
	return d.OpenFGADatastore.FindLatestAuthorizationModel(ctx, store)
}

// Close is a no-op: the servers created per iteration must not close the shared datastore.
func (d *slowModelDS) Close() {}

// crossStoreProbe: two stores whose models disagree about the same tuples; concurrent model-less Checks
// on both, Checks with the store's own model id and with the other store's model id.
func crossStoreProbe(run *Run) {
	ctx := context.Background()
	r := rand.New(rand.NewSource(run.Seed + 16))
	var events []any
	cuts := map[int]bool{}
	tuples := []Tuple{tp("doc:1", "viewer", "user:a"), tp("doc:1", "editor", "user:b")}
	for _, backend := range []string{"memory", "sqlite"} {
		se, err := NewStoreEnv(backend)
		if err != nil {
			run.Inconclusive("backend %s: %v", backend, err)
		}
		for it := 0; it < run.Pick(25, 250); it++ {
			// a fresh server per iteration: the typesystem resolver memoises per server
			env := NewEnv(&slowModelDS{OpenFGADatastore: se.DS, delay: time.Duration(1+r.Intn(4)) * time.Millisecond})
			ma, mb := modelVariant(1), modelVariant(0) // a: viewer is directly assignable only; b: viewer = [..] or editor or viewer from parent
			type st struct {
				sid, mid string
				m        *Model
			}
			var ss [2]st
			for i, m := range []*Model{ma, mb} {
				s, err := env.S.CreateStore(ctx, &openfgav1.CreateStoreRequest{Name: "same-name"})
				if err != nil {
					run.Inconclusive("create store: %v", err)
				}
				pm := m.ToProto()
				wm, err := env.S.WriteAuthorizationModel(ctx, &openfgav1.WriteAuthorizationModelRequest{StoreId: s.GetId(), SchemaVersion: pm.GetSchemaVersion(), TypeDefinitions: pm.GetTypeDefinitions(), Conditions: pm.GetConditions()})
				if err != nil {
					run.Inconclusive("write model: %v", err)
				}
				var tks []*openfgav1.TupleKey
				for _, t := range tuples {
					tks = append(tks, t.ToProto())
				}
				if err := se.DS.Write(ctx, s.GetId(), nil, tks); err != nil {
					run.Inconclusive("write tuples: %v", err)
				}
				ss[i] = st{s.GetId(), wm.GetAuthorizationModelId(), m}
			}
			cuts[len(events)] = true
			events = append(events, map[string]any{"e": "Stores", "a": map[string]any{"model": ma, "tuples": normTuples(tuples)}, "b": map[string]any{"model": mb, "tuples": normTuples(tuples)}})
			check := func(i int, mode, mid string, u string) map[string]any {
				req := &openfgav1.CheckRequest{StoreId: ss[i].sid, AuthorizationModelId: mid,
					TupleKey: &openfgav1.CheckRequestTupleKey{Object: "doc:1", Relation: "viewer", User: u}}
				resp, err := env.S.Check(ctx, req)
				got := Got(resp.GetAllowed(), err)
				ev := map[string]any{"e": "XCheck", "store": []string{"a", "b"}[i], "mode": mode, "backend": backend, "o": Obj{"doc", "1"}, "r": "viewer", "u": ParseSubj(u), "ctx": Ctx{}, "got": got}
				if err != nil {
					ev["errmsg"] = err.Error()
				}
				return ev
			}
			// both stores resolve their latest model at the same moment
			var wg sync.WaitGroup
			out := make([]map[string]any, 2)
			order := r.Perm(2)
			lag := time.Duration(r.Intn(900)) * time.Microsecond
			for k, i := range order {
				wg.Add(1)
				go func(k, i int) {
					defer wg.Done()
					time.Sleep(time.Duration(k) * lag)
					out[i] = check(i, "latest", "", "user:b")
				}(k, i)
			}
			wg.Wait()
			events = append(events, out[0], out[1])
			for i := range ss {
				events = append(events, check(i, "own", ss[i].mid, "user:b"), check(i, "foreign", ss[1-i].mid, "user:b"), check(i, "latest", "", "user:a"))
			}
			run.Evals += 8
			run.Nontrivial(fmt.Sprintf("xstore %s %d", backend, it))
			env.Close()
		}
		se.Close()
	}
	sum, err := ValidateTrace(CoreSpecDirs(), "CrossStoreTrace", events, 8, func(i int) bool { return cuts[i] }, 20*time.Minute)
	if err != nil {
		run.Inconclusive("CrossStoreTrace validation failed: %v", err)
	}
	for _, b := range sum.Bad {
		run.Classified(b.Cls, map[string]any{"prop": run.Prop, "class": b.Cls, "event": events[b.L], "ref": b.Ref}, fmt.Sprintf("%s ref=%s %s", b.Note, b.Ref, jsonOf(events[b.L])))
	}
	run.Coverage["cross_store_checks_judged"] = sum.Judged
	run.Coverage["cross_store_classes"] = sum.Counts
}
