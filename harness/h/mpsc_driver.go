package h

import (
	"bytes"
	"context"
	"encoding/json"
	"fmt"
	"math/rand"
	"os"
	"sort"
	"strings"
	"time"

	"github.com/openfga/openfga/internal/containers/mpsc"
)

type aState struct {
	Chain     []qItem `json:"chain"`
	EndLinked bool    `json:"endLinked"`
	HeadNil   bool    `json:"headNil"`
	Closed    bool    `json:"closed"`
	Sig       int     `json:"sig"`
}

type aStep struct {
	E       string  `json:"e"`
	P       string  `json:"p"`
	L       string  `json:"l"`
	Blocked bool    `json:"blocked"`
	St      *aState `json:"st"`
	OK      bool    `json:"ok"`
	Ret     *qItem  `json:"ret,omitempty"`
}

func asnap(a *mpsc.Accumulator[qItem]) *aState {
	s := a.VerifSnapshot()
	st := &aState{Chain: s.Chain, EndLinked: s.EndLinked, HeadNil: s.HeadNil, Closed: s.Closed, Sig: s.SignalTokens}
	if st.Chain == nil {
		st.Chain = []qItem{}
	}
	return st
}

// runAccSchedule executes one random gated schedule of the MPSC accumulator:
// producers send ItemsPer items each, the single consumer calls Recv RecvPer times,
// the closer calls Close once all producers have finished.
func runAccSchedule(cfg qCfg, r *rand.Rand) *qRun {
	acc := mpsc.NewAccumulator[qItem]()
	g := NewGate()
	g.Install()
	defer g.Uninstall()
	run := &qRun{Recv: map[string][]qItem{}, SentOK: map[string][]qItem{}, Closed: map[string]int{}}
	ctx := context.Background()
	lastOK := map[string]bool{}
	lastRet := map[string]*qItem{}
	for _, p := range cfg.Producers {
		p := p
		g.Go(p, func() {
			for k := 1; k <= cfg.ItemsPer; k++ {
				g.Yield("ALoop")
				it := qItem{P: p, K: k}
				ok := acc.Send(it)
				lastOK[p] = ok
				if ok {
					run.SentOK[p] = append(run.SentOK[p], it)
				}
			}
			g.Yield("ALoop")
		})
	}
	c := cfg.Consumers[0]
	g.Go(c, func() {
		for k := 0; k < cfg.RecvPer; k++ {
			g.Yield("BLoop")
			it, ok := acc.Recv(ctx)
			lastOK[c] = ok
			if ok {
				cp := it
				lastRet[c] = &cp
				run.Recv[c] = append(run.Recv[c], it)
			} else {
				run.Closed[c]++
			}
		}
		g.Yield("BLoop")
	})
	for _, x := range cfg.Closers {
		g.Go(x, func() {
			g.Yield("K_wait")
			acc.Close()
		})
	}
	n := len(cfg.Producers) + 1 + len(cfg.Closers)
	at := map[string]string{}
	finished := map[string]bool{}
	for i := 0; i < n; i++ {
		a, ok := g.Await(5 * time.Second)
		if !ok {
			run.Hang = "startup"
			return run
		}
		at[a.name] = a.label
	}
	parkedC := false
	doneClosed := false
	run.Events = append(run.Events, map[string]any{"e": "Reset", "cfg": cfg.Name})
	isProd := map[string]bool{}
	for _, p := range cfg.Producers {
		isProd[p] = true
	}
	for steps := 0; steps < 2000; steps++ {
		var en []string
		for name := range at {
			en = append(en, name) // the closer is enabled like everybody else: Close may fall between the steps of a Send
		}
		sort.Strings(en)
		if len(en) == 0 {
			break
		}
		w := en[r.Intn(len(en))]
		lab := at[w]
		before := asnap(acc)
		delete(at, w)
		if err := g.Release(w); err != nil {
			run.Hang = err.Error()
			break
		}
		step := &aStep{E: "Step", P: w, L: lab}
		willBlock := lab == "B_park" && before.Sig == 0 && !doneClosed
		if willBlock {
			if !g.WaitBlocked(w, 5*time.Second, "select") {
				run.Hang = fmt.Sprintf("%s released from %s neither blocked nor reached a scheduling point", w, lab)
				break
			}
			step.Blocked = true
			parkedC = true
		} else {
			a, ok := g.Await(5 * time.Second)
			if !ok {
				run.Hang = fmt.Sprintf("%s released from %s did not reach its next scheduling point", w, lab)
				step.St = asnap(acc)
				run.Events = append(run.Events, step)
				break
			}
			if a.name != w {
				run.Hang = fmt.Sprintf("unexpected arrival of %s while %s was running", a.name, w)
				break
			}
			if a.label == "" {
				finished[w] = true
			} else {
				at[w] = a.label
			}
		}
		step.St = asnap(acc)
		if lab == "K_cl" {
			doneClosed = true
		}
		if lab == "B_ret" || lab == "A_ret" {
			step.OK = lastOK[w]
			if lab == "B_ret" && step.OK {
				step.Ret = lastRet[w]
			}
		}
		run.Events = append(run.Events, step)
		if parkedC && ((lab == "A_sig" && before.Sig == 0) || lab == "K_cl") {
			a, ok := g.Await(5 * time.Second)
			if !ok {
				run.Hang = fmt.Sprintf("after %s by %s the blocked consumer should have been woken but did not arrive", lab, w)
				break
			}
			parkedC = false
			at[a.name] = a.label
			run.Events = append(run.Events, &aStep{E: "Step", P: a.name, L: "B_parked", St: asnap(acc)})
		}
	}
	run.Finished = len(finished) == n
	if !run.Finished && run.Hang == "" && parkedC {
		st := asnap(acc)
		if len(st.Chain) > 0 || st.EndLinked {
			run.Hang = "the consumer is blocked although an item (or the end sentinel) is linked and nobody is left to signal"
		}
	}
	run.Events = append(run.Events, map[string]any{"e": "RunEnd", "finished": run.Finished, "hang": run.Hang})
	if !run.Finished {
		acc.Close()
		g.Drain(2 * time.Second)
	}
	return run
}

func (c qCfg) tlcCfgMPSC() []byte {
	set := func(xs []string) string {
		var q []string
		for _, x := range xs {
			q = append(q, fmt.Sprintf("%q", x))
		}
		return "{" + strings.Join(q, ", ") + "}"
	}
	var b bytes.Buffer
	fmt.Fprintf(&b, "SPECIFICATION TSpec\nPOSTCONDITION TraceAccepted\nCHECK_DEADLOCK FALSE\nCONSTANTS\n")
	fmt.Fprintf(&b, "  Producers = %s\n  Consumer = %q\n  Closers = %s\n  ItemsPer = %d\n  RecvPer = %d\n", set(c.Producers), c.Consumers[0], set(c.Closers), c.ItemsPer, c.RecvPer)
	return b.Bytes()
}

// mpscPart: exhaustive MPSC.tla + gated random schedules of the real accumulator validated by MPSCTrace.
func mpscPart(run *Run, r *rand.Rand, classes map[string]int, traces *int) {
	out, err := TLCRun{SpecDirs: []string{QueueSpecDir()}, Module: "MPSC", Config: "MPSC_small.cfg", Workers: 8, HeapMB: 4000, Timeout: 10 * time.Minute}.Run()
	if err != nil || out.TimedOut || out.Violated != "" || !strings.Contains(out.Stdout, "No error has been found") {
		run.Inconclusive("design-level model MPSC_small.cfg did not pass: %v %s\n%s", err, out.Violated, tail(out))
	}
	run.Coverage["mpsc_states"] = out.Distinct
	for _, cfg := range []qCfg{
		{Name: "mpsc", Producers: []string{"p1", "p2"}, Consumers: []string{"c1"}, Closers: []string{"x1"}, ItemsPer: 2, RecvPer: 5},
		// no Close: the consumer must be woken for every item by the producers' signals alone
		{Name: "mpsc-noclose", Producers: []string{"p1", "p2"}, Consumers: []string{"c1"}, ItemsPer: 2, RecvPer: 4},
	} {
		mpscCfg(run, r, cfg, classes, traces)
	}
}

var abandonedMPSC int

func mpscCfg(run *Run, r *rand.Rand, cfg qCfg, classes map[string]int, traces *int) {
	var events []any
	var runs []*qRun
	n := run.Pick(150, 3000)
	for i := 0; i < n; i++ {
		var qr *qRun
		stuck := false
		for attempt := 0; attempt < 3; attempt++ {
			if !Watchdog(90*time.Second, func() { qr = runAccSchedule(cfg, r) }) {
				stuck = true
				break
			}
			// a scheduling point that was not reached within the harness' own wait limit is a timing
			// artefact of a loaded machine unless it repeats: run another schedule instead
			if qr.Hang == "" || !(strings.Contains(qr.Hang, "did not reach") || strings.Contains(qr.Hang, "neither blocked") ||
				strings.Contains(qr.Hang, "unexpected arrival") || strings.Contains(qr.Hang, "should have been woken")) {
				break
			}
		}
		if stuck {
			abandonedMPSC++
			if abandonedMPSC > 3 {
				run.Inconclusive("the gate scheduler got stuck %d times (last: config %s run %d)", abandonedMPSC, cfg.Name, i)
			}
			continue
		}
		runs = append(runs, qr)
		events = append(events, qr.Events...)
		run.Evals++
		*traces++
		run.Nontrivial(hashOf(qr.Events))
	}
	var buf bytes.Buffer
	enc := json.NewEncoder(&buf)
	for _, e := range events {
		enc.Encode(e)
	}
	fmt.Fprintln(&buf, `{"e":"End"}`)
	tout, err := TLCRun{SpecDirs: []string{QueueSpecDir()}, Module: "MPSCTrace", Config: "MPSCTrace_gen.cfg",
		Files: map[string][]byte{"trace.ndjson": buf.Bytes(), "MPSCTrace_gen.cfg": cfg.tlcCfgMPSC()}, Workers: 1, Timeout: 15 * time.Minute, HeapMB: 4000}.Run()
	if err != nil {
		run.Inconclusive("tlc: %v\n%s", err, tail(tout))
	}
	sum, err := parseTraceOut(tout, len(events)+1)
	if err != nil {
		run.Inconclusive("mpsc trace validation: %v", err)
	}
	for k, v := range sum.Counts {
		classes[cfg.Name+":"+k] += v
	}
	idx := 0
	bounds := []int{}
	for _, qr := range runs {
		bounds = append(bounds, idx)
		idx += len(qr.Events)
	}
	reported := map[int]bool{}
	for _, b := range sum.Bad {
		ri := 0
		for i, s := range bounds {
			if s <= b.L {
				ri = i
			}
		}
		qr := runs[ri]
		reported[ri] = true
		rep := map[string]any{"prop": "C22", "class": b.Cls, "config": cfg, "kind": "mpsc", "events": qr.Events, "ref": b.Ref, "hang": qr.Hang}
		if b.Cls == "DIVERGED" {
			if why := queueOutcomeViolation(cfg, qr); why != "" {
				run.Violation(rep, "real accumulator diverged from MPSC.tla at "+b.Ref+" and the run's outcome breaks the FIFO-channel contract: "+why)
			} else {
				run.divergences = append(run.divergences, fmt.Sprintf("mpsc run %d at %s", ri, b.Ref))
				if os.Getenv("VERIF_DEBUG") != "" {
					for i, e := range qr.Events {
						eb, _ := json.Marshal(e)
						fmt.Printf("DBG %d(%d) %s\n", i, i+bounds[ri], eb)
					}
				}
			}
			continue
		}
		run.Classified(b.Cls, rep, fmt.Sprintf("mpsc: %s %s", b.Ref, qr.Hang))
	}
	for ri, qr := range runs {
		if qr.Hang != "" && !reported[ri] {
			run.Violation(map[string]any{"prop": "C22", "class": "HANG", "kind": "mpsc", "config": cfg, "events": qr.Events, "hang": qr.Hang}, fmt.Sprintf("mpsc run %d: %s", ri, qr.Hang))
		}
	}
}
