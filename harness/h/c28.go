package h

import (
	"fmt"
	"math/rand"

	"github.com/openfga/openfga/pkg/encoder"
	"github.com/openfga/openfga/pkg/encrypter"
)

func mkEncoder(key string) encoder.Encoder {
	if key == "" {
		return encoder.NewBase64Encoder()
	}
	enc, err := encrypter.NewGCMEncrypter(key)
	if err != nil {
		panic(err)
	}
	return encoder.NewTokenEncoder(enc, encoder.NewBase64Encoder())
}

func C28(run *Run) {
	r := rand.New(rand.NewSource(run.Seed))
	ser := encoder.NewStringContinuationTokenSerializer()
	keys := []string{"", "key-one", "key-two"}
	encs := map[string]encoder.Encoder{}
	for _, k := range keys {
		encs[k] = mkEncoder(k)
	}
	var events []any
	nTok := run.Pick(30, 300)
	present := func(id int, key, tok, how string, mutated bool) {
		raw, err := encs[key].Decode(tok)
		ev := map[string]any{"e": "Present", "id": id, "key": key, "mutated": mutated, "how": how, "accepted": false, "ulid": "", "typ": ""}
		if err == nil {
			u, t, derr := ser.Deserialize(string(raw))
			if derr == nil {
				ev["accepted"], ev["ulid"], ev["typ"] = true, u, t
			} else if len(raw) == 0 && tok != "" {
				// a non-empty token that decodes to the empty payload is taken by the APIs as "no token":
				// the listing restarts from the beginning, i.e. the token is accepted for another position
				ev["accepted"] = true
			}
		}
		events = append(events, ev)
		run.Evals++
	}
	for id := 1; id <= nTok; id++ {
		ulid := fmt.Sprintf("01J%023d", r.Int63n(1<<40))
		typ := pick(r, []string{"", "doc", "folder", "group", "a|b", "日本"})
		key := keys[id%len(keys)]
		raw, err := ser.Serialize(ulid, typ)
		if err != nil {
			run.Inconclusive("serialize: %v", err)
		}
		tok, err := encs[key].Encode(raw)
		if err != nil {
			run.Inconclusive("encode: %v", err)
		}
		back, derr := encs[key].Decode(tok)
		u2, t2, serr := "", "", error(nil)
		if derr == nil {
			u2, t2, serr = ser.Deserialize(string(back))
		}
		events = append(events, map[string]any{"e": "Issue", "id": id, "key": key, "ulid": ulid, "typ": typ, "rt": derr == nil && serr == nil && u2 == ulid && t2 == typ, "token_len": len(tok)})
		run.Evals++
		run.Nontrivial(tok)
		present(id, key, tok, "genuine", false)
		// cross-key presentation
		for _, k2 := range keys {
			if k2 != key {
				present(id, k2, tok, "foreign key", true)
			}
		}
		b := []byte(tok)
		// every single-byte substitution (a few replacement bytes each), every truncation, some extensions
		for i := range b {
			for _, repl := range []byte{'A', 'B', b[i] ^ 1, '=', '_'} {
				if repl == b[i] {
					continue
				}
				m := append([]byte{}, b...)
				m[i] = repl
				present(id, key, string(m), fmt.Sprintf("substitute byte %d", i), true)
			}
		}
		for i := 0; i < len(b); i++ {
			present(id, key, string(b[:i]), fmt.Sprintf("truncate to %d", i), true)
		}
		for _, ext := range []string{"A", "AAAA", "=", tok} {
			present(id, key, tok+ext, "extend", true)
		}
		// splice two tokens issued under the same key
		if id > len(keys) {
			present(id, key, tok[:len(tok)/2]+tok[len(tok)/2:], "identity splice", false)
		}
	}
	run.AddSample(events[0])
	run.AddSample(events[5])
	validatePureCut(run, "TokenTrace", events, 8, func(i int) bool {
		m, ok := events[i].(map[string]any)
		return ok && m["e"] == "Issue"
	})
	run.Coverage["rule"] = "tokens issued by the real serializer + encoder (plain base64, and AES-GCM TokenEncoder under two different keys) for random positions and object types (incl. '|' and multi-byte); each token is presented genuine, under every other key, with every single byte substituted (4-5 replacement bytes), truncated at every length and extended; TokenTrace.tla requires: issued tokens round-trip; under a key, a presented token decodes to the position of the token it was derived from or is rejected, and is always rejected under another key; non-trivial = distinct issued tokens"
	run.Assumptions = []string{"the cipher is not modelled (TLA+ has nothing to say about AES-GCM); the spec is the set-membership abstraction and the evidence is exploration over byte-level mutations", "mutations of unkeyed (plain base64) tokens are only counted: without a key there is no integrity claim"}
}
