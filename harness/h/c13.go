package h

import (
	"context"
	"errors"
	"fmt"
	"math/rand"
	"sort"
	"time"

	openfgav1 "github.com/openfga/api/proto/openfga/v1"
	"google.golang.org/protobuf/proto"

	"github.com/openfga/openfga/pkg/storage"
	"github.com/openfga/openfga/pkg/tuple"
)

type rdObj struct {
	T  string `json:"t"`
	ID string `json:"id"`
}
type rdRestr struct {
	T   string `json:"t"`
	Rel string `json:"rel"`
	WC  bool   `json:"wc"`
}
type rdOIDs struct {
	Present bool     `json:"present"`
	IDs     []string `json:"ids"`
}
type rdFilter struct {
	Obj   rdObj     `json:"obj"`
	Rel   string    `json:"rel"`
	User  Subj      `json:"user"`
	Conds []string  `json:"conds"`
	Restr []rdRestr `json:"restr"`
	Users []Subj    `json:"users"`
	OIDs  rdOIDs    `json:"oids"`
}
type rdEv struct {
	E       string   `json:"e"`
	Backend string   `json:"backend"`
	Op      string   `json:"op"`
	F       rdFilter `json:"f"`
	Sorted  bool     `json:"sorted"`
	Got     []Tuple  `json:"got"`
	Err     string   `json:"err"`
	ErrMsg  string   `json:"errmsg,omitempty"`
}

func objStr(o rdObj) string {
	if o.T == "" {
		return ""
	}
	return o.T + ":" + o.ID
}
func subjStr(s Subj) string {
	if s.T == "" {
		return ""
	}
	out := s.T + ":" + s.ID
	if s.Rel != "" {
		out += "#" + s.Rel
	}
	return out
}

var c13Objects = []Obj{{"doc", "1"}, {"doc", "2"}, {"doc", "10"}, {"group", "1"}, {"group", "2"}}
var c13Rels = []string{"viewer", "member", "parent"}
var c13Users = []Subj{{"user", "1", ""}, {"user", "2", ""}, {"user", "*", ""}, {"group", "1", "member"}, {"group", "1", ""}, {"group", "2", "member"}, {"group", "1", "admin"}, {"group", "*", ""}, {"doc", "1", ""}, {"doc", "1", "viewer"},
	{"userx", "1", ""}, {"userx", "1", "member"}, {"use", "1", ""}} // types that are prefixes of one another
var c13Conds = []string{"", "c1", "c2"}

func c13Ctx(r *rand.Rand, c string) Ctx {
	if c == "" {
		return Ctx{}
	}
	switch r.Intn(4) {
	case 0:
		return Ctx{}
	case 1:
		return Ctx{"x": NumVal(int64(r.Intn(100)))}
	case 2:
		return Ctx{"s": StrVal([]string{"a", "", "é#:@ \n"}[r.Intn(3)]), "ok": BoolVal(r.Intn(2) == 0)}
	}
	return Ctx{"allowed": ListVal(StrVal("a"), StrVal("b")), "x": NumVal(-5)}
}

// drainTuples reads the iterator to its end; with peek it looks at every element through Head first
// (the element Head shows and the one Next then returns must be the same tuple; both are recorded if not).
func drainTuples(ctx context.Context, it storage.TupleIterator, peek bool) ([]Tuple, error) {
	defer it.Stop()
	out := []Tuple{}
	for {
		var h *openfgav1.Tuple
		if peek {
			var herr error
			h, herr = it.Head(ctx)
			if herr != nil {
				if errors.Is(herr, storage.ErrIteratorDone) {
					return out, nil
				}
				return out, herr
			}
			out = append(out, TupleFromProto(h.GetKey()).Norm())
		}
		t, err := it.Next(ctx)
		if peek && err == nil {
			if !proto.Equal(h.GetKey(), t.GetKey()) {
				out = append(out, TupleFromProto(t.GetKey()).Norm())
			}
			continue
		}
		if err != nil {
			if errors.Is(err, storage.ErrIteratorDone) {
				return out, nil
			}
			return out, err
		}
		out = append(out, TupleFromProto(t.GetKey()).Norm())
	}
}

func C13(run *Run) {
	ctx := context.Background()
	r := rand.New(rand.NewSource(run.Seed))
	envs := map[string]*StoreEnv{}
	for _, b := range []string{"memory", "sqlite"} {
		e, err := NewStoreEnv(b)
		if err != nil {
			run.Inconclusive("backend %s: %v", b, err)
		}
		defer e.Close()
		envs[b] = e
	}
	backends := []string{"memory", "sqlite"}
	idorder := []string{}
	{
		seen := map[string]bool{}
		for _, o := range c13Objects {
			if !seen[o.ID] {
				seen[o.ID] = true
				idorder = append(idorder, o.ID)
			}
		}
		sort.Strings(idorder)
	}
	var events []any
	cuts := map[int]bool{}
	histories := run.Pick(25, 300)
	for h := 0; h < histories; h++ {
		store := fmt.Sprintf("01HVERIFC13STORE%010d", h)
		state := map[string]Tuple{}
		// a history of write batches applied to every backend alike
		for w, nw := 0, 1+r.Intn(6); w < nw; w++ {
			var dels []*openfgav1.TupleKeyWithoutCondition
			var wrs []*openfgav1.TupleKey
			next := map[string]Tuple{}
			for k, v := range state {
				next[k] = v
			}
			used := map[string]bool{}
			for k := range state {
				if r.Intn(5) == 0 && !used[k] {
					used[k] = true
					dels = append(dels, tuple.TupleKeyToTupleKeyWithoutCondition(state[k].ToProto()))
					delete(next, k)
				}
			}
			for i, n := 0, r.Intn(9); i < n; i++ {
				c := c13Conds[r.Intn(len(c13Conds))]
				t := Tuple{O: c13Objects[r.Intn(len(c13Objects))], R: c13Rels[r.Intn(len(c13Rels))], U: c13Users[r.Intn(len(c13Users))], C: c, Cctx: c13Ctx(r, c)}
				if _, exists := next[t.Key()]; exists || used[t.Key()] {
					continue
				}
				used[t.Key()] = true
				next[t.Key()] = t
				wrs = append(wrs, t.ToProto())
			}
			if len(dels)+len(wrs) == 0 {
				continue
			}
			for _, b := range backends {
				if err := envs[b].DS.Write(ctx, store, dels, wrs); err != nil {
					run.Inconclusive("write history on %s: %v", b, err)
				}
			}
			state = next
		}
		st := []Tuple{}
		for _, t := range state {
			st = append(st, t.Norm())
		}
		sort.Slice(st, func(i, j int) bool { return st[i].Key() < st[j].Key() })
		cuts[len(events)] = true
		events = append(events, map[string]any{"e": "State", "tuples": st, "idorder": idorder})
		// ---- reads
		pickConds := func() []string {
			switch r.Intn(6) {
			case 0:
				return []string{""}
			case 1:
				return []string{"c1"}
			case 2:
				return []string{"c1", ""}
			case 3:
				return []string{"c2", "c2", "nope"}
			}
			return []string{}
		}
		issue := func(op string, f rdFilter, sorted bool) {
			if f.Conds == nil {
				f.Conds = []string{}
			}
			if f.Restr == nil {
				f.Restr = []rdRestr{}
			}
			if f.Users == nil {
				f.Users = []Subj{}
			}
			if f.OIDs.IDs == nil {
				f.OIDs.IDs = []string{}
			}
			peek := r.Intn(2) == 0
			emptyNonNil := r.Intn(2) == 0
			for _, b := range backends {
				ds := envs[b].DS
				ev := &rdEv{E: "Read", Backend: b, Op: op, F: f, Sorted: sorted, Got: []Tuple{}}
				var conds []string
				if len(f.Conds) > 0 {
					conds = f.Conds
				} else if emptyNonNil {
					conds = []string{} // an empty list is "no conditions filter", like nil
				}
				var err error
				switch op {
				case "Read":
					var it storage.TupleIterator
					it, err = ds.Read(ctx, store, storage.ReadFilter{Object: objStr(f.Obj), Relation: f.Rel, User: subjStr(f.User), Conditions: conds}, storage.ReadOptions{})
					if err == nil {
						ev.Got, err = drainTuples(ctx, it, peek)
					}
				case "ReadPage":
					from := ""
					for page := 0; page < 200; page++ {
						var ts []*openfgav1.Tuple
						ts, from, err = ds.ReadPage(ctx, store, storage.ReadFilter{Object: objStr(f.Obj), Relation: f.Rel, User: subjStr(f.User), Conditions: conds},
							storage.ReadPageOptions{Pagination: storage.NewPaginationOptions(int32(1+r.Intn(3)), from)})
						if err != nil {
							break
						}
						for _, t := range ts {
							ev.Got = append(ev.Got, TupleFromProto(t.GetKey()).Norm())
						}
						if from == "" {
							break
						}
					}
				case "ReadUserTuple":
					var t *openfgav1.Tuple
					t, err = ds.ReadUserTuple(ctx, store, storage.ReadUserTupleFilter{Object: objStr(f.Obj), Relation: f.Rel, User: subjStr(f.User), Conditions: conds}, storage.ReadUserTupleOptions{})
					if err == nil {
						ev.Got = append(ev.Got, TupleFromProto(t.GetKey()).Norm())
					}
				case "ReadUsersetTuples":
					var restr []*openfgav1.RelationReference
					for _, x := range f.Restr {
						switch {
						case x.WC:
							restr = append(restr, &openfgav1.RelationReference{Type: x.T, RelationOrWildcard: &openfgav1.RelationReference_Wildcard{Wildcard: &openfgav1.Wildcard{}}})
						case x.Rel != "":
							restr = append(restr, &openfgav1.RelationReference{Type: x.T, RelationOrWildcard: &openfgav1.RelationReference_Relation{Relation: x.Rel}})
						default:
							restr = append(restr, &openfgav1.RelationReference{Type: x.T})
						}
					}
					var it storage.TupleIterator
					it, err = ds.ReadUsersetTuples(ctx, store, storage.ReadUsersetTuplesFilter{Object: objStr(f.Obj), Relation: f.Rel, AllowedUserTypeRestrictions: restr, Conditions: conds}, storage.ReadUsersetTuplesOptions{})
					if err == nil {
						ev.Got, err = drainTuples(ctx, it, peek)
					}
				case "ReadStartingWithUser":
					var uf []*openfgav1.ObjectRelation
					for _, u := range f.Users {
						uf = append(uf, &openfgav1.ObjectRelation{Object: u.T + ":" + u.ID, Relation: u.Rel})
					}
					var oids storage.SortedSet
					if f.OIDs.Present {
						oids = storage.NewSortedSet()
						for _, id := range f.OIDs.IDs {
							oids.Add(id)
						}
					}
					var it storage.TupleIterator
					it, err = ds.ReadStartingWithUser(ctx, store, storage.ReadStartingWithUserFilter{ObjectType: f.Obj.T, Relation: f.Rel, UserFilter: uf, ObjectIDs: oids, Conditions: conds},
						storage.ReadStartingWithUserOptions{WithResultsSortedAscending: sorted})
					if err == nil {
						ev.Got, err = drainTuples(ctx, it, peek)
					}
				}
				if err != nil {
					ev.Err, ev.ErrMsg = "error", err.Error()
					if errors.Is(err, storage.ErrNotFound) {
						ev.Err = "notfound"
					}
				}
				events = append(events, ev)
				run.Evals++
			}
			run.Nontrivial(hashOf([]any{st, op, f, sorted}))
		}
		nReads := run.Pick(60, 120)
		for q := 0; q < nReads; q++ {
			o := c13Objects[r.Intn(len(c13Objects))]
			u := c13Users[r.Intn(len(c13Users))]
			rel := c13Rels[r.Intn(len(c13Rels))]
			switch r.Intn(5) {
			case 0, 1: // Read / ReadPage with every degree of specification
				f := rdFilter{Conds: pickConds()}
				switch r.Intn(4) {
				case 0:
					f.Obj = rdObj{o.T, o.ID}
				case 1:
					f.Obj = rdObj{o.T, ""}
				}
				if r.Intn(2) == 0 {
					f.Rel = rel
				}
				switch r.Intn(4) {
				case 0:
					f.User = u
				case 1:
					f.User = Subj{T: u.T}
				}
				if f.Obj.T == "" && f.User.T == "" { // "at least one of Object or User" unless everything is empty
					f.Rel = "" // (the Conditions filter still applies: "if present, it will be used to filter the results")
				}
				issue([]string{"Read", "ReadPage"}[r.Intn(2)], f, false)
			case 2:
				issue("ReadUserTuple", rdFilter{Obj: rdObj{o.T, o.ID}, Rel: rel, User: u, Conds: pickConds()}, false)
			case 3:
				f := rdFilter{Obj: rdObj{o.T, o.ID}, Rel: rel, Conds: pickConds()}
				pool := []rdRestr{{"group", "member", false}, {"group", "admin", false}, {"user", "", true}, {"group", "", true}, {"doc", "viewer", false}, {"user", "", false}, {"group", "", false}}
				for i, n := 0, r.Intn(4); i < n; i++ {
					f.Restr = append(f.Restr, pool[r.Intn(len(pool))])
				}
				if len(f.Restr) > 0 && r.Intn(3) == 0 {
					f.Restr = append(f.Restr, f.Restr[0]) // duplicate entry
				}
				issue("ReadUsersetTuples", f, false)
			case 4:
				f := rdFilter{Obj: rdObj{o.T, ""}, Rel: rel, Conds: pickConds()}
				for i, n := 0, 1+r.Intn(3); i < n; i++ {
					f.Users = append(f.Users, c13Users[r.Intn(len(c13Users))])
				}
				if r.Intn(3) == 0 {
					f.Users = append(f.Users, f.Users[0]) // duplicate entry
				}
				switch r.Intn(4) {
				case 0:
					f.OIDs = rdOIDs{Present: true, IDs: []string{}}
				case 1:
					f.OIDs = rdOIDs{Present: true, IDs: []string{o.ID}}
				case 2:
					f.OIDs = rdOIDs{Present: true, IDs: []string{"1", "10", "zz"}}
				}
				issue("ReadStartingWithUser", f, r.Intn(2) == 0)
			}
		}
		if h < 2 {
			run.AddSample(events[len(events)-1])
		}
	}
	sum, err := ValidateTrace(StoreSpecDirs(), "ReadTrace", events, 8, func(i int) bool { return cuts[i] }, 20*time.Minute)
	if err != nil {
		run.Inconclusive("ReadTrace validation failed: %v", err)
	}
	for _, b := range sum.Bad {
		run.Classified(b.Cls, map[string]any{"prop": run.Prop, "class": b.Cls, "event": events[b.L], "want": b.Ref}, fmt.Sprintf("%s %s want %s", b.Note, jsonOf(events[b.L]), b.Ref))
	}
	run.Coverage["judged_by_tlc"] = sum.Judged
	run.Coverage["verdict_classes"] = sum.Counts
	run.Coverage["traces_validated_against_impl"] = sum.Lines
	run.Coverage["histories"] = histories
	run.Coverage["rule"] = "random write histories (1-6 batches of deletes and writes over 5 objects x 3 relations x 10 subjects incl. wildcards, usersets and objects used as subjects, 3 condition names with empty / scalar / list / odd-character contexts) applied alike to the memory and sqlite datastores; then Read, ReadPage (page sizes 1-3), ReadUserTuple, ReadUsersetTuples and ReadStartingWithUser with every degree of filter specification, empty / duplicate / unknown entries in condition, restriction, user and object-id lists, present-but-empty object-id sets and the sorted option; TLC (ReadTrace.tla) compares each backend's answer as a multiset, with condition names and contexts, against the documented meaning of the filter"
	run.Assumptions = []string{"the stored state is tracked by the harness from the successful writes (deletes, then writes)", "postgres and mysql share sqlite's query construction but cannot run in this sandbox"}
}
