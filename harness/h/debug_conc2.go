package h

import (
	"context"
	"os"
	"time"

	"fmt"
	"github.com/oklog/ulid/v2"
	"sync"

	openfgav1 "github.com/openfga/api/proto/openfga/v1"

	"github.com/openfga/openfga/pkg/storage"
	"github.com/openfga/openfga/pkg/tuple"
)

// DebugConc2: concurrent datastore writes on the memory backend, then a page-size-1 walk of the
// changelog: tokens must increase and no entry may be delivered twice.
func DebugConc2(run *Run) {
	ctx := context.Background()
	se, _ := NewStoreEnv("memory")
	defer se.Close()
	st, _ := se.S.CreateStore(ctx, &openfgav1.CreateStoreRequest{Name: "x"})
	sid := st.GetId()
	var wg sync.WaitGroup
	stop := make(chan struct{})
	if os.Getenv("VERIF_DEBUG") == "ulid" { // somebody else in the process draws ULIDs stamped with other milliseconds from the shared entropy source
		go func() {
			for i := 0; ; i++ {
				select {
				case <-stop:
					return
				default:
					_ = ulid.MustNew(ulid.Timestamp(time.Now().Add(time.Duration(i%3)*time.Millisecond)), ulid.DefaultEntropy())
				}
			}
		}()
	}
	defer close(stop)
	for g := 0; g < 8; g++ {
		wg.Add(1)
		go func(g int) {
			defer wg.Done()
			for i := 0; i < 300; i++ {
				_ = se.DS.Write(ctx, sid, nil, []*openfgav1.TupleKey{tuple.NewTupleKey(fmt.Sprintf("doc:g%di%d", g, i), "viewer", "user:a")})
			}
		}(g)
	}
	wg.Wait()
	seen := map[string]int{}
	token, prev := "", ""
	n, dup, back := 0, 0, 0
	for {
		page, tok, err := se.DS.ReadChanges(ctx, sid, storage.ReadChangesFilter{}, storage.ReadChangesOptions{Pagination: storage.NewPaginationOptions(1, token)})
		if err != nil || len(page) == 0 {
			break
		}
		k := tuple.TupleKeyToString(page[0].GetTupleKey())
		seen[k]++
		if seen[k] > 1 {
			dup++
		}
		if prev != "" && tok <= prev {
			back++
		}
		prev, token = tok, tok
		n++
		if n > 10000 {
			break
		}
	}
	fmt.Printf("walk: %d entries delivered, %d distinct, %d duplicates, %d token regressions (2400 written)\n", n, len(seen), dup, back)
}
