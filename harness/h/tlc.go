package h

import (
	"bufio"
	"bytes"
	"context"
	"encoding/json"
	"fmt"
	"os"
	"os/exec"
	"path/filepath"
	"regexp"
	"strconv"
	"strings"
	"sync"
	"time"
)

const tlaCP = "/opt/veriftools/tla/tla2tools.jar:/opt/veriftools/tla/CommunityModules-deps.jar"

// VerifRoot is /verif (or the snapshot the binary runs from).
func VerifRoot() string {
	if v := os.Getenv("VERIF_ROOT"); v != "" {
		return v
	}
	return "/verif"
}

// Scratch returns a fresh scratch dir outside /repo and /verif.
func Scratch(prefix string) string {
	base := os.Getenv("VERIF_SCRATCH")
	if base == "" {
		base = os.TempDir()
	}
	d, err := os.MkdirTemp(base, "verif-"+prefix+"-")
	if err != nil {
		panic(err)
	}
	return d
}

type TLCOut struct {
	Stdout    string
	Generated int64 // states generated
	Distinct  int64
	Depth     int
	ExitCode  int
	Wall      time.Duration
	Printed   []string // values printed by PrintT carrying the VERIF marker, JSON decoded strings
	Violated  string   // name of a violated invariant / property / "deadlock" / ""
	TimedOut  bool
}

var (
	reStates   = regexp.MustCompile(`(\d+) states generated, (\d+) distinct states found`)
	reDepth    = regexp.MustCompile(`depth of the complete state graph search is (\d+)`)
	reInv      = regexp.MustCompile(`Invariant (\S+) is violated`)
	reProp     = regexp.MustCompile(`Temporal properties were violated|Action property (\S+) is violated`)
	reDeadlock = regexp.MustCompile(`Deadlock reached`)
)

type TLCRun struct {
	SpecDirs []string          // directories whose *.tla / *.cfg are copied
	Module   string            // root module (file Module.tla)
	Config   string            // cfg file name (in one of SpecDirs) or "" => Module.cfg
	Files    map[string][]byte // extra files (trace.ndjson …)
	Workers  int
	Args     []string // extra TLC args (-simulate …, -deadlock …)
	Timeout  time.Duration
	HeapMB   int
	JavaOpts []string
	KeepDir  string // if set, run there and keep
}

// Run executes TLC in a private scratch directory and parses its output.
func (r TLCRun) Run() (*TLCOut, error) {
	dir := r.KeepDir
	if dir == "" {
		dir = Scratch("tlc")
		defer os.RemoveAll(dir)
	} else {
		os.MkdirAll(dir, 0o755)
	}
	for _, sd := range r.SpecDirs {
		ents, err := os.ReadDir(sd)
		if err != nil {
			return nil, err
		}
		for _, e := range ents {
			if strings.HasSuffix(e.Name(), ".tla") || strings.HasSuffix(e.Name(), ".cfg") {
				b, err := os.ReadFile(filepath.Join(sd, e.Name()))
				if err != nil {
					return nil, err
				}
				if err := os.WriteFile(filepath.Join(dir, e.Name()), b, 0o644); err != nil {
					return nil, err
				}
			}
		}
	}
	for n, b := range r.Files {
		if err := os.WriteFile(filepath.Join(dir, n), b, 0o644); err != nil {
			return nil, err
		}
	}
	cfg := r.Config
	if cfg == "" {
		cfg = r.Module + ".cfg"
	}
	w := r.Workers
	if w <= 0 {
		w = 1
	}
	heap := r.HeapMB
	if heap <= 0 {
		heap = 3000
	}
	to := r.Timeout
	if to <= 0 {
		to = 10 * time.Minute
	}
	args := []string{"-XX:+UseParallelGC", fmt.Sprintf("-Xmx%dm", heap), "-Xss256m"}
	args = append(args, r.JavaOpts...)
	args = append(args, "-cp", tlaCP, "tlc2.TLC", "-workers", strconv.Itoa(w), "-metadir", filepath.Join(dir, "meta"),
		"-config", cfg)
	args = append(args, r.Args...)
	args = append(args, r.Module+".tla")
	ctx, cancel := context.WithTimeout(context.Background(), to)
	defer cancel()
	cmd := exec.CommandContext(ctx, "java", args...)
	cmd.Dir = dir
	var buf bytes.Buffer
	cmd.Stdout = &buf
	cmd.Stderr = &buf
	start := time.Now()
	err := cmd.Run()
	out := &TLCOut{Stdout: buf.String(), Wall: time.Since(start)}
	if ctx.Err() != nil {
		out.TimedOut = true
	}
	if ee, ok := err.(*exec.ExitError); ok {
		out.ExitCode = ee.ExitCode()
	} else if err != nil {
		return out, err
	}
	if m := reStates.FindAllStringSubmatch(out.Stdout, -1); len(m) > 0 {
		last := m[len(m)-1]
		out.Generated, _ = strconv.ParseInt(last[1], 10, 64)
		out.Distinct, _ = strconv.ParseInt(last[2], 10, 64)
	}
	if m := reDepth.FindStringSubmatch(out.Stdout); m != nil {
		out.Depth, _ = strconv.Atoi(m[1])
	}
	if m := reInv.FindStringSubmatch(out.Stdout); m != nil {
		out.Violated = m[1]
	} else if m := reProp.FindStringSubmatch(out.Stdout); m != nil {
		out.Violated = "temporal:" + m[1]
	} else if reDeadlock.MatchString(out.Stdout) {
		out.Violated = "deadlock"
	}
	out.Printed = extractPrinted(out.Stdout)
	return out, nil
}

// PrintT(<<"VERIF", tag, ToJson(x)>>) appears as  <<"VERIF", "tag", "json…">>  possibly wrapped over lines.
func extractPrinted(s string) []string {
	var out []string
	sc := bufio.NewScanner(strings.NewReader(s))
	sc.Buffer(make([]byte, 1<<20), 1<<30)
	var cur strings.Builder
	in := false
	for sc.Scan() {
		line := sc.Text()
		if !in && strings.HasPrefix(strings.TrimSpace(line), `<<"VERIF"`) {
			in = true
			cur.Reset()
		}
		if in {
			cur.WriteString(strings.TrimSpace(line))
			cur.WriteString(" ")
			if strings.HasSuffix(strings.TrimSpace(line), ">>") {
				in = false
				out = append(out, strings.TrimSpace(cur.String()))
			}
		}
	}
	return out
}

// ParsePrinted splits `<<"VERIF", "tag", "escaped json">>` into tag and decoded JSON text.
func ParsePrinted(p string) (tag string, js string, ok bool) {
	p = strings.TrimSpace(p)
	p = strings.TrimPrefix(p, "<<")
	p = strings.TrimSuffix(p, ">>")
	// three TLA+ strings separated by ", "
	parts := splitTLAStrings(p)
	if len(parts) != 3 || parts[0] != "VERIF" {
		return "", "", false
	}
	return parts[1], parts[2], true
}

func splitTLAStrings(s string) []string {
	var out []string
	i := 0
	for i < len(s) {
		if s[i] != '"' {
			i++
			continue
		}
		j := i + 1
		var sb strings.Builder
		for j < len(s) {
			if s[j] == '\\' && j+1 < len(s) {
				switch s[j+1] {
				case 'n':
					sb.WriteByte('\n')
				case 't':
					sb.WriteByte('\t')
				default:
					sb.WriteByte(s[j+1])
				}
				j += 2
				continue
			}
			if s[j] == '"' {
				break
			}
			sb.WriteByte(s[j])
			j++
		}
		out = append(out, sb.String())
		i = j + 1
	}
	return out
}

// ---------------------------------------------------------------- trace validation

// Verdict is one entry of the `bad`/`notes` list a trace spec reports.
type Verdict struct {
	L    int    `json:"l"`   // 1-based line number in the trace shard
	Cls  string `json:"cls"` // classification (BAD_…, KF_…, SKIP_…)
	Ref  string `json:"ref"` // reference value rendered by the spec
	Note string `json:"note"`
}

type TraceSummary struct {
	Lines     int            `json:"lines"`
	Judged    int            `json:"judged"`
	Skipped   int            `json:"skipped"`
	Counts    map[string]int `json:"counts"`
	Bad       []Verdict      `json:"bad"`
	Generated int64
	Distinct  int64
}

// ValidateTrace runs the trace spec `module` over `events` (one JSON-able value per
// line), sharded over `shards` parallel TLC processes at Reset boundaries given by
// cut(i) (true when a shard may start at event i). Verdict line numbers are mapped
// back to indices into events.
func ValidateTrace(specDirs []string, module string, events []any, shards int, mayCut func(i int) bool, timeout time.Duration) (*TraceSummary, error) {
	if shards < 1 {
		shards = 1
	}
	// choose cut points
	var starts []int
	per := (len(events) + shards - 1) / shards
	if per < 1 {
		per = 1
	}
	starts = append(starts, 0)
	next := per
	for i := 1; i < len(events); i++ {
		if i >= next && mayCut(i) {
			starts = append(starts, i)
			next = i + per
		}
	}
	type res struct {
		sum *TraceSummary
		err error
		off int
	}
	results := make([]res, len(starts))
	var wg sync.WaitGroup
	sem := make(chan struct{}, 16)
	for si := range starts {
		lo := starts[si]
		hi := len(events)
		if si+1 < len(starts) {
			hi = starts[si+1]
		}
		wg.Add(1)
		go func(si, lo, hi int) {
			defer wg.Done()
			sem <- struct{}{}
			defer func() { <-sem }()
			var buf bytes.Buffer
			enc := json.NewEncoder(&buf)
			for _, e := range events[lo:hi] {
				if err := enc.Encode(e); err != nil {
					results[si] = res{err: err}
					return
				}
			}
			fmt.Fprintln(&buf, `{"e":"End"}`)
			out, err := TLCRun{SpecDirs: specDirs, Module: module, Files: map[string][]byte{"trace.ndjson": buf.Bytes()},
				Workers: 1, Timeout: timeout}.Run()
			if err != nil {
				results[si] = res{err: fmt.Errorf("tlc: %w\n%s", err, tail(out))}
				return
			}
			sum, err := parseTraceOut(out, hi-lo+1)
			results[si] = res{sum: sum, err: err, off: lo}
		}(si, lo, hi)
	}
	wg.Wait()
	total := &TraceSummary{Counts: map[string]int{}}
	for _, r := range results {
		if r.err != nil {
			return nil, r.err
		}
		total.Lines += r.sum.Lines - 1
		total.Judged += r.sum.Judged
		total.Skipped += r.sum.Skipped
		total.Generated += r.sum.Generated
		total.Distinct += r.sum.Distinct
		for k, v := range r.sum.Counts {
			total.Counts[k] += v
		}
		for _, b := range r.sum.Bad {
			b.L = b.L - 1 + r.off // index into events
			total.Bad = append(total.Bad, b)
		}
	}
	return total, nil
}

func tail(o *TLCOut) string {
	if o == nil {
		return ""
	}
	s := o.Stdout
	if len(s) > 4000 {
		s = s[len(s)-4000:]
	}
	return s
}

func parseTraceOut(out *TLCOut, wantLines int) (*TraceSummary, error) {
	if out.TimedOut {
		return nil, fmt.Errorf("tlc timed out after %s", out.Wall)
	}
	var sum *TraceSummary
	for _, p := range out.Printed {
		tag, js, ok := ParsePrinted(p)
		if !ok || tag != "END" {
			continue
		}
		var s struct {
			L      int            `json:"l"`
			Judged int            `json:"judged"`
			Skip   int            `json:"skipped"`
			Bad    []Verdict      `json:"bad"`
			Counts map[string]int `json:"counts"`
		}
		if err := json.Unmarshal([]byte(js), &s); err != nil {
			return nil, fmt.Errorf("cannot decode END record: %v: %s", err, js)
		}
		sum = &TraceSummary{Lines: s.L, Judged: s.Judged, Skipped: s.Skip, Bad: s.Bad, Counts: s.Counts}
	}
	if sum == nil {
		return nil, fmt.Errorf("trace not accepted: TLC did not reach the End event (exit %d)\n%s", out.ExitCode, tail(out))
	}
	if sum.Lines != wantLines {
		return nil, fmt.Errorf("trace not fully consumed: %d of %d lines\n%s", sum.Lines, wantLines, tail(out))
	}
	if out.Violated != "" {
		return nil, fmt.Errorf("trace spec reported %s\n%s", out.Violated, tail(out))
	}
	if sum.Counts == nil {
		sum.Counts = map[string]int{}
	}
	sum.Generated, sum.Distinct = out.Generated, out.Distinct
	return sum, nil
}
