package h

import (
	"fmt"
	"path/filepath"
	"strings"
	"time"
)

// cacheDesignModel runs TLC on the CheckCache design model: the configuration that describes Check
// must satisfy NoStaleAfterRun; the configuration in which follow-up checks ignore the invalidation
// time (how ListObjects builds them, KF-19) is expected to violate it.
func cacheDesignModel(run *Run) {
	dir := []string{filepath.Join(VerifRoot(), "spec", "cache")}
	for _, c := range []struct {
		cfg    string
		expect bool // expected to hold
	}{{"CheckCache_ok.cfg", true}, {"CheckCache_followup.cfg", false}} {
		out, err := TLCRun{SpecDirs: dir, Module: "CheckCache", Config: c.cfg, Workers: 4, Timeout: 10 * time.Minute}.Run()
		if err != nil || out.TimedOut {
			run.Inconclusive("TLC on %s: %v\n%s", c.cfg, err, tail(out))
		}
		held := out.Violated == "" && strings.Contains(out.Stdout, "No error has been found")
		run.Coverage["tlc:"+c.cfg] = fmt.Sprintf("%d states generated, %d distinct, held=%v (expected %v)", out.Generated, out.Distinct, held, c.expect)
		if c.expect && !held {
			if out.Violated == "" {
				run.Inconclusive("TLC on %s did not complete:\n%s", c.cfg, tail(out))
			}
			run.Violation(map[string]any{"prop": run.Prop, "class": "DESIGN_MODEL_VIOLATION", "cfg": c.cfg, "violated": out.Violated}, "CheckCache.tla violates "+out.Violated+" under "+c.cfg)
		}
		if !c.expect && held {
			run.Note("%s no longer violates NoStaleAfterRun: the design model and KF-19 disagree", c.cfg)
		}
	}
}
