package h

import "time"

// HangLimit is how long a request may run before the supervisor records it as a
// hang. The server-side deadlines under test are 3 s (ListObjects/ListUsers) or
// shorter, so this leaves an order of magnitude of scheduling slack.
var HangLimit = 12 * time.Second

// Watchdog runs f and reports whether it returned within d. On timeout f keeps
// running in its goroutine (it is leaked deliberately: the call is hung).
func Watchdog(d time.Duration, f func()) bool {
	done := make(chan struct{})
	go func() {
		defer close(done)
		f()
	}()
	t := time.NewTimer(d)
	defer t.Stop()
	select {
	case <-done:
		return true
	case <-t.C:
		return false
	}
}
