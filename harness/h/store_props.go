package h

import (
	"context"
	"fmt"
	"math/rand"
	"strings"

	openfgav1 "github.com/openfga/api/proto/openfga/v1"
	"google.golang.org/protobuf/types/known/wrapperspb"
)

// ---------------------------------------------------------------- history driver for C14-C17, C31

type histCfg struct {
	Backends   []string
	Histories  int
	Steps      int
	Walks      bool
	Tokens     bool
	Models     bool
	Assertions bool
	Stores     bool // ListStores / GetStore / DeleteStore
	Invalid    bool // invalid tuples in writes
}

type AssertItem struct {
	O      Obj     `json:"o"`
	R      string  `json:"r"`
	U      Subj    `json:"u"`
	Expect bool    `json:"expect"`
	Ctxt   []Tuple `json:"ctxt"`
	Ctx    Ctx     `json:"ctx"`
}

func assertToProto(a AssertItem) *openfgav1.Assertion {
	out := &openfgav1.Assertion{TupleKey: &openfgav1.AssertionTupleKey{Object: a.O.String(), Relation: a.R, User: a.U.String()}, Expectation: a.Expect}
	for _, t := range a.Ctxt {
		out.ContextualTuples = append(out.ContextualTuples, t.ToProto())
	}
	if len(a.Ctx) > 0 {
		out.Context = a.Ctx.ToProto()
	}
	return out
}

func assertFromProto(p *openfgav1.Assertion) AssertItem {
	a := AssertItem{O: ParseObj(p.GetTupleKey().GetObject()), R: p.GetTupleKey().GetRelation(), U: ParseSubj(p.GetTupleKey().GetUser()),
		Expect: p.GetExpectation(), Ctxt: []Tuple{}, Ctx: Ctx{}}
	for _, t := range p.GetContextualTuples() {
		a.Ctxt = append(a.Ctxt, TupleFromProto(t))
	}
	for k, v := range p.GetContext().GetFields() {
		a.Ctx[k] = ValFromProto(v.AsInterface())
	}
	return a
}

// modelVariant returns valid variants of the store model that disagree on
// Check(doc:1#viewer@user:a) when only doc:1#editor@user:a is stored.
func modelVariant(i int) *Model {
	m := StoreModel()
	if i%2 == 1 {
		def := m.Rel("doc", "viewer")
		def.Rw = &Rewrite{K: "this"}
	}
	return m
}

// invalidModel returns a structurally invalid mutation of the store model.
func invalidModel(r *rand.Rand) (*Model, string) {
	m := StoreModel()
	v := m.Rel("doc", "viewer")
	switch r.Intn(8) {
	case 0:
		v.Rw.Ch[1].Rel = "ghost"
		return m, "computed relation does not exist"
	case 1:
		v.Rw.Ch[2].TS = "ghost"
		return m, "tupleset relation does not exist"
	case 2:
		v.Restr = append(v.Restr, Restr{T: "ghost"})
		return m, "restriction names an unknown type"
	case 3:
		v.Restr = append(v.Restr, Restr{T: "group", Rel: "ghost"})
		return m, "restriction names an unknown userset relation"
	case 4:
		v.Restr = append(v.Restr, Restr{T: "user", Cond: "c9"})
		return m, "restriction names an unknown condition"
	case 5:
		p := m.Rel("doc", "parent")
		p.Restr = append(p.Restr, Restr{T: "group", Rel: "member"})
		return m, "tupleset relation admits a userset"
	case 6:
		p := m.Rel("doc", "parent")
		p.Restr = append(p.Restr, Restr{T: "folder", WC: true})
		return m, "tupleset relation admits a wildcard"
	default:
		e := m.Rel("doc", "editor")
		e.Rw = &Rewrite{K: "computed", Rel: "viewer"}
		return m, "relation without direct assignment keeps type restrictions"
	}
}

type storeInfo struct {
	sid    string
	mids   []string
	cur    []Tuple
	nmodel int
}

func pageSize(n int) *wrapperspb.Int32Value {
	if n <= 0 {
		return nil
	}
	return wrapperspb.Int32(int32(n))
}

func runHistories(run *Run, cfg histCfg) (*TraceSummary, []*StoreRec) {
	ctx := context.Background()
	r := rand.New(rand.NewSource(run.Seed))
	var recs []*StoreRec
	rowFaultRetries := 0
	defer func() { run.Coverage["read_requests_failed_by_a_row_fault_and_retried"] = rowFaultRetries }()
	for _, backend := range cfg.Backends {
		rec := &StoreRec{Backend: backend}
		recs = append(recs, rec)
		for h := 0; h < cfg.Histories; h++ {
			env, err := NewStoreEnv(backend)
			if err != nil {
				run.Inconclusive("cannot create %s backend: %v", backend, err)
			}
			rec.Reset()
			nstores := 2 + r.Intn(2)
			if cfg.Stores { // enough stores for ListStores walks of three and more pages
				nstores = 3 + r.Intn(4)
			}
			var stores []*storeInfo
			for i := 0; i < nstores; i++ {
				name := "same-name"
				if i == nstores-1 && chance(r, 0.5) {
					name = "other-name"
				}
				sid, mid, err := env.newStore(ctx, rec, name, modelVariant(0))
				if err != nil {
					run.Inconclusive("store setup: %v", err)
				}
				stores = append(stores, &storeInfo{sid: sid, mids: []string{mid}, nmodel: 1})
			}
			live := func() []*storeInfo { return stores }
			for s := 0; s < cfg.Steps; s++ {
				st := pick(r, live())
				var ops []string
				ops = append(ops, "write", "write")
				if cfg.Walks {
					ops = append(ops, "walkread", "walkchanges", "walkchanges")
				}
				if cfg.Tokens {
					ops = append(ops, "token")
				}
				if cfg.Models {
					ops = append(ops, "model", "model", "badmodel", "readmodels", "readmodel", "modeless", "modeless")
				}
				if cfg.Assertions {
					ops = append(ops, "wassert", "wassert", "rassert", "rassert")
				}
				if cfg.Stores {
					ops = append(ops, "liststores", "getstore")
					if len(stores) > 1 {
						ops = append(ops, "delstore")
					}
				}
				op := pick(r, ops)
				switch op {
				case "write":
					ev := genWriteReq(r, cfg.Invalid, st.cur)
					mid := ""
					if chance(r, 0.5) {
						mid = st.mids[len(st.mids)-1]
					}
					env.apiWrite(ctx, st.sid, mid, ev)
					rec.Add(ev)
					run.Evals++
					run.Nontrivial(hashOf([]any{backend, "write", ev.Dels, ev.Wrs, ev.OnDup, ev.OnMiss}))
					for _, x := range live() {
						d, err := env.Dump(ctx, x.sid)
						if err != nil {
							run.Inconclusive("dump: %v", err)
						}
						rec.Add(d)
						x.cur = d.Tuples
					}
				case "walkread":
					size := 1 + r.Intn(len(st.cur)+2)
					var pages [][]Tuple
					token := ""
					for guard := 0; guard < 200; guard++ {
						// sqlite: now and then one row fetch of the page query fails (the rows of the page or the
						// look-ahead row behind it); the request must fail - it is retried with the same token -
						// or return a correct page, never a short listing
						faulted := backend == "sqlite" && r.Intn(3) == 0
						if faulted {
							Inj.ArmRow(1 + r.Intn(size+2))
						}
						resp, err := env.S.Read(ctx, &openfgav1.ReadRequest{StoreId: st.sid, PageSize: pageSize(size), ContinuationToken: token})
						if faulted {
							if Inj.DisarmRow() && err != nil {
								rowFaultRetries++
								continue
							}
						}
						if err != nil {
							run.Inconclusive("read: %v", err)
						}
						page := []Tuple{}
						for _, t := range resp.GetTuples() {
							page = append(page, TupleFromProto(t.GetKey()))
						}
						pages = append(pages, page)
						if token = resp.GetContinuationToken(); token == "" {
							break
						}
					}
					rec.Add(map[string]any{"e": "Walk", "api": "Read", "sid": IDRef(st.sid), "size": size, "pages": pages, "type": "", "desc": false})
					run.Evals++
					run.Nontrivial(hashOf([]any{backend, "walkread", size, st.cur}))
				case "walkchanges":
					typ := pick(r, []string{"", "", "doc", "group", "folder", "do"}) // "do" is a prefix of "doc"
					size := 1 + r.Intn(8)
					var pages [][]Change
					token := ""
					lastToken := ""
					for guard := 0; guard < 300; guard++ {
						resp, err := env.S.ReadChanges(ctx, &openfgav1.ReadChangesRequest{StoreId: st.sid, Type: typ, PageSize: pageSize(size), ContinuationToken: token})
						if err != nil {
							run.Inconclusive("readchanges: %v", err)
						}
						if len(resp.GetChanges()) == 0 {
							break
						}
						page := []Change{}
						for _, c := range resp.GetChanges() {
							op := "write"
							if c.GetOperation() == openfgav1.TupleOperation_TUPLE_OPERATION_DELETE {
								op = "delete"
							}
							page = append(page, Change{Op: op, T: TupleFromProto(c.GetTupleKey())})
						}
						pages = append(pages, page)
						token = resp.GetContinuationToken()
						lastToken = token
					}
					if pages == nil {
						pages = [][]Change{}
					}
					rec.Add(map[string]any{"e": "Walk", "api": "ReadChanges", "sid": IDRef(st.sid), "size": size, "pages": pages, "type": typ, "desc": false})
					run.Evals++
					run.Nontrivial(hashOf([]any{backend, "walkchanges", typ, size, len(pages)}))
					// a token issued for one type filter must not be accepted with another (C14)
					if cfg.Tokens && lastToken != "" {
						other := "doc"
						if typ == "doc" {
							other = "group"
						}
						_, err := env.S.ReadChanges(ctx, &openfgav1.ReadChangesRequest{StoreId: st.sid, Type: other, PageSize: pageSize(size), ContinuationToken: lastToken})
						rec.Add(map[string]any{"e": "Token", "api": "ReadChanges", "kind": "type filter " + typ + " -> " + other, "accepted": err == nil, "backend": backend, "malformed": false})
						run.Evals++
					}
				case "token":
					bad := pick(r, []string{"garbage", "AAAA", "eyJwayI6IkxBVEVTVF9OU0NPTkZJR19hdXRoMHN0b3JlIiwic2siOiIxem1qbXF3MWZLZExTcUoyN01MdTdqTjh0cWgifQ==", "!!!not base64!!!", strings.Repeat("A", 500)})
					api := pick(r, []string{"Read", "ReadChanges", "ListStores", "ReadAuthorizationModels"})
					var err error
					switch api {
					case "Read":
						_, err = env.S.Read(ctx, &openfgav1.ReadRequest{StoreId: st.sid, ContinuationToken: bad})
					case "ReadChanges":
						_, err = env.S.ReadChanges(ctx, &openfgav1.ReadChangesRequest{StoreId: st.sid, ContinuationToken: bad})
					case "ListStores":
						_, err = env.S.ListStores(ctx, &openfgav1.ListStoresRequest{ContinuationToken: bad})
					default:
						_, err = env.S.ReadAuthorizationModels(ctx, &openfgav1.ReadAuthorizationModelsRequest{StoreId: st.sid, ContinuationToken: bad})
					}
					rec.Add(map[string]any{"e": "Token", "api": api, "kind": "malformed " + bad[:4], "accepted": err == nil, "backend": backend, "malformed": true})
					run.Evals++
				case "model":
					var m *Model
					if chance(r, 0.7) {
						m = modelVariant(st.nmodel)
					} else {
						m, _ = GenModel(r, GenOpts{})
					}
					st.nmodel++
					pm := m.ToProto()
					wm, err := env.S.WriteAuthorizationModel(ctx, &openfgav1.WriteAuthorizationModelRequest{StoreId: st.sid, SchemaVersion: "1.1",
						TypeDefinitions: pm.GetTypeDefinitions(), Conditions: pm.GetConditions()})
					if err != nil {
						rec.Add(map[string]any{"e": "WriteModel", "sid": IDRef(st.sid), "mid": 0, "ok": false, "model": m, "errmsg": err.Error()})
					} else {
						st.mids = append(st.mids, wm.GetAuthorizationModelId())
						rec.Add(map[string]any{"e": "WriteModel", "sid": IDRef(st.sid), "mid": IDRef(wm.GetAuthorizationModelId()), "ok": true, "model": m})
					}
					run.Evals++
					run.Nontrivial(hashOf([]any{backend, "model", m}))
				case "badmodel":
					m, why := invalidModel(r)
					pm := m.ToProto()
					wm, err := env.S.WriteAuthorizationModel(ctx, &openfgav1.WriteAuthorizationModelRequest{StoreId: st.sid, SchemaVersion: "1.1",
						TypeDefinitions: pm.GetTypeDefinitions(), Conditions: pm.GetConditions()})
					if err != nil {
						rec.Add(map[string]any{"e": "WriteModel", "sid": IDRef(st.sid), "mid": 0, "ok": false, "model": m, "why": why})
					} else {
						st.mids = append(st.mids, wm.GetAuthorizationModelId())
						rec.Add(map[string]any{"e": "WriteModel", "sid": IDRef(st.sid), "mid": IDRef(wm.GetAuthorizationModelId()), "ok": true, "model": m, "why": why})
					}
					run.Evals++
					run.Nontrivial(hashOf([]any{backend, "badmodel", why}))
				case "readmodels":
					size := 1 + r.Intn(len(st.mids)+1)
					var pages [][]IDRef
					token := ""
					for guard := 0; guard < 200; guard++ {
						resp, err := env.S.ReadAuthorizationModels(ctx, &openfgav1.ReadAuthorizationModelsRequest{StoreId: st.sid, PageSize: pageSize(size), ContinuationToken: token})
						if err != nil {
							run.Inconclusive("read models: %v", err)
						}
						page := []IDRef{}
						for _, m := range resp.GetAuthorizationModels() {
							page = append(page, IDRef(m.GetId()))
						}
						pages = append(pages, page)
						if token = resp.GetContinuationToken(); token == "" {
							break
						}
					}
					rec.Add(map[string]any{"e": "ReadModels", "sid": IDRef(st.sid), "size": size, "pages": pages})
					run.Evals++
					run.Nontrivial(hashOf([]any{backend, "readmodels", size, len(st.mids)}))
				case "readmodel":
					mid := pick(r, st.mids)
					resp, err := env.S.ReadAuthorizationModel(ctx, &openfgav1.ReadAuthorizationModelRequest{StoreId: st.sid, Id: mid})
					if err != nil {
						rec.Add(map[string]any{"e": "ReadModel", "sid": IDRef(st.sid), "mid": IDRef(mid), "found": false, "model": modelVariant(0)})
					} else {
						rec.Add(map[string]any{"e": "ReadModel", "sid": IDRef(st.sid), "mid": IDRef(mid), "found": true, "model": ModelFromProto(resp.GetAuthorizationModel())})
					}
					run.Evals++
				case "modeless":
					q := Req{O: Obj{"doc", "1"}, R: "viewer", U: Subj{"user", pick(r, []string{"a", "b"}), ""}}
					req := &openfgav1.CheckRequest{StoreId: st.sid, TupleKey: &openfgav1.CheckRequestTupleKey{Object: q.O.String(), Relation: q.R, User: q.U.String()},
						Context: Ctx{"x": NumVal(1)}.ToProto()}
					resp, err := env.S.Check(ctx, req)
					if err != nil {
						continue // e.g. the latest (generated) model has no doc#viewer: not a C17 observation
					}
					rec.Add(map[string]any{"e": "ModelessCheck", "sid": IDRef(st.sid), "mid": IDRef(req.GetAuthorizationModelId()), "o": q.O, "r": q.R, "u": q.U,
						"ctx": Ctx{"x": NumVal(1)}, "got": Got(resp.GetAllowed(), nil)})
					run.Evals++
					run.Nontrivial(hashOf([]any{backend, "modeless", st.nmodel, q, st.cur}))
				case "wassert":
					mid := pick(r, st.mids)
					n := r.Intn(4)
					items := []AssertItem{}
					for i := 0; i < n; i++ {
						t := pick(r, ValidKeys)
						a := AssertItem{O: t.O, R: t.R, U: t.U, Expect: chance(r, 0.5), Ctxt: []Tuple{}, Ctx: Ctx{}}
						if chance(r, 0.4) {
							a.Ctxt = append(a.Ctxt, condVariant(r, pick(r, ValidKeys)).Norm())
						}
						if chance(r, 0.4) {
							a.Ctx = Ctx{"x": NumVal(int64(r.Intn(20)))}
						}
						items = append(items, a)
					}
					req := &openfgav1.WriteAssertionsRequest{StoreId: st.sid, AuthorizationModelId: mid}
					for _, a := range items {
						req.Assertions = append(req.Assertions, assertToProto(a))
					}
					_, err := env.S.WriteAssertions(ctx, req)
					rec.Add(map[string]any{"e": "WriteAssertions", "sid": IDRef(st.sid), "mid": IDRef(mid), "ok": err == nil, "items": items, "errmsg": fmt.Sprint(err)})
					run.Evals++
					run.Nontrivial(hashOf([]any{backend, "wassert", items}))
				case "rassert":
					mid := pick(r, st.mids)
					resp, err := env.S.ReadAssertions(ctx, &openfgav1.ReadAssertionsRequest{StoreId: st.sid, AuthorizationModelId: mid})
					if err != nil {
						run.Inconclusive("read assertions: %v", err)
					}
					got := []AssertItem{}
					for _, a := range resp.GetAssertions() {
						got = append(got, assertFromProto(a))
					}
					rec.Add(map[string]any{"e": "ReadAssertions", "sid": IDRef(st.sid), "mid": IDRef(mid), "got": got})
					run.Evals++
				case "liststores":
					size := 1 + r.Intn(len(stores)+1)
					var pages [][]IDRef
					token := ""
					nameFilter := pick(r, []string{"", "", "same-name", "other-name"}) // live stores of that name only, deleted ones never
					for guard := 0; guard < 100; guard++ {
						resp, err := env.S.ListStores(ctx, &openfgav1.ListStoresRequest{PageSize: pageSize(size), ContinuationToken: token, Name: nameFilter})
						if err != nil {
							run.Inconclusive("list stores: %v", err)
						}
						page := []IDRef{}
						for _, s := range resp.GetStores() {
							page = append(page, IDRef(s.GetId()))
						}
						pages = append(pages, page)
						if token = resp.GetContinuationToken(); token == "" {
							break
						}
					}
					rec.Add(map[string]any{"e": "ListStores", "size": size, "pages": pages, "name": nameFilter})
					run.Evals++
					run.Nontrivial(hashOf([]any{backend, "liststores", size, len(stores)}))
				case "getstore":
					_, err := env.S.GetStore(ctx, &openfgav1.GetStoreRequest{StoreId: st.sid})
					rec.Add(map[string]any{"e": "GetStore", "sid": IDRef(st.sid), "found": err == nil})
					run.Evals++
				case "delstore":
					victim := stores[len(stores)-1]
					if _, err := env.S.DeleteStore(ctx, &openfgav1.DeleteStoreRequest{StoreId: victim.sid}); err != nil {
						run.Inconclusive("delete store: %v", err)
					}
					rec.Add(map[string]any{"e": "DeleteStore", "sid": IDRef(victim.sid)})
					stores = stores[:len(stores)-1]
					_, err := env.S.GetStore(ctx, &openfgav1.GetStoreRequest{StoreId: victim.sid})
					rec.Add(map[string]any{"e": "GetStore", "sid": IDRef(victim.sid), "found": err == nil})
					run.Evals++
				}
			}
			env.Close()
		}
	}
	total := &TraceSummary{Counts: map[string]int{}}
	for _, rec := range recs {
		sum := validateStoreTrace(run, rec)
		total.Judged += sum.Judged
		total.Lines += sum.Lines
		total.Distinct += sum.Distinct
		total.Generated += sum.Generated
		for k, v := range sum.Counts {
			total.Counts[rec.Backend+":"+k] += v
		}
	}
	run.Coverage["trace_events_judged"] = total.Judged
	run.Coverage["verdict_classes"] = total.Counts
	run.Coverage["traces_validated_against_impl"] = cfg.Histories * len(cfg.Backends)
	if len(recs) > 0 && len(recs[0].Events) > 4 {
		run.AddSample(recs[0].Events[len(recs[0].Events)-2])
		run.AddSample(recs[len(recs)-1].Events[len(recs[len(recs)-1].Events)-1])
	}
	return total, recs
}

func storeModelStates(run *Run) {
	mc := runStoreModel(run)
	run.Coverage["states"] = mc.Distinct
	run.Coverage["transitions"] = mc.Generated
	run.Coverage["model_config"] = "FGAStoreModel (spec/store): tuple table + changelog + SQL write transaction, invariants TypeOK LogFaithful PagesCover, action properties Atomic AppendOnly"
}

// C14: pagination
func C14(run *Run) {
	if run.Replay != "" && replayHasHistory(run.Replay) { // other replays re-run the exploration with the recorded seed
		replayStore(run)
		return
	}
	burstWalkProbe(run) // every entry of a burst of concurrent writers exactly once in a later walk (ConcWriteTrace!TrBurst)
	runHistories(run, histCfg{Backends: []string{"memory", "sqlite"}, Histories: run.Pick(10, 120), Steps: run.Pick(40, 80), Walks: true, Tokens: true, Models: true, Stores: true})
	storeModelStates(run)
	run.Coverage["rule"] = "bursts of 8-16 concurrent writers followed by a paginated changelog walk (every entry exactly once); sqlite Read pages with a row fetch failing now and then (the request fails and is retried, or the page is right); random histories of writes, model writes and store creation/deletion on memory and sqlite; walks following continuation tokens from the first page with random page sizes 1..n+1 through Read, ReadChanges (with/without object-type filter), ListStores and ReadAuthorizationModels, judged by StoreTrace (PagesOK: every item exactly once, documented order, no oversized page); ReadChanges tokens replayed with another type filter and malformed tokens must be rejected; design level: PagesCover invariant for every page size over every reachable changelog of FGAStoreModel; non-trivial = distinct (backend, api, page size, data)"
	run.Assumptions = []string{"data sets are tens of items, not hundreds (TLC holds the trace in memory)", "mysql/postgres cannot run here"}
}

// C15: changelog
func C15(run *Run) {
	if run.Replay != "" {
		if replayKind(run.Replay) == "changes" { // horizon / descending walks: the probe is re-run with the recorded seed
			ev, join := changesProbe(run)
			judgeChanges(run, append(ev, join()...))
			return
		}
		if replayHasHistory(run.Replay) {
			replayStore(run)
			return
		}
	}
	chEvents, chJoin := changesProbe(run) // horizon and descending order (ChangesTrace); the API-level part waits out a one-minute horizon in the background
	runHistories(run, histCfg{Backends: []string{"memory", "sqlite"}, Histories: run.Pick(14, 150), Steps: run.Pick(30, 60), Walks: true, Invalid: true})
	storeModelStates(run)
	judgeChanges(run, append(chEvents, chJoin()...))
	run.Coverage["rule"] = "random write histories (all option combinations, duplicates, missing deletes) on memory and sqlite; after every write every store is dumped: the changelog must extend the previous one by exactly one DELETE per effective delete and one WRITE per effective write (IsLogSuffixFor), replaying it oldest-first must reproduce the tuples (FoldLog) with every entry effective; type-filtered ReadChanges walks must equal the filtered log; horizon / descending order: batches written with recorded wall-clock brackets, ReadChanges walked at the datastore interface with 10 horizons x asc/desc x type filters x page sizes and through a server configured with a one-minute horizon (before and after the minute has passed), judged by ChangesTrace (visible part is a prefix, contains everything certainly older and nothing certainly newer than the horizon, descending = exact reverse); design level: LogFaithful + AppendOnly over FGAStoreModel; non-trivial = distinct requests / walks"
	run.Assumptions = []string{"descending order is exercised at the datastore interface (the API has no descending option); the horizon rule is judged with the wall-clock bracket of each write and a 25 ms clock-granularity slack, entries whose age is within that margin of the horizon may be shown or withheld"}
}

// C16: isolation
func C16(run *Run) {
	if run.Replay != "" && replayHasHistory(run.Replay) { // other replays re-run the exploration with the recorded seed
		replayStore(run)
		return
	}
	crossStoreProbe(run) // query side: own model per store under concurrent resolution, foreign model ids refused
	runHistories(run, histCfg{Backends: []string{"memory", "sqlite"}, Histories: run.Pick(12, 120), Steps: run.Pick(40, 80), Walks: true, Models: true, Assertions: true, Stores: true, Invalid: true})
	storeModelStates(run)
	run.Coverage["rule"] = "2-3 stores per history with identical store names, object, relation, user and condition names; interleaved writes, model writes, assertions, walks and store deletion; after every write EVERY store is dumped and must equal its own StoreTrace state (a write to one store leaves the others unchanged); GetStore/ListStores must show exactly the live stores; non-trivial = distinct operations"
	run.Assumptions = []string{"query evaluation caches across stores are covered by C08-C11's key-scoping checks"}
}

// C17: models
func C17(run *Run) {
	if run.Replay != "" && replayHasHistory(run.Replay) { // other replays re-run the exploration with the recorded seed
		replayStore(run)
		return
	}
	crossStoreProbe(run) // "requests without a model id resolve to the store's latest model", also when two stores resolve at the same moment
	runHistories(run, histCfg{Backends: []string{"memory", "sqlite"}, Histories: run.Pick(12, 120), Steps: run.Pick(40, 80), Models: true})
	storeModelStates(run)
	run.Coverage["rule"] = "sequences of WriteAuthorizationModel with valid variants, generated valid models and 8 kinds of structurally invalid models, interleaved with tuple writes, ReadAuthorizationModel(s) and Checks without model id; StoreTrace requires: accepted => ValidModelBasic, new id greater than all earlier ids of the store, read-back equal to the written model, newest-first listing, and every model-less Check resolved to the newest id and answered with the reference value under that model; non-trivial = distinct operations"
	run.Assumptions = []string{"ValidModelBasic states the structural rules only (references, tupleset rules, restrictions); entry-point/cycle rules of the validator are not restated"}
}

// C31: assertions
func C31(run *Run) {
	if run.Replay != "" && replayHasHistory(run.Replay) { // other replays re-run the exploration with the recorded seed
		replayStore(run)
		return
	}
	runHistories(run, histCfg{Backends: []string{"memory", "sqlite"}, Histories: run.Pick(12, 120), Steps: run.Pick(40, 80), Models: true, Assertions: true})
	storeModelStates(run)
	run.Coverage["rule"] = "interleaved WriteAssertions/ReadAssertions over 2-3 stores x several models per store (lists of 0-3 assertions with contextual tuples and context), on memory and sqlite; ReadAssertions must return exactly the last list written for that (store, model) and the empty list for a pair never written; non-trivial = distinct operations"
}
