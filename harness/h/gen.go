package h

import (
	"context"
	"math/rand"

	"github.com/openfga/openfga/pkg/typesystem"
)

// The "C01 input space": bounded vocabulary, random rewrites, tuple graphs with
// chains / diamonds / cycles, conditional tuples with full / partial /
// conflicting stored context, leftover tuples that are invalid for the model.

var IDs = map[string][]string{
	"user":   {"a", "b", "c"},
	"group":  {"1", "2", "3"},
	"folder": {"1", "2", "3"},
	"doc":    {"1", "2", "3"},
}

var TypeOrder = []string{"user", "group", "folder", "doc"}

type GenOpts struct {
	NoConds     bool // never generate conditions
	NoInvalid   bool // never generate leftover/invalid tuples
	MaxTuples   int
	MinTuples   int
	ForceShapes bool // bias towards recursion/ttu shapes where strategies differ
	MultiParent float64 // probability that doc#parent admits a second parent type (default 0.3)
	ForceCycles bool    // include tuple cycles (mutual usersets) wherever the model allows them
}

func pick[T any](r *rand.Rand, xs []T) T { return xs[r.Intn(len(xs))] }
func chance(r *rand.Rand, p float64) bool { return r.Float64() < p }

var condPool = []CondDef{
	{Name: "c1", Params: []Param{{"x", "int"}},
		Expr: &Expr{K: "lt", A: &Expr{K: "param", N: "x"}, B: &Expr{K: "lit", Ty: "int", V: int64(10)}}},
	{Name: "c2", Params: []Param{{"s", "string"}, {"ok", "bool"}},
		Expr: &Expr{K: "and", A: &Expr{K: "eq", A: &Expr{K: "param", N: "s"}, B: &Expr{K: "lit", Ty: "string", V: "a"}}, B: &Expr{K: "param", N: "ok"}}},
	{Name: "c3", Params: []Param{{"s", "string"}, {"allowed", "list<string>"}},
		Expr: &Expr{K: "in", A: &Expr{K: "param", N: "s"}, B: &Expr{K: "param", N: "allowed"}}},
	{Name: "c4", Params: []Param{{"x", "int"}, {"y", "int"}},
		Expr: &Expr{K: "or", A: &Expr{K: "ge", A: &Expr{K: "param", N: "x"}, B: &Expr{K: "param", N: "y"}}, B: &Expr{K: "eq", A: &Expr{K: "param", N: "y"}, B: &Expr{K: "lit", Ty: "int", V: int64(0)}}}},
}

func init() {
	for i := range condPool {
		condPool[i].Cel = condPool[i].Expr.CEL()
	}
}

// relation vocabulary per type; "parent" relations are tupleset relations.
var relVocab = map[string][]string{
	"group":  {"member", "admin"},
	"folder": {"parent", "viewer", "editor"},
	"doc":    {"parent", "owner", "blocked", "editor", "viewer"},
}

func genRestr(r *rand.Rand, m *Model, t, rel string, conds []string) []Restr {
	var out []Restr
	add := func(x Restr) {
		for _, y := range out {
			if y == x {
				return
			}
		}
		out = append(out, x)
	}
	withCond := func() string {
		if len(conds) > 0 && chance(r, 0.3) {
			return pick(r, conds)
		}
		return ""
	}
	if chance(r, 0.8) {
		add(Restr{T: "user", Cond: withCond()})
	}
	if chance(r, 0.25) {
		add(Restr{T: "user", WC: true, Cond: withCond()})
	}
	if chance(r, 0.45) {
		add(Restr{T: "group", Rel: "member", Cond: withCond()})
	}
	if chance(r, 0.1) {
		add(Restr{T: "group", Rel: "admin"})
	}
	if chance(r, 0.12) { // a group as a plain object subject, next to (or instead of) its usersets
		add(Restr{T: "group", Cond: withCond()})
	}
	if chance(r, 0.25) { // self recursion through a userset of the same relation
		add(Restr{T: t, Rel: rel, Cond: withCond()})
	}
	if t == "doc" && chance(r, 0.15) {
		add(Restr{T: "doc", Rel: pick(r, []string{"viewer", "editor", "owner", "blocked"})})
	}
	if t == "doc" && chance(r, 0.1) {
		add(Restr{T: "folder", Rel: "viewer"})
	}
	if chance(r, 0.1) && len(conds) > 0 { // same type twice, with and without condition
		add(Restr{T: "user"})
		add(Restr{T: "user", Cond: pick(r, conds)})
	}
	if chance(r, 0.12) && len(conds) > 0 { // same type, different kinds, a condition on one of them only
		if chance(r, 0.5) {
			add(Restr{T: "user", Cond: pick(r, conds)})
			add(Restr{T: "user", WC: true})
		} else {
			add(Restr{T: "user", WC: true, Cond: pick(r, conds)})
			add(Restr{T: "user"})
		}
	}
	if len(out) == 0 {
		add(Restr{T: "user"})
	}
	return out
}

func genRw(r *rand.Rand, t, rel string, depth int, usedThis *bool) *Rewrite {
	others := []string{}
	for _, x := range relVocab[t] {
		if x != rel && x != "parent" {
			others = append(others, x)
		}
	}
	leaf := func() *Rewrite {
		for {
			switch x := r.Intn(10); {
			case x < 5:
				if *usedThis {
					continue
				}
				*usedThis = true
				return &Rewrite{K: "this"}
			case x < 7:
				if len(others) == 0 {
					continue
				}
				return &Rewrite{K: "computed", Rel: pick(r, others)}
			default:
				if t == "group" {
					continue
				}
				// parent is always a folder: choose a folder relation (same name gives recursion for folder)
				return &Rewrite{K: "ttu", TS: "parent", Rel: pick(r, []string{"viewer", "viewer", "editor"})}
			}
		}
	}
	if depth <= 0 || chance(r, 0.45) {
		return leaf()
	}
	switch x := r.Intn(10); {
	case x < 5:
		n := 2 + r.Intn(2)
		rw := &Rewrite{K: "union"}
		for i := 0; i < n; i++ {
			rw.Ch = append(rw.Ch, genRw(r, t, rel, depth-1, usedThis))
		}
		return rw
	case x < 7:
		a, b := genRw(r, t, rel, depth-1, usedThis), genRw(r, t, rel, depth-1, usedThis)
		for i := 0; i < 3 && a.String() == b.String(); i++ { // identical operands are legal but rare in practice
			b = genRw(r, t, rel, depth-1, usedThis)
		}
		return &Rewrite{K: "inter", Ch: []*Rewrite{a, b}}
	default:
		a, b := genRw(r, t, rel, depth-1, usedThis), genRw(r, t, rel, depth-1, usedThis)
		for i := 0; i < 3 && a.String() == b.String(); i++ {
			b = genRw(r, t, rel, depth-1, usedThis)
		}
		return &Rewrite{K: "diff", Base: a, Sub: b}
	}
}

// GenModel draws models until one passes the real validator and is stratified.
// rejected counts the candidates the real validator refused.
func GenModel(r *rand.Rand, opts GenOpts) (m *Model, rejected int) {
	for {
		m = &Model{Types: append([]string{}, TypeOrder...)}
		var condNames []string
		if !opts.NoConds && chance(r, 0.6) {
			n := 1 + r.Intn(2)
			perm := r.Perm(len(condPool))
			for i := 0; i < n; i++ {
				m.Conds = append(m.Conds, condPool[perm[i]])
				condNames = append(condNames, condPool[perm[i]].Name)
			}
		}
		if m.Conds == nil {
			m.Conds = []CondDef{}
		}
		for _, t := range []string{"group", "folder", "doc"} {
			for _, rel := range relVocab[t] {
				if rel == "admin" && chance(r, 0.6) {
					continue
				}
				if t == "folder" && rel == "editor" && chance(r, 0.4) {
					continue
				}
				if t == "doc" && (rel == "owner" || rel == "blocked") && chance(r, 0.2) {
					continue
				}
				def := RelDef{T: t, R: rel, Restr: []Restr{}}
				if rel == "parent" {
					def.Rw = &Rewrite{K: "this"}
					def.Restr = []Restr{{T: "folder"}}
					if len(condNames) > 0 && chance(r, 0.15) {
						def.Restr = append(def.Restr, Restr{T: "folder", Cond: pick(r, condNames)})
					}
					// a second parent type (documents nested in documents), possibly with its own
					// condition set, so tuple-to-userset rewrites fan out over several types
					pMulti := 0.3
					if opts.MultiParent > 0 {
						pMulti = opts.MultiParent
					}
					if t == "doc" && chance(r, pMulti) {
						x := Restr{T: "doc"}
						if len(condNames) > 0 && chance(r, 0.6) {
							x.Cond = pick(r, condNames)
						}
						if chance(r, 0.5) {
							def.Restr = append(def.Restr, x)
						} else {
							def.Restr = append([]Restr{x}, def.Restr...)
						}
					}
				} else {
					used := false
					d := 2
					if chance(r, 0.25) {
						d = 3
					}
					if rel == "member" || rel == "admin" || rel == "owner" {
						d = 1
					}
					def.Rw = genRw(r, t, rel, d, &used)
				}
				m.Rels = append(m.Rels, def)
			}
		}
		// repair references: computed/ttu targets must exist; restrictions must reference existing relations
		ok := true
		for i := range m.Rels {
			def := &m.Rels[i]
			def.Rw.Walk(func(x *Rewrite) {
				switch x.K {
				case "computed":
					if m.Rel(def.T, x.Rel) == nil {
						ok = false
					}
				case "ttu":
					if m.Rel("folder", x.Rel) == nil {
						ok = false
					}
				}
			})
			if def.R != "parent" && def.Rw.HasThis() {
				for _, x := range genRestr(r, m, def.T, def.R, condNames) {
					if x.Rel != "" && m.Rel(x.T, x.Rel) == nil {
						continue
					}
					def.Restr = append(def.Restr, x)
				}
				if len(def.Restr) == 0 {
					def.Restr = []Restr{{T: "user"}}
				}
			}
		}
		if opts.ForceShapes && len(condNames) > 0 && chance(r, 0.5) {
			// recursive userset and recursive tuple-to-userset whose recursive edges carry a
			// condition: the strategies (default / weight-two / recursive) walk them differently
			if g := m.Rel("group", "member"); g != nil {
				g.Rw = &Rewrite{K: "this"}
				g.Restr = []Restr{{T: "user"}, {T: "group", Rel: "member", Cond: pick(r, condNames)}}
				if chance(r, 0.5) {
					g.Restr = append(g.Restr, Restr{T: "group", Rel: "member"})
				}
			}
			if fv, fp := m.Rel("folder", "viewer"), m.Rel("folder", "parent"); fv != nil && fp != nil {
				fv.Rw = &Rewrite{K: "union", Ch: []*Rewrite{{K: "this"}, {K: "ttu", TS: "parent", Rel: "viewer"}}}
				fv.Restr = []Restr{{T: "user"}, {T: "group", Rel: "member"}}
				fp.Restr = []Restr{{T: "folder"}, {T: "folder", Cond: pick(r, condNames)}}
			}
		}
		if !ok || !m.Stratified() {
			continue
		}
		if _, err := typesystem.NewAndValidate(context.Background(), m.ToProto()); err != nil {
			rejected++
			continue
		}
		return m, rejected
	}
}

// ctxFor builds a context for condition c with the given flavour.
//
//	"T" satisfies, "F" falsifies, "missing" omits one parameter, "none" empty,
//	"mistyped" has one parameter of the wrong JSON kind.
func CtxFor(r *rand.Rand, c *CondDef, flavour string) Ctx {
	out := Ctx{}
	sat := flavour != "F"
	switch c.Name {
	case "c1":
		if sat {
			out["x"] = NumVal(int64(r.Intn(10)))
		} else {
			out["x"] = NumVal(int64(10 + r.Intn(10)))
		}
		if chance(r, 0.2) { // numeric string form
			out["x"] = StrVal(itoa(out["x"].V.(int64)))
		}
	case "c2":
		if sat {
			out["s"], out["ok"] = StrVal("a"), BoolVal(true)
		} else if chance(r, 0.5) {
			out["s"], out["ok"] = StrVal("b"), BoolVal(true)
		} else {
			out["s"], out["ok"] = StrVal("a"), BoolVal(false)
		}
	case "c3":
		if sat {
			out["s"], out["allowed"] = StrVal("a"), ListVal(StrVal("b"), StrVal("a"))
		} else {
			out["s"], out["allowed"] = StrVal("z"), ListVal(StrVal("b"), StrVal("a"))
		}
	case "c4":
		if sat {
			out["x"], out["y"] = NumVal(5), NumVal(int64(r.Intn(5)))
		} else {
			out["x"], out["y"] = NumVal(1), NumVal(7)
		}
	}
	switch flavour {
	case "none":
		return Ctx{}
	case "missing":
		ks := SortedKeys(out)
		delete(out, pick(r, ks))
	case "mistyped":
		ks := SortedKeys(out)
		k := pick(r, ks)
		switch out[k].K {
		case "num":
			out[k] = StrVal("abc")
		case "str":
			out[k] = NumVal(7)
		case "bool":
			out[k] = StrVal("true")
		case "list":
			out[k] = StrVal("a")
		}
	}
	return out
}

func itoa(n int64) string {
	if n == 0 {
		return "0"
	}
	neg := n < 0
	if neg {
		n = -n
	}
	var b []byte
	for n > 0 {
		b = append([]byte{byte('0' + n%10)}, b...)
		n /= 10
	}
	if neg {
		b = append([]byte{'-'}, b...)
	}
	return string(b)
}

// GenTuples draws a tuple set for the model: mostly valid tuples drawn per type
// restriction, biased to chains and cycles; with probability ~15% per slot a
// leftover tuple that is invalid for the model.
func GenTuples(r *rand.Rand, m *Model, opts GenOpts) []Tuple {
	type cand struct {
		t Tuple
	}
	var valid []Tuple
	// dense cases use two ids per type so that chains, diamonds and cycles are likely
	ids := IDs
	if !opts.ForceShapes && chance(r, 0.6) {
		ids = map[string][]string{}
		for t, l := range IDs {
			ids[t] = l[:2]
		}
	}
	IDs := ids
	for _, def := range m.Rels {
		for _, x := range def.Restr {
			for _, oid := range IDs[def.T] {
				o := Obj{def.T, oid}
				var users []Subj
				switch {
				case x.WC:
					users = []Subj{{x.T, "*", ""}}
				default:
					for _, uid := range IDs[x.T] {
						users = append(users, Subj{x.T, uid, x.Rel})
					}
				}
				for _, u := range users {
					if u.Rel == def.R && u.T == o.T && u.ID == o.ID {
						continue // self-referencing userset, rejected by Write (C18)
					}
					valid = append(valid, Tuple{O: o, R: def.R, U: u, C: x.Cond})
				}
			}
		}
	}
	r.Shuffle(len(valid), func(i, j int) { valid[i], valid[j] = valid[j], valid[i] })
	lo, hi := 5, 16
	if opts.MinTuples > 0 {
		lo = opts.MinTuples
	}
	if opts.MaxTuples > 0 {
		hi = opts.MaxTuples
	}
	n := lo + r.Intn(hi-lo+1)
	seen := map[string]bool{}
	var out []Tuple
	add := func(t Tuple) bool {
		if seen[t.Key()] {
			return false
		}
		seen[t.Key()] = true
		out = append(out, t.Norm())
		return true
	}
	if opts.ForceShapes {
		// chains of depth three through the recursive relations, so that conditions sit two and
		// more hops away from the checked object
		want := []Tuple{tp("group:1", "member", "group:2#member"), tp("group:2", "member", "group:3#member"), tp("group:3", "member", "user:a"),
			tp("folder:1", "parent", "folder:2"), tp("folder:2", "parent", "folder:3"), tp("folder:3", "viewer", "user:a"), tp("doc:1", "parent", "folder:1"),
			tp("folder:3", "viewer", "group:1#member")}
		for _, w := range want {
			var cands []Tuple
			for _, t := range valid {
				if t.O == w.O && t.R == w.R && t.U == w.U {
					cands = append(cands, t)
				}
			}
			if len(cands) == 0 {
				continue
			}
			t := pick(r, cands)
			if t.C != "" {
				t.Cctx = CtxFor(r, m.Cond(t.C), pick(r, []string{"T", "T", "F", "F", "none"}))
			}
			add(t)
		}
	}
	if opts.ForceCycles {
		// mutual usersets: o1#r@o2#r2 together with o2#r2@o1#r (same or different relations), each with a
		// direct member next to it so that a fan-out has a cycle child and plain children
		byKey := map[string]Tuple{}
		for _, t := range valid {
			if t.C == "" {
				byKey[t.Key()] = t
			}
		}
		added := 0
		for _, t := range valid {
			if added >= 3 || t.C != "" || t.U.Rel == "" || (t.U.T == t.O.T && t.U.ID == t.O.ID) {
				continue
			}
			back := Tuple{O: Obj{t.U.T, t.U.ID}, R: t.U.Rel, U: Subj{t.O.T, t.O.ID, t.R}}
			if b, ok := byKey[back.Key()]; ok {
				add(t)
				add(b)
				added++
				for _, d := range valid {
					if d.C == "" && d.U.Rel == "" && d.U.ID != "*" && (d.O == t.O && d.R == t.R || d.O == b.O && d.R == b.R) && chance(r, 0.5) {
						add(d)
					}
				}
			}
		}
	}
	for _, t := range valid {
		if len(out) >= n {
			break
		}
		if t.C != "" {
			c := m.Cond(t.C)
			fl := pick(r, []string{"T", "T", "T", "T", "F", "none", "none", "none", "missing", "mistyped"})
			if len(c.Params) == 1 && fl == "missing" {
				fl = "none"
			}
			t.Cctx = CtxFor(r, c, fl)
		}
		add(t)
	}
	if !opts.NoInvalid {
		k := 0
		if chance(r, 0.6) {
			k = 1 + r.Intn(3)
		}
		for i := 0; i < k; i++ {
			add(genInvalidTuple(r, m))
		}
	}
	return out
}

func genInvalidTuple(r *rand.Rand, m *Model) Tuple {
	def := m.Rels[r.Intn(len(m.Rels))]
	if chance(r, 0.5) { // prefer a relation with a conditioned restriction: the condition cases below apply to it
		var withCond []RelDef
		for _, d := range m.Rels {
			for _, x := range d.Restr {
				if x.Cond != "" {
					withCond = append(withCond, d)
					break
				}
			}
		}
		if len(withCond) > 0 {
			def = withCond[r.Intn(len(withCond))]
		}
	}
	o := Obj{def.T, pick(r, IDs[def.T])}
	t := Tuple{O: o, R: def.R}
	switch r.Intn(6) {
	case 0: // user type that no restriction lists (may by chance be valid; the spec decides)
		ut := pick(r, []string{"user", "group", "folder", "doc"})
		t.U = Subj{ut, pick(r, IDs[ut]), ""}
	case 1: // wildcard
		t.U = Subj{pick(r, []string{"user", "group"}), "*", ""}
	case 2: // userset
		t.U = Subj{"group", pick(r, IDs["group"]), pick(r, []string{"member", "admin"})}
	case 3: // unknown condition / condition where none is allowed
		t.U = Subj{"user", pick(r, IDs["user"]), ""}
		t.C = pick(r, []string{"c1", "c2", "c9"})
		if c := m.Cond(t.C); c != nil {
			t.Cctx = CtxFor(r, c, "T")
		}
	case 4: // condition dropped where one is required
		for _, x := range def.Restr {
			if x.Cond != "" && !x.WC {
				t.U = Subj{x.T, pick(r, IDs[x.T]), x.Rel}
			} else if x.Cond != "" && t.U.T == "" {
				t.U = Subj{x.T, "*", ""}
			}
		}
		if t.U.T == "" {
			t.U = Subj{"doc", pick(r, IDs["doc"]), ""}
		}
	default: // relation that does not exist on the type
		t.R = "ghost"
		t.U = Subj{"user", pick(r, IDs["user"]), ""}
	}
	return t.Norm()
}

// GenReqCtx returns request contexts covering satisfy / falsify / omit for the model's conditions.
func GenReqCtxs(r *rand.Rand, m *Model) []Ctx {
	if len(m.Conds) == 0 {
		return []Ctx{{}}
	}
	mk := func(fl string) Ctx {
		out := Ctx{}
		for i := range m.Conds {
			f := fl
			if fl == "mix" {
				f = pick(r, []string{"T", "F", "none", "missing", "mistyped"})
			}
			for k, v := range CtxFor(r, &m.Conds[i], f) {
				if _, dup := out[k]; !dup || chance(r, 0.5) {
					out[k] = v
				}
			}
		}
		return out
	}
	t := mk("T")
	return []Ctx{{}, t, t, t, mk("F"), mk("mix")}
}

type Req struct {
	O   Obj    `json:"o"`
	R   string `json:"r"`
	U   Subj   `json:"u"`
	Ctx Ctx    `json:"ctx"`
}

// GenSubjects lists the request subjects of interest for a case.
func GenSubjects(m *Model) []Subj {
	out := []Subj{{"user", "a", ""}, {"user", "b", ""}, {"user", "c", ""}, {"user", "*", ""},
		{"group", "1", "member"}, {"group", "2", "member"}, {"group", "1", ""}, {"folder", "1", ""}}
	for _, rel := range []string{"viewer", "editor"} {
		if m.Rel("doc", rel) != nil {
			out = append(out, Subj{"doc", "1", rel})
		}
	}
	if m.Rel("folder", "viewer") != nil {
		out = append(out, Subj{"folder", "1", "viewer"})
	}
	return out
}
