package h

import (
	"context"
	"fmt"
	"strings"
)

// wideCase is a store with more candidate objects than the engines' internal buffers hold (the
// reverse-expansion result channel, the default max-results window), all of which need a follow-up
// Check (exclusion / intersection): answers must not depend on breadth / concurrency settings.
func wideCase(n int) *Case {
	m := &Model{Types: []string{"user", "group", "folder", "doc"}, Conds: []CondDef{}, Rels: []RelDef{
		{T: "doc", R: "blocked", Rw: &Rewrite{K: "this"}, Restr: []Restr{{T: "user"}}},
		{T: "doc", R: "viewer", Rw: &Rewrite{K: "diff", Base: &Rewrite{K: "this"}, Sub: &Rewrite{K: "computed", Rel: "blocked"}}, Restr: []Restr{{T: "user"}}},
		{T: "doc", R: "editor", Rw: &Rewrite{K: "inter", Ch: []*Rewrite{{K: "this"}, {K: "computed", Rel: "viewer"}}}, Restr: []Restr{{T: "user"}}},
	}}
	cs := &Case{N: -1, Model: m}
	for i := 0; i < n; i++ {
		o := Obj{"doc", fmt.Sprintf("w%03d", i)}
		cs.Tuples = append(cs.Tuples, Tuple{O: o, R: "viewer", U: Subj{"user", "a", ""}, Cctx: Ctx{}})
		if i%10 == 3 {
			cs.Tuples = append(cs.Tuples, Tuple{O: o, R: "blocked", U: Subj{"user", "a", ""}, Cctx: Ctx{}})
		}
		if i%3 == 0 {
			cs.Tuples = append(cs.Tuples, Tuple{O: o, R: "editor", U: Subj{"user", "a", ""}, Cctx: Ctx{}})
		}
	}
	return cs
}

// runWide records ListObjects answers of the given engines over a wide case.
func runWide(ctx context.Context, v *Variants, rec *Recorder, run *Run, engines []string, n int) {
	cs := wideCase(n)
	if err := v.Base.Setup(ctx, cs.Model, cs.Tuples); err != nil {
		run.Inconclusive("wide case setup failed: %v", err)
	}
	rec.Setup(cs.SetupEv())
	for _, rel := range []string{"viewer", "editor"} {
		for _, eng := range engines {
			ev := &ListObjectsEv{Eng: eng, T: "doc", R: rel, U: Subj{"user", "a", ""}, Ctx: Ctx{}}
			ev.WB1 = strings.HasPrefix(eng, "weighted") && strings.Contains(eng+":", ":b1:")
			if !v.RunLO(ctx, ev) {
				continue
			}
			rec.Add(ev)
			run.Evals++
		}
	}
	run.Nontrivial(fmt.Sprintf("wide case %d", n))
}
