package h

import (
	"context"
	"fmt"
	"strings"
)

// wideCase is a store with more candidate objects than the engines' internal buffers hold (the
// reverse-expansion result channel, the default max-results window), all of which need a follow-up
// Check (exclusion / intersection): answers must not depend on breadth / concurrency settings.
func wideCase(n int) *Case {
	m := &Model{Types: []string{"user", "group", "folder", "doc"}, Conds: []CondDef{}, Rels: []RelDef{
		{T: "doc", R: "blocked", Rw: &Rewrite{K: "this"}, Restr: []Restr{{T: "user"}}},
		{T: "doc", R: "viewer", Rw: &Rewrite{K: "diff", Base: &Rewrite{K: "this"}, Sub: &Rewrite{K: "computed", Rel: "blocked"}}, Restr: []Restr{{T: "user"}}},
		{T: "doc", R: "editor", Rw: &Rewrite{K: "inter", Ch: []*Rewrite{{K: "this"}, {K: "computed", Rel: "viewer"}}}, Restr: []Restr{{T: "user"}}},
	}}
	cs := &Case{N: -1, Model: m}
	for i := 0; i < n; i++ {
		o := Obj{"doc", fmt.Sprintf("w%03d", i)}
		cs.Tuples = append(cs.Tuples, Tuple{O: o, R: "viewer", U: Subj{"user", "a", ""}, Cctx: Ctx{}})
		if i%10 == 3 {
			cs.Tuples = append(cs.Tuples, Tuple{O: o, R: "blocked", U: Subj{"user", "a", ""}, Cctx: Ctx{}})
		}
		if i%3 == 0 {
			cs.Tuples = append(cs.Tuples, Tuple{O: o, R: "editor", U: Subj{"user", "a", ""}, Cctx: Ctx{}})
		}
	}
	return cs
}

// runWide records ListObjects answers of the given engines over a wide case.
func runWide(ctx context.Context, v *Variants, rec *Recorder, run *Run, engines []string, n int) {
	cs := wideCase(n)
	if err := v.Base.Setup(ctx, cs.Model, cs.Tuples); err != nil {
		run.Inconclusive("wide case setup failed: %v", err)
	}
	rec.Setup(cs.SetupEv())
	for _, rel := range []string{"viewer", "editor"} {
		for _, eng := range engines {
			ev := &ListObjectsEv{Eng: eng, T: "doc", R: rel, U: Subj{"user", "a", ""}, Ctx: Ctx{}}
			ev.WB1 = strings.HasPrefix(eng, "weighted") && strings.Contains(eng+":", ":b1:")
			if !v.RunLO(ctx, ev) {
				continue
			}
			rec.Add(ev)
			run.Evals++
		}
	}
	run.Nontrivial(fmt.Sprintf("wide case %d", n))
}

// wideCheckCase: the subject is a member of n groups through "(a or b) but not c" and the objects grant
// viewer to single groups: strategies that stream the user-side objects in batches (weight2's set
// operations work on batches of about a hundred) must agree with the per-userset default strategy.
func wideCheckCase(n int) (*Case, []Req) {
	this := &Rewrite{K: "this"}
	comp := func(r string) *Rewrite { return &Rewrite{K: "computed", Rel: r} }
	m := &Model{Types: []string{"user", "group", "folder", "doc"}, Conds: []CondDef{}, Rels: []RelDef{
		{T: "group", R: "a", Rw: this, Restr: []Restr{{T: "user"}}},
		{T: "group", R: "b", Rw: this, Restr: []Restr{{T: "user"}}},
		{T: "group", R: "c", Rw: this, Restr: []Restr{{T: "user"}}},
		{T: "group", R: "member", Rw: &Rewrite{K: "diff", Base: &Rewrite{K: "union", Ch: []*Rewrite{comp("a"), comp("b")}}, Sub: comp("c")}, Restr: []Restr{}},
		{T: "doc", R: "viewer", Rw: this, Restr: []Restr{{T: "group", Rel: "member"}}},
	}}
	cs := &Case{N: -2, Model: m}
	u := Subj{"user", "u", ""}
	for i := 0; i < n; i++ {
		g := Obj{"group", fmt.Sprintf("g%03d", i)}
		cs.Tuples = append(cs.Tuples, Tuple{O: g, R: "a", U: u, Cctx: Ctx{}})
		if i%3 == 0 {
			cs.Tuples[len(cs.Tuples)-1].R = "b" // a and b are disjoint: the union interleaves two streams
		}
		if i == 5 { // the subtract stream ends early: the rest of the base is drained in batches
			cs.Tuples = append(cs.Tuples, Tuple{O: g, R: "c", U: u, Cctx: Ctx{}})
		}
	}
	var reqs []Req
	for name, gi := range map[string]int{"early": 0, "second": 1, "mid": n / 2, "late": n - 1, "none": 5} {
		cs.Tuples = append(cs.Tuples, Tuple{O: Obj{"doc", name}, R: "viewer", U: Subj{"group", fmt.Sprintf("g%03d", gi), "member"}, Cctx: Ctx{}})
		reqs = append(reqs, Req{O: Obj{"doc", name}, R: "viewer", U: u, Ctx: Ctx{}})
	}
	return cs, reqs
}

// runWideCheck records Check answers of the production planner and of every forced strategy over a wide case.
func runWideCheck(ctx context.Context, v *Variants, rec *Recorder, run *Run, n int) {
	cs, reqs := wideCheckCase(n)
	if err := v.Base.Setup(ctx, cs.Model, cs.Tuples); err != nil {
		run.Inconclusive("wide check case setup failed: %v", err)
	}
	ts, mg, err := v.Base.Typesystem(ctx, cs.Model)
	if err != nil {
		run.Inconclusive("typesystem: %v", err)
	}
	rec.Setup(cs.SetupEv())
	for rep := 0; rep < 3; rep++ {
		for _, q := range reqs {
			for _, eng := range []string{"server", "v1:default", "v1:weight2", "v1:recursive"} {
				ev := &CheckEv{Eng: eng, O: q.O, R: q.R, U: q.U, Ctx: q.Ctx}
				v.Base.RunCheck(ctx, ev, ts, mg)
				rec.Add(ev)
				run.Evals++
			}
		}
	}
	run.Nontrivial(fmt.Sprintf("wide check case %d", n))
}
