package h

import (
	"context"
	"math/rand"
	"time"

	openfgav1 "github.com/openfga/api/proto/openfga/v1"

	"github.com/openfga/openfga/internal/condition"
	"github.com/openfga/openfga/internal/condition/eval"
)

// typed expression generator for the Cond.tla fragment
var condParamTypes = []string{"int", "uint", "string", "bool", "list<string>", "list<int>", "map<int>", "map<string>"}

func genParams(r *rand.Rand) []Param {
	n := 1 + r.Intn(3)
	var ps []Param
	names := []string{"p", "q", "w"}
	for i := 0; i < n; i++ {
		ps = append(ps, Param{N: names[i], Ty: pick(r, condParamTypes)})
	}
	return ps
}

func paramsOf(ps []Param, ty string) []Param {
	var out []Param
	for _, p := range ps {
		if p.Ty == ty {
			out = append(out, p)
		}
	}
	return out
}

// genBoolExpr draws a boolean expression over the parameters.
func genBoolExpr(r *rand.Rand, ps []Param, depth int) *Expr {
	if depth > 0 && chance(r, 0.4) {
		switch r.Intn(3) {
		case 0:
			return &Expr{K: "and", A: genBoolExpr(r, ps, depth-1), B: genBoolExpr(r, ps, depth-1)}
		case 1:
			return &Expr{K: "or", A: genBoolExpr(r, ps, depth-1), B: genBoolExpr(r, ps, depth-1)}
		default:
			return &Expr{K: "not", A: genBoolExpr(r, ps, depth-1)}
		}
	}
	for tries := 0; tries < 20; tries++ {
		p := pick(r, ps)
		switch p.Ty {
		case "int":
			return &Expr{K: pick(r, []string{"lt", "le", "gt", "ge", "eq", "ne"}), A: &Expr{K: "param", N: p.N}, B: &Expr{K: "lit", Ty: "int", V: int64(r.Intn(20) - 5)}}
		case "string":
			return &Expr{K: pick(r, []string{"eq", "ne"}), A: &Expr{K: "param", N: p.N}, B: &Expr{K: "lit", Ty: "string", V: pick(r, []string{"a", "b", ""})}}
		case "bool":
			return &Expr{K: "param", N: p.N}
		case "list<string>":
			if ss := paramsOf(ps, "string"); len(ss) > 0 {
				return &Expr{K: "in", A: &Expr{K: "param", N: pick(r, ss).N}, B: &Expr{K: "param", N: p.N}}
			}
			return &Expr{K: "in", A: &Expr{K: "lit", Ty: "string", V: "a"}, B: &Expr{K: "param", N: p.N}}
		case "list<int>":
			return &Expr{K: "in", A: &Expr{K: "lit", Ty: "int", V: int64(r.Intn(5))}, B: &Expr{K: "param", N: p.N}}
		case "map<int>":
			// arithmetic on the looked-up value: it must have been converted to the declared element type
			return &Expr{K: pick(r, []string{"lt", "ge", "eq"}), A: &Expr{K: "add", A: &Expr{K: "idx", N: pick(r, []string{"k", "j"}), A: &Expr{K: "param", N: p.N}}, B: &Expr{K: "lit", Ty: "int", V: int64(1)}},
				B: &Expr{K: "lit", Ty: "int", V: int64(r.Intn(6))}}
		case "map<string>":
			return &Expr{K: pick(r, []string{"eq", "ne"}), A: &Expr{K: "idx", N: pick(r, []string{"k", "j"}), A: &Expr{K: "param", N: p.N}}, B: &Expr{K: "lit", Ty: "string", V: pick(r, []string{"a", "b"})}}
		case "uint":
			// uint literals are written 3u in CEL; compare two uint parameters or skip
			if us := paramsOf(ps, "uint"); len(us) > 1 {
				return &Expr{K: pick(r, []string{"lt", "ge", "eq"}), A: &Expr{K: "param", N: us[0].N}, B: &Expr{K: "param", N: us[1].N}}
			}
			return &Expr{K: "eq", A: &Expr{K: "param", N: p.N}, B: &Expr{K: "param", N: p.N}}
		}
	}
	return &Expr{K: "lit", Ty: "bool", V: true}
}

func genValFor(r *rand.Rand, ty string, flavour string) Val {
	if flavour == "mistyped" {
		switch ty {
		case "int", "uint", "list<int>", "list<string>", "map<int>", "map<string>":
			return pick(r, []Val{StrVal("abc"), BoolVal(true), StrVal("")})
		case "string":
			return pick(r, []Val{NumVal(3), BoolVal(false), ListVal(StrVal("a"))})
		case "bool":
			return pick(r, []Val{StrVal("true"), NumVal(1)})
		}
	}
	switch ty {
	case "int":
		if chance(r, 0.05) { // an integer no int64 can hold: the conversion must fail, not clamp
			return StrVal(pick(r, []string{"9223372036854775808", "-9223372036854775809", "1000000000000000000000000000000"}))
		}
		if chance(r, 0.25) {
			return StrVal(itoa(int64(r.Intn(20) - 5))) // numeric string
		}
		return NumVal(int64(r.Intn(20) - 5))
	case "uint":
		if chance(r, 0.05) { // beyond uint64: the conversion must fail, not clamp
			return StrVal(pick(r, []string{"18446744073709551616", "1000000000000000000000000000000"}))
		}
		if chance(r, 0.2) {
			return NumVal(int64(-1 - r.Intn(3))) // negative: must fail
		}
		if chance(r, 0.2) {
			return StrVal(itoa(int64(r.Intn(9))))
		}
		if chance(r, 0.15) {
			return StrVal(itoa(int64(-1 - r.Intn(3)))) // negative numeric string: must fail
		}
		return NumVal(int64(r.Intn(9)))
	case "string":
		return StrVal(pick(r, []string{"a", "b", "", "5"}))
	case "bool":
		return BoolVal(chance(r, 0.5))
	case "list<string>":
		n := r.Intn(3)
		var vs []Val
		for i := 0; i < n; i++ {
			vs = append(vs, StrVal(pick(r, []string{"a", "b", "c"})))
		}
		if chance(r, 0.1) {
			vs = append(vs, NumVal(1)) // wrong element kind
		}
		return ListVal(vs...)
	case "list<int>":
		n := r.Intn(3)
		var vs []Val
		for i := 0; i < n; i++ {
			vs = append(vs, NumVal(int64(r.Intn(5))))
		}
		if chance(r, 0.1) {
			vs = append(vs, StrVal("x"))
		}
		return ListVal(vs...)
	case "map<int>", "map<string>":
		m := map[string]Val{}
		for _, k := range []string{"k", "j"} {
			if chance(r, 0.8) { // a key the expression looks up may be absent: evaluation fails
				switch {
				case ty == "map<string>":
					m[k] = StrVal(pick(r, []string{"a", "b", "5"}))
				case chance(r, 0.3):
					m[k] = StrVal(itoa(int64(r.Intn(6)))) // numeric string: converted like a scalar int
				default:
					m[k] = NumVal(int64(r.Intn(6)))
				}
			}
		}
		if chance(r, 0.1) {
			m["z"] = BoolVal(true) // wrong element kind
		}
		return Val{K: "map", V: m}
	}
	return Val{K: "null"}
}

func C25(run *Run) {
	r := rand.New(rand.NewSource(run.Seed))
	ctx := context.Background()
	n := run.Pick(4000, 60000)
	var events []any
	compiled := 0
	for i := 0; i < n; i++ {
		ps := genParams(r)
		cd := CondDef{Name: "cx", Params: ps, Expr: genBoolExpr(r, ps, 2)}
		cd.Cel = cd.Expr.CEL()
		ec, err := condition.NewCompiled(cd.ToProto())
		if err != nil {
			continue // the fragment generator produced something CEL rejects: not a C25 case
		}
		compiled++
		for k := 0; k < 3; k++ {
			req, tup := Ctx{}, Ctx{}
			for _, p := range ps {
				switch r.Intn(8) {
				case 0: // omitted everywhere
				case 1: // mistyped in the request
					req[p.N] = genValFor(r, p.Ty, "mistyped")
				case 2: // mistyped in the tuple
					tup[p.N] = genValFor(r, p.Ty, "mistyped")
				case 3: // both present (stored value must win)
					req[p.N] = genValFor(r, p.Ty, "")
					tup[p.N] = genValFor(r, p.Ty, "")
				case 4, 5:
					tup[p.N] = genValFor(r, p.Ty, "")
				default:
					req[p.N] = genValFor(r, p.Ty, "")
				}
			}
			if chance(r, 0.1) {
				req["undeclared"] = NumVal(1)
			}
			tk := &openfgav1.TupleKey{Object: "doc:1", Relation: "viewer", User: "user:a",
				Condition: &openfgav1.RelationshipCondition{Name: "cx", Context: tup.ToProto()}}
			var reqStruct = req.ToProto()
			var got string
			ok, err := func() (res bool, err error) {
				c, cancel := context.WithTimeout(ctx, 5*time.Second)
				defer cancel()
				return eval.EvaluateTupleCondition(c, tk, ec, reqStruct)
			}()
			switch {
			case err != nil:
				got = "E"
			case ok:
				got = "T"
			default:
				got = "F"
			}
			ev := map[string]any{"e": "Cond", "cond": cd, "req": normCtx(req), "tup": normCtx(tup), "got": got}
			events = append(events, ev)
			run.Evals++
			run.Nontrivial(hashOf(ev))
		}
	}
	run.AddSample(events[0])
	run.AddSample(events[len(events)/2])
	validatePure2(run, "CondTrace", events)
	run.Coverage["conditions_compiled"] = compiled
	run.Coverage["rule"] = "generated conditions over 1-3 parameters of types int, uint, string, bool, list<string>, list<int>, map<int>, map<string> with comparison / equality / membership / map lookup / addition / boolean operators (depth <= 2), compiled by the real CEL environment; three (request context, stored context) pairs each that agree, conflict, omit or mistype parameters (numeric strings, negative uints, wrong element kinds, undeclared names); eval.EvaluateTupleCondition's outcome (met / not met / error) judged by TLC against Cond.tla CondEval (stored value wins, conversion table, any declared parameter missing => fails); non-trivial = distinct evaluations"
	run.Assumptions = []string{"only the CEL fragment of spec/core/Cond.tla is generated; arbitrary CEL (macros, extension functions, timestamps, durations, ip addresses) is out of scope"}
}

// validatePure2 is validatePure for trace specs living in spec/core.
func validatePure2(run *Run, module string, events []any) {
	sum, err := ValidateTrace(CoreSpecDirs(), module, events, 16, func(int) bool { return true }, 20*time.Minute)
	if err != nil {
		run.Inconclusive("%s validation failed: %v", module, err)
	}
	for _, b := range sum.Bad {
		run.Classified(b.Cls, map[string]any{"prop": run.Prop, "class": b.Cls, "event": events[b.L], "ref": b.Ref}, "ref="+b.Ref+" "+hashOf(events[b.L]))
	}
	run.Coverage["judged_by_tlc"] = sum.Judged
	run.Coverage["verdict_classes"] = sum.Counts
	run.Coverage["traces_validated_against_impl"] = sum.Lines
}
