package h

import (
	"context"
	"fmt"
	"math/rand"
	"strings"
	"time"

	openfgav1 "github.com/openfga/api/proto/openfga/v1"
	"google.golang.org/grpc/codes"
	"google.golang.org/grpc/status"
	"google.golang.org/protobuf/proto"

	"github.com/openfga/openfga/pkg/server/config"
)

type valItem struct {
	T     Tuple `json:"t"`
	Bytes int   `json:"bytes"`
}

func ctxBytes(t Tuple) int {
	if t.C == "" {
		return 0
	}
	return proto.Size(t.Cctx.ToProto())
}

// candidate tuples over the model vocabulary plus malformed variants
func c18Candidates(r *rand.Rand, m *Model, n int) []Tuple {
	types := append([]string{}, m.Types...)
	types = append(types, "ghost")
	conds := []string{""}
	for _, c := range m.Conds {
		conds = append(conds, c.Name)
	}
	conds = append(conds, "ghostcond")
	var out []Tuple
	for len(out) < n {
		ot := types[r.Intn(len(types))]
		rels := append(append([]string{}, m.RelsOf(ot)...), "ghostrel")
		t := Tuple{O: Obj{ot, []string{"1", "2", "3", "*"}[r.Intn(13)%4]}, R: rels[r.Intn(len(rels))], Cctx: Ctx{}}
		if r.Intn(13) != 0 && t.O.ID == "*" {
			t.O.ID = "1"
		}
		ut := types[r.Intn(len(types))]
		switch r.Intn(6) {
		case 0:
			t.U = Subj{ut, "*", ""}
		case 1, 2:
			urels := append(append([]string{}, m.RelsOf(ut)...), "ghostrel")
			t.U = Subj{ut, []string{"1", "2"}[r.Intn(2)], urels[r.Intn(len(urels))]}
		default:
			t.U = Subj{ut, []string{"1", "2", "a"}[r.Intn(3)], ""}
		}
		// prefer subjects the relation's restrictions mention, so that condition / kind mismatches are frequent
		if def := m.Rel(t.O.T, t.R); def != nil && len(def.Restr) > 0 && r.Intn(3) != 0 {
			x := def.Restr[r.Intn(len(def.Restr))]
			switch r.Intn(6) {
			case 0:
				t.U = Subj{x.T, "*", ""}
			case 1:
				t.U = Subj{x.T, "1", ""}
			case 2:
				if rs := m.RelsOf(x.T); len(rs) > 0 {
					t.U = Subj{x.T, "1", rs[r.Intn(len(rs))]}
				}
			default:
				switch {
				case x.WC:
					t.U = Subj{x.T, "*", ""}
				case x.Rel != "":
					t.U = Subj{x.T, "2", x.Rel}
				default:
					t.U = Subj{x.T, "a", ""}
				}
			}
			if r.Intn(3) != 0 {
				t.C = x.Cond
			}
		}
		if r.Intn(12) == 0 { // a userset pointing at itself
			t.U = Subj{t.O.T, t.O.ID, t.R}
		}
		if t.C == "" && r.Intn(4) == 0 {
			t.C = conds[r.Intn(len(conds))]
		}
		if t.C != "" {
			var cd *CondDef
			for i := range m.Conds {
				if m.Conds[i].Name == t.C {
					cd = &m.Conds[i]
				}
			}
			if cd != nil {
				switch r.Intn(8) {
				case 0: // nothing stored
				case 1: // undeclared parameter
					t.Cctx = CtxFor(r, cd, "T")
					t.Cctx["undeclared"] = NumVal(1)
				case 2: // mistyped value
					t.Cctx = CtxFor(r, cd, "T")
					for k, v := range t.Cctx {
						if v.K == "str" {
							t.Cctx[k] = NumVal(7)
						} else {
							t.Cctx[k] = StrVal("zz")
						}
						break
					}
				case 3: // around the size limit (only string parameters can carry it)
					t.Cctx = Ctx{}
					for _, p := range cd.Params {
						if p.Ty == "string" {
							t.Cctx[p.N] = StrVal(strings.Repeat("x", config.DefaultWriteContextByteLimit-20+r.Intn(40)))
						}
					}
				default:
					t.Cctx = CtxFor(r, cd, []string{"T", "F"}[r.Intn(2)])
					if r.Intn(2) == 0 { // partial
						for k := range t.Cctx {
							delete(t.Cctx, k)
							break
						}
					}
				}
			}
		}
		out = append(out, t.Norm())
	}
	// the kind x condition matrix of every restriction: each subject kind of the restriction's type with each
	// condition any restriction of the relation names (or none), contexts satisfying the declared types
	for _, def := range m.Rels {
		cs := map[string]bool{"": true}
		for _, x := range def.Restr {
			cs[x.Cond] = true
		}
		seenT := map[string]bool{}
		for _, x := range def.Restr {
			if seenT[x.T] {
				continue
			}
			seenT[x.T] = true
			kinds := []Subj{{x.T, "a", ""}, {x.T, "*", ""}}
			for _, ur := range m.RelsOf(x.T) {
				kinds = append(kinds, Subj{x.T, "2", ur})
			}
			for _, u := range kinds {
				for c := range cs {
					if r.Intn(2) == 0 {
						continue
					}
					t := Tuple{O: Obj{def.T, "m" + fmt.Sprint(len(out))}, R: def.R, U: u, C: c, Cctx: Ctx{}}
					for i := range m.Conds {
						if m.Conds[i].Name == c {
							t.Cctx = CtxFor(r, &m.Conds[i], "T")
						}
					}
					out = append(out, t.Norm())
				}
			}
		}
	}
	// boundary of the context size limit on otherwise acceptable tuples
	for _, def := range m.Rels {
		for _, x := range def.Restr {
			if x.Cond != "c2" && x.Cond != "c3" {
				continue
			}
			u := Subj{x.T, "a", ""}
			if x.WC {
				u = Subj{x.T, "*", ""}
			} else if x.Rel != "" {
				u = Subj{x.T, "2", x.Rel}
			}
			for _, target := range []int{config.DefaultWriteContextByteLimit - 1, config.DefaultWriteContextByteLimit, config.DefaultWriteContextByteLimit + 1} {
				t := Tuple{O: Obj{def.T, "3"}, R: def.R, U: u, C: x.Cond, Cctx: Ctx{"s": StrVal(strings.Repeat("y", target))}}
				over := ctxBytes(t) - target
				t.Cctx["s"] = StrVal(strings.Repeat("y", target-over))
				if ctxBytes(t) == target {
					t.O.ID = fmt.Sprintf("sz%d", target)
					out = append(out, t.Norm())
				}
			}
		}
	}
	return out
}

func C18(run *Run) {
	ctx := context.Background()
	r := rand.New(rand.NewSource(run.Seed))
	v := NewVariants()
	defer v.Close()
	env := v.Base
	nCases := run.Pick(40, 500)
	var events []any
	cuts := map[int]bool{}
	oversize := 0
	for c := 0; c < nCases; c++ {
		cs, _ := GenCase(r, c, GenOpts{NoInvalid: true, MaxTuples: 6})
		// every other case is written as a schema 1.2 model: what a tuple may be does not depend on it
		ModelSchemaVersion = []string{"1.1", "1.2"}[c%2]
		err := env.Setup(ctx, cs.Model, cs.Tuples)
		ModelSchemaVersion = "1.1"
		if err != nil {
			run.Inconclusive("setup failed: %v", err)
		}
		ts, mg, err := env.Typesystem(ctx, cs.Model)
		if err != nil {
			run.Inconclusive("typesystem: %v", err)
		}
		stored := map[string]bool{}
		for _, t := range cs.Tuples {
			stored[t.Key()] = true
		}
		cuts[len(events)] = true
		events = append(events, map[string]any{"e": "Setup", "model": cs.Model, "tuples": normTuples(cs.Tuples), "limit": config.DefaultWriteContextByteLimit})
		cands := c18Candidates(r, cs.Model, run.Pick(60, 100))
		for i := 0; i < len(cands); {
			// ---- Write with one or two new keys
			n := 1 + r.Intn(2)
			var wrs []valItem
			req := &openfgav1.WriteRequest{StoreId: env.StoreID, AuthorizationModelId: env.ModelID, Writes: &openfgav1.WriteRequestWrites{}}
			seen := map[string]bool{}
			for ; i < len(cands) && len(wrs) < n; i++ {
				t := cands[i]
				if stored[t.Key()] || seen[t.Key()] {
					continue
				}
				seen[t.Key()] = true
				wrs = append(wrs, valItem{T: t, Bytes: ctxBytes(t)})
				req.Writes.TupleKeys = append(req.Writes.TupleKeys, t.ToProto())
			}
			if len(wrs) == 0 {
				continue
			}
			_, werr := env.S.Write(ctx, req)
			ev := map[string]any{"e": "TryWrite", "wrs": wrs, "accepted": werr == nil}
			if werr != nil {
				ev["errmsg"] = werr.Error()
				if st, ok := status.FromError(werr); !ok || st.Code() != codes.Code(openfgav1.ErrorCode_validation_error) {
					// not a validation verdict (e.g. storage failure): the run cannot be judged
					run.Inconclusive("Write failed with a non-validation error: %v", werr)
				}
			} else {
				for _, w := range wrs {
					stored[w.T.Key()] = true
				}
			}
			events = append(events, ev)
			run.Evals++
			run.Nontrivial(hashOf([]any{cs.Model, wrs}))
			// ---- the same tuples as contextual tuples of a Check
			for _, w := range wrs {
				q := &CheckEv{Eng: "server", O: w.T.O, R: w.T.R, U: Subj{"user", "a", ""}, Ctxt: []Tuple{w.T}}
				if cs.Model.Rel(w.T.O.T, w.T.R) == nil || w.T.O.ID == "*" {
					// the request itself must be well-formed: ask about some existing relation
					q.O, q.R = Obj{"doc", "1"}, cs.Model.RelsOf("doc")[0]
				}
				env.RunCheck(ctx, q, ts, mg)
				// refused as a tuple (not: accepted and then failing to evaluate its condition)
				accepted := !(q.Got == "ERR" && strings.Contains(strings.ToLower(q.Err), "invalid tuple"))
				events = append(events, map[string]any{"e": "TryContextual", "x": w, "accepted": accepted, "errmsg": q.Err})
				if w.Bytes > config.DefaultWriteContextByteLimit {
					oversize++
				}
				run.Evals++
			}
			if r.Intn(4) == 0 || i >= len(cands) {
				dump, err := env.ReadAll(ctx)
				if err != nil {
					run.Inconclusive("read back: %v", err)
				}
				events = append(events, map[string]any{"e": "Dump", "tuples": normTuples(dump)})
			}
		}
		if c < 2 {
			run.AddSample(events[len(events)-2])
		}
	}
	sum, err := ValidateTrace(CoreSpecDirs(), "ValidTrace", events, 8, func(i int) bool { return cuts[i] }, 20*time.Minute)
	if err != nil {
		run.Inconclusive("ValidTrace validation failed: %v", err)
	}
	for _, b := range sum.Bad {
		run.Classified(b.Cls, map[string]any{"prop": run.Prop, "class": b.Cls, "event": events[b.L], "why": b.Ref}, fmt.Sprintf("%s: %s", b.Ref, jsonOf(events[b.L])))
	}
	run.Coverage["judged_by_tlc"] = sum.Judged
	run.Coverage["verdict_classes"] = sum.Counts
	run.Coverage["traces_validated_against_impl"] = sum.Lines
	run.Coverage["cases"] = nCases
	run.Coverage["oversize_context_candidates"] = oversize
	run.Coverage["rule"] = "generated models (C01 generator); per model 60-100 candidate tuples over the model vocabulary plus unknown types / relations / conditions, wildcard objects, wildcards and usersets in the user position, subjects matching a restriction's type but not its kind or condition, self-referencing usersets, contexts that are empty, partial, mistyped, carry undeclared parameters or sit around the 32 KiB limit; each candidate is submitted through Write (1-2 new keys per request) and as a contextual tuple of a Check; TLC (ValidTrace.tla) judges acceptance against the model's rule and compares the store read back after the requests; non-trivial = distinct (model, request)"
	run.Assumptions = []string{"syntactically malformed strings are the subject of C29, not of this check", "contextual acceptance = the Check did not fail with a validation error"}
}
