package h

import (
	"context"
	"database/sql"
	"encoding/json"
	"fmt"
	"math/rand"
	"os"
	"os/exec"
	"path/filepath"
	"sort"
	"strings"
	"time"

	openfgav1 "github.com/openfga/api/proto/openfga/v1"

	"github.com/openfga/openfga/pkg/server"
	"github.com/openfga/openfga/pkg/storage"
	"github.com/openfga/openfga/pkg/storage/memory"
	"github.com/openfga/openfga/pkg/storage/migrate"
	"github.com/openfga/openfga/pkg/storage/sqlcommon"
	"github.com/openfga/openfga/pkg/storage/sqlite"
)

var StoreSpecDirs = func() []string {
	return []string{filepath.Join(VerifRoot(), "spec", "core"), filepath.Join(VerifRoot(), "spec", "store")}
}

// ---------------------------------------------------------------- id ranks

// IDRef is an opaque server-issued identifier (ULID) that is rendered in traces as
// its rank among all identifiers of the trace (lexicographic order), because TLC
// can neither order strings nor hold 80-bit integers.
type IDRef string

type idTable struct{ rank map[string]int }

var ids = &idTable{}

func (r IDRef) MarshalJSON() ([]byte, error) {
	if ids.rank == nil {
		return json.Marshal(string(r))
	}
	n, ok := ids.rank[string(r)]
	if !ok {
		return nil, fmt.Errorf("unranked id %q", string(r))
	}
	return json.Marshal(n)
}

func collectIDs(v any, out map[string]bool) {
	switch x := v.(type) {
	case IDRef:
		out[string(x)] = true
	case []IDRef:
		for _, e := range x {
			out[string(e)] = true
		}
	case [][]IDRef:
		for _, p := range x {
			for _, e := range p {
				out[string(e)] = true
			}
		}
	case map[string]any:
		for _, e := range x {
			collectIDs(e, out)
		}
	case []any:
		for _, e := range x {
			collectIDs(e, out)
		}
	}
}

// RankIDs computes the rank table over all IDRefs of the events.
func RankIDs(events []any) {
	set := map[string]bool{}
	for _, e := range events {
		collectIDs(e, set)
	}
	all := make([]string, 0, len(set))
	for k := range set {
		all = append(all, k)
	}
	sort.Strings(all)
	ids.rank = map[string]int{}
	for i, k := range all {
		ids.rank[k] = i + 1
	}
}

// ---------------------------------------------------------------- environment

type StoreEnv struct {
	Backend string
	DS      storage.OpenFGADatastore
	S       *server.Server
	DBPath  string
}

func openSqlite(path string, fault bool) (storage.OpenFGADatastore, error) {
	uri, err := sqlite.PrepareDSN("file:" + path)
	if err != nil {
		return nil, err
	}
	drv := "sqlite"
	if fault {
		drv = FaultDriverName()
	}
	db, err := sql.Open(drv, uri)
	if err != nil {
		return nil, err
	}
	return sqlite.NewWithDB(db, sqlcommon.NewConfig())
}

func NewStoreEnv(backend string, opts ...server.OpenFGAServiceV1Option) (*StoreEnv, error) {
	e := &StoreEnv{Backend: backend}
	switch backend {
	case "memory":
		e.DS = memory.New()
	case "sqlite":
		dir := Scratch("sqlite")
		e.DBPath = filepath.Join(dir, "fga.db")
		if err := migrate.RunMigrations(migrate.MigrationConfig{Engine: "sqlite", URI: "file:" + e.DBPath, Timeout: 10 * time.Second, PingTimeout: 5 * time.Second}); err != nil {
			return nil, fmt.Errorf("migrate: %w", err)
		}
		ds, err := openSqlite(e.DBPath, true)
		if err != nil {
			return nil, err
		}
		e.DS = ds
	default:
		return nil, fmt.Errorf("unknown backend %s", backend)
	}
	all := append([]server.OpenFGAServiceV1Option{server.WithDatastore(e.DS)}, opts...)
	e.S = server.MustNewServerWithOpts(all...)
	return e, nil
}

func (e *StoreEnv) Close() {
	e.S.Close()
	e.DS.Close()
	if e.DBPath != "" {
		os.RemoveAll(filepath.Dir(e.DBPath))
	}
}

// ---------------------------------------------------------------- the store model and its tuple universe

func StoreModel() *Model {
	c1 := condPool[0]
	return &Model{
		Types: []string{"user", "group", "folder", "doc", "do"},
		Conds: []CondDef{c1},
		Rels: []RelDef{
			{T: "do", R: "viewer", Rw: &Rewrite{K: "this"}, Restr: []Restr{{T: "user"}}}, // a type whose name is a prefix of another's
			{T: "group", R: "member", Rw: &Rewrite{K: "this"}, Restr: []Restr{{T: "user"}, {T: "user", Cond: "c1"}}},
			{T: "group", R: "admin", Rw: &Rewrite{K: "this"}, Restr: []Restr{{T: "user"}}}, // sibling usersets group:1#member / group:1#admin differ in the user relation only
			{T: "folder", R: "parent", Rw: &Rewrite{K: "this"}, Restr: []Restr{{T: "folder"}}},
			{T: "folder", R: "viewer", Rw: &Rewrite{K: "this"}, Restr: []Restr{{T: "user"}}},
			{T: "doc", R: "parent", Rw: &Rewrite{K: "this"}, Restr: []Restr{{T: "folder"}}},
			{T: "doc", R: "editor", Rw: &Rewrite{K: "this"}, Restr: []Restr{{T: "user"}}},
			{T: "doc", R: "viewer", Rw: &Rewrite{K: "union", Ch: []*Rewrite{{K: "this"}, {K: "computed", Rel: "editor"}, {K: "ttu", TS: "parent", Rel: "viewer"}}},
				Restr: []Restr{{T: "user"}, {T: "user", Cond: "c1"}, {T: "group", Rel: "member"}, {T: "group", Rel: "admin"}, {T: "user", WC: true}}},
		},
	}
}

func tp(o, r, u string) Tuple { return Tuple{O: ParseObj(o), R: r, U: ParseSubj(u), Cctx: Ctx{}} }

// ValidKeys is the small universe of writable tuple keys.
var ValidKeys = []Tuple{
	tp("doc:1", "viewer", "user:a"), tp("doc:1", "viewer", "user:b"), tp("doc:1", "viewer", "group:1#member"),
	tp("doc:1", "viewer", "user:*"), tp("doc:2", "viewer", "user:a"), tp("group:1", "member", "user:a"),
	tp("doc:1", "parent", "folder:1"), tp("folder:1", "viewer", "user:a"), tp("do:1", "viewer", "user:a"),
	tp("doc:1", "viewer", "group:1#admin"),
}

// condVariants returns the tuple with each admissible / inadmissible condition variant.
func condVariant(r *rand.Rand, t Tuple) Tuple {
	canCond := (t.O.T == "doc" && t.R == "viewer" && t.U.T == "user" && !t.U.IsWild()) || (t.O.T == "group" && t.U.T == "user")
	if !canCond {
		return t
	}
	switch r.Intn(5) {
	case 0:
		t.C, t.Cctx = "c1", Ctx{"x": NumVal(1)}
	case 1:
		t.C, t.Cctx = "c1", Ctx{"x": NumVal(2)}
	case 2:
		t.C, t.Cctx = "c1", Ctx{} // no stored context
	}
	return t
}

// InvalidTuples are tuples Write must refuse for StoreModel (C18).
func InvalidTuples() []Tuple {
	with := func(t Tuple, c string, cx Ctx) Tuple { t.C, t.Cctx = c, cx; return t }
	return []Tuple{
		tp("doc:1", "viewer", "folder:1"),               // type not in the restrictions
		tp("doc:1", "editor", "user:*"),                 // wildcard not allowed
		tp("doc:1", "parent", "user:a"),                 // wrong type on a tupleset relation
		tp("doc:1", "parent", "folder:1#viewer"),        // userset on a tupleset relation
		tp("doc:1", "viewer", "doc:1#viewer"),           // userset pointing at itself
		tp("doc:1", "viewer", "group:1#ghost"),          // unknown userset relation
		tp("doc:1", "ghost", "user:a"),                  // unknown relation
		tp("ghost:1", "viewer", "user:a"),               // unknown type
		tp("doc:1", "viewer", "ghost:a"),                // unknown user type
		with(tp("group:1", "member", "user:b"), "c9", Ctx{}),                         // unknown condition
		with(tp("doc:1", "editor", "user:a"), "c1", Ctx{"x": NumVal(1)}),             // condition not allowed by the restriction
		with(tp("doc:1", "viewer", "user:*"), "c1", Ctx{"x": NumVal(1)}),             // condition on a restriction that carries none
		with(tp("doc:1", "viewer", "group:1#member"), "c1", Ctx{"x": NumVal(1)}),     // same, userset
		with(tp("doc:1", "viewer", "user:a"), "c1", Ctx{"x": StrVal("abc")}),         // mistyped context
		with(tp("doc:1", "viewer", "user:a"), "c1", Ctx{"y": NumVal(1)}),             // undeclared parameter
		tp("folder:1", "parent", "folder:*"),                                         // wildcard on a tupleset relation
	}
}

// ---------------------------------------------------------------- events

type WriteEv struct {
	E      string  `json:"e"`
	SID    IDRef   `json:"sid"`
	Dels   []Tuple `json:"dels"`
	Wrs    []Tuple `json:"wrs"`
	OnDup  string  `json:"onDup"`
	OnMiss string  `json:"onMiss"`
	Got    string  `json:"got"`
	Errk   string  `json:"errk"`
	Err    string  `json:"errmsg"`
	Fault  string  `json:"fault"`
	At     int     `json:"at"`
	Bound  string  `json:"boundary"`
}

type Change struct {
	Op string `json:"op"`
	T  Tuple  `json:"t"`
}

type DumpEv struct {
	E       string   `json:"e"`
	SID     IDRef    `json:"sid"`
	Tuples  []Tuple  `json:"tuples"`
	Changes []Change `json:"changes"`
}

type StoreRec struct {
	Backend string
	Events  []any
	resets  []int
}

func (r *StoreRec) Add(ev any) { r.Events = append(r.Events, ev) }
func (r *StoreRec) Reset() {
	r.resets = append(r.resets, len(r.Events))
	r.Events = append(r.Events, map[string]any{"e": "Reset"})
}

func optStr(s string) string {
	if s == "" {
		return "error"
	}
	return s
}

// apiWrite performs a Write through the server API and records the outcome.
func (e *StoreEnv) apiWrite(ctx context.Context, sid, mid string, ev *WriteEv) {
	ev.E = "Write"
	ev.SID = IDRef(sid)
	ev.Dels, ev.Wrs = normTuples(ev.Dels), normTuples(ev.Wrs)
	req := &openfgav1.WriteRequest{StoreId: sid, AuthorizationModelId: mid}
	if len(ev.Wrs) > 0 {
		w := &openfgav1.WriteRequestWrites{OnDuplicate: ev.OnDup}
		for _, t := range ev.Wrs {
			w.TupleKeys = append(w.TupleKeys, t.ToProto())
		}
		req.Writes = w
	}
	if len(ev.Dels) > 0 {
		d := &openfgav1.WriteRequestDeletes{OnMissing: ev.OnMiss}
		for _, t := range ev.Dels {
			d.TupleKeys = append(d.TupleKeys, &openfgav1.TupleKeyWithoutCondition{Object: t.O.String(), Relation: t.R, User: t.U.String()})
		}
		req.Deletes = d
	}
	ev.OnDup, ev.OnMiss = optStr(ev.OnDup), optStr(ev.OnMiss)
	_, err := e.S.Write(ctx, req)
	if err != nil {
		ev.Got, ev.Errk, ev.Err = "fail", ErrKind(err), err.Error()
	} else {
		ev.Got = "ok"
	}
}

// Dump reads the whole store through the public API.
func (e *StoreEnv) Dump(ctx context.Context, sid string) (*DumpEv, error) {
	d := &DumpEv{E: "Dump", SID: IDRef(sid), Tuples: []Tuple{}, Changes: []Change{}}
	token := ""
	for {
		resp, err := e.S.Read(ctx, &openfgav1.ReadRequest{StoreId: sid, ContinuationToken: token})
		if err != nil {
			return nil, err
		}
		for _, t := range resp.GetTuples() {
			d.Tuples = append(d.Tuples, TupleFromProto(t.GetKey()))
		}
		if token = resp.GetContinuationToken(); token == "" {
			break
		}
	}
	token = ""
	for {
		resp, err := e.S.ReadChanges(ctx, &openfgav1.ReadChangesRequest{StoreId: sid, ContinuationToken: token})
		if err != nil {
			return nil, err
		}
		if len(resp.GetChanges()) == 0 {
			break
		}
		for _, c := range resp.GetChanges() {
			op := "write"
			if c.GetOperation() == openfgav1.TupleOperation_TUPLE_OPERATION_DELETE {
				op = "delete"
			}
			d.Changes = append(d.Changes, Change{Op: op, T: TupleFromProto(c.GetTupleKey())})
		}
		token = resp.GetContinuationToken()
	}
	return d, nil
}

func (e *StoreEnv) newStore(ctx context.Context, rec *StoreRec, name string, m *Model) (sid, mid string, err error) {
	st, err := e.S.CreateStore(ctx, &openfgav1.CreateStoreRequest{Name: name})
	if err != nil {
		return "", "", err
	}
	sid = st.GetId()
	rec.Add(map[string]any{"e": "CreateStore", "sid": IDRef(sid), "name": name})
	pm := m.ToProto()
	wm, err := e.S.WriteAuthorizationModel(ctx, &openfgav1.WriteAuthorizationModelRequest{StoreId: sid, SchemaVersion: "1.1",
		TypeDefinitions: pm.GetTypeDefinitions(), Conditions: pm.GetConditions()})
	if err != nil {
		return "", "", err
	}
	mid = wm.GetAuthorizationModelId()
	rec.Add(map[string]any{"e": "WriteModel", "sid": IDRef(sid), "mid": IDRef(mid), "ok": true, "model": m})
	return sid, mid, nil
}

// genWriteReq draws a request biased by the current content cur of the target store
// (as seen in its last dump): writes of existing keys with the same or a different
// condition, deletes of existing and of missing keys, so that the duplicate / missing /
// condition-conflict branches of every option combination are exercised.
func genWriteReq(r *rand.Rand, allowInvalid bool, cur []Tuple) *WriteEv {
	ev := &WriteEv{}
	used := map[string]bool{}
	nd, nw := r.Intn(3), r.Intn(4)
	if nd+nw == 0 && chance(r, 0.9) {
		nw = 1
	}
	for i := 0; i < nd; i++ {
		t := pick(r, ValidKeys)
		if len(cur) > 0 && chance(r, 0.6) {
			t = pick(r, cur)
			t.C, t.Cctx = "", Ctx{}
		}
		if used[t.Key()] && chance(r, 0.8) { // mostly avoid (but sometimes produce) a key twice in one request
			continue
		}
		used[t.Key()] = true
		ev.Dels = append(ev.Dels, t)
	}
	for i := 0; i < nw; i++ {
		t := condVariant(r, pick(r, ValidKeys))
		if len(cur) > 0 {
			switch x := r.Intn(10); {
			case x < 3: // exact duplicate of an existing tuple
				t = pick(r, cur)
			case x < 5: // existing key, (probably) different condition
				t = condVariant(r, pick(r, cur))
			}
		}
		if allowInvalid && chance(r, 0.08) {
			t = pick(r, InvalidTuples())
		}
		if used[t.Key()] && chance(r, 0.8) {
			continue
		}
		used[t.Key()] = true
		ev.Wrs = append(ev.Wrs, t)
	}
	ev.OnDup = pick(r, []string{"", "error", "ignore", "ignore"})
	ev.OnMiss = pick(r, []string{"", "error", "ignore", "ignore"})
	return ev
}

// ---------------------------------------------------------------- C12

// C12 drives random write histories through Server.Write on both backends, dumps the
// store after every request, and (sqlite) enumerates every statement boundary of each
// write transaction as a failure point (error before / after the statement) and as a
// crash point (child process killed with SIGKILL, database file reopened).
func C12(run *Run) {
	ctx := context.Background()
	if run.Replay != "" && replayHasHistory(run.Replay) {
		replayStore(run)
		return
	}
	concWritesProbe(run) // racing Write requests must be explainable by a serial order (ConcWriteTrace.tla)
	r := rand.New(rand.NewSource(run.Seed))
	var recs []*StoreRec
	faultRuns, crashRuns, boundaries := 0, 0, map[string]int{}
	histories := run.Pick(12, 150)
	steps := run.Pick(14, 25)
	for _, backend := range []string{"memory", "sqlite"} {
		env, err := NewStoreEnv(backend)
		if err != nil {
			run.Inconclusive("cannot create %s backend: %v", backend, err)
		}
		rec := &StoreRec{Backend: backend}
		recs = append(recs, rec)
		nh := histories
		if backend == "memory" {
			nh = histories * 5 // in-memory histories are cheap
		}
		for h := 0; h < nh; h++ {
			rec.Reset()
			sid, mid, err := env.newStore(ctx, rec, fmt.Sprintf("c12-%s-%d", backend, h), StoreModel())
			if err != nil {
				run.Inconclusive("store setup: %v", err)
			}
			// a second store with the same names, to observe isolation
			sid2, mid2, err := env.newStore(ctx, rec, fmt.Sprintf("c12-%s-%d-other", backend, h), StoreModel())
			if err != nil {
				run.Inconclusive("store setup: %v", err)
			}
			cur := map[string][]Tuple{}
			for s := 0; s < steps; s++ {
				target, tm := sid, mid
				if chance(r, 0.2) {
					target, tm = sid2, mid2
				}
				ev := genWriteReq(r, true, cur[target])
				faultMode := ""
				if backend == "sqlite" && h < run.Pick(4, 40) && chance(r, 0.5) {
					faultMode = pick(r, []string{"fail-pre", "fail-post"})
				}
				if faultMode == "" {
					env.apiWrite(ctx, target, tm, ev)
					rec.Add(ev)
					run.Evals++
				} else {
					// enumerate every boundary k = 1, 2, ... until the write runs undisturbed
					for k := 1; k < 40; k++ {
						fe := *ev
						Inj.Arm(faultMode, k)
						env.apiWrite(ctx, target, tm, &fe)
						trig, _, log := Inj.Disarm()
						if !trig {
							rec.Add(&fe)
							run.Evals++
							break
						}
						fe.Fault, fe.At, fe.Bound = faultMode, k, log[len(log)-1]
						boundaries[faultMode+":"+fe.Bound]++
						rec.Add(&fe)
						faultRuns++
						run.Evals++
						d, err := env.Dump(ctx, target)
						if err != nil {
							run.Inconclusive("dump: %v", err)
						}
						rec.Add(d)
					}
				}
				for _, s := range []string{sid, sid2} {
					d, err := env.Dump(ctx, s)
					if err != nil {
						run.Inconclusive("dump: %v", err)
					}
					rec.Add(d)
					cur[s] = d.Tuples
				}
				run.Nontrivial(hashOf([]any{backend, ev.Dels, ev.Wrs, ev.OnDup, ev.OnMiss, faultMode}))
			}
			// crash points: kill a child process at every boundary of one more write
			if backend == "sqlite" && h < run.Pick(2, 20) {
				ev := genWriteReq(r, false, cur[sid])
				// the child writes at the datastore interface, below the request validation of the
				// Write command, so only well-formed requests (no key twice) are used here
				for len(ev.Wrs) == 0 || !wellFormed(ev) {
					ev = genWriteReq(r, false, cur[sid])
				}
				n := crashEnumerate(ctx, run, env, rec, sid, mid, ev, boundaries)
				crashRuns += n
			}
		}
		env.Close()
	}
	total := &TraceSummary{Counts: map[string]int{}}
	for _, rec := range recs {
		sum := validateStoreTrace(run, rec)
		total.Judged += sum.Judged
		total.Lines += sum.Lines
		total.Distinct += sum.Distinct
		total.Generated += sum.Generated
		for k, v := range sum.Counts {
			total.Counts[rec.Backend+":"+k] += v
		}
	}
	// design-level model (exhaustive, small constants)
	mc := runStoreModel(run)
	run.Coverage["states"] = mc.Distinct
	run.Coverage["transitions"] = mc.Generated
	run.Coverage["traces_validated_against_impl"] = histories * 2
	run.Coverage["model_config"] = "FGAStoreModel_small.cfg: 2 keys x 2 condition variants, requests <= 2 deletes + <= 2 writes x 4 option combinations, changelog <= 4 entries, SQL transaction with abort before commit; invariants TypeOK LogFaithful PagesCover, action properties Atomic AppendOnly"
	run.Coverage["trace_events_judged"] = total.Judged
	run.Coverage["verdict_classes"] = total.Counts
	run.Coverage["fault_injected_writes"] = faultRuns
	run.Coverage["crash_injected_writes"] = crashRuns
	run.Coverage["boundaries_hit"] = boundaries
	run.Coverage["rule"] = "random write histories (0-2 deletes, 0-3 writes per request over 8 keys x 4 condition variants, invalid tuples mixed in, every on_duplicate/on_missing combination, keys repeated inside one request) through Server.Write on memory and sqlite, two stores with identical names per history; after every request both stores are dumped (Read + ReadChanges) and compared with the StoreTrace state machine; sqlite: every statement boundary of sampled writes failed before/after execution, and killed by SIGKILL in a child process; non-trivial = distinct (backend, request, fault mode)"
	run.AddSample(recs[0].Events[len(recs[0].Events)-3])
	run.AddSample(recs[1].Events[len(recs[1].Events)-3])
	run.Assumptions = []string{"sqlite (modernc, WAL) stands for the SQL backends; mysql/postgres need Docker and cannot run here", "crash = SIGKILL of the writing process at a driver-call boundary; power loss/fsync behaviour of the file system is not modelled"}
}

func validateStoreTrace(run *Run, rec *StoreRec) *TraceSummary {
	RankIDs(rec.Events)
	defer func() { ids.rank = nil }()
	isReset := func(i int) bool {
		m, ok := rec.Events[i].(map[string]any)
		return ok && m["e"] == "Reset"
	}
	sum, err := ValidateTrace(StoreSpecDirs(), "StoreTrace", rec.Events, 16, isReset, 20*time.Minute)
	if err != nil {
		run.Inconclusive("store trace validation failed (%s): %v", rec.Backend, err)
	}
	for _, b := range sum.Bad {
		// replay file: the history from its Reset to the offending event
		lo := 0
		for _, x := range rec.resets {
			if x <= b.L {
				lo = x
			}
		}
		hist := rec.Events[lo : b.L+1]
		raw, _ := json.Marshal(hist)
		var generic any
		json.Unmarshal(raw, &generic)
		evs, _ := json.Marshal(rec.Events[b.L])
		s := string(evs)
		if len(s) > 700 {
			s = s[:700] + "…"
		}
		run.Classified(b.Cls, map[string]any{"prop": run.Prop, "class": b.Cls, "backend": rec.Backend, "history": generic, "ref": b.Ref},
			fmt.Sprintf("backend=%s ref=%s event=%s", rec.Backend, b.Ref, s))
	}
	return sum
}

func runStoreModel(run *Run) *TLCOut {
	cfg := "FGAStoreModel_small.cfg"
	if run.Thorough() {
		cfg = "FGAStoreModel_med.cfg"
	}
	out, err := TLCRun{SpecDirs: []string{filepath.Join(VerifRoot(), "spec", "store")}, Module: "FGAStoreModel", Config: cfg, Workers: 8, HeapMB: 8000, Timeout: 25 * time.Minute}.Run()
	if err != nil || out.TimedOut {
		run.Inconclusive("design-level model check failed to run: %v %s", err, tail(out))
	}
	if out.Violated != "" {
		// a design-level counterexample is not a verdict about the code: report as inconclusive (DESIGN 2.7)
		run.Inconclusive("design-level model FGAStoreModel violates %s (model defect, not a verdict about openfga)\n%s", out.Violated, tail(out))
	}
	if !strings.Contains(out.Stdout, "Model checking completed. No error has been found") {
		run.Inconclusive("design-level model check did not complete\n%s", tail(out))
	}
	return out
}

// crashEnumerate kills a child process at every boundary of the datastore write for ev.
func crashEnumerate(ctx context.Context, run *Run, env *StoreEnv, rec *StoreRec, sid, mid string, ev *WriteEv, boundaries map[string]int) int {
	n := 0
	self, err := os.Executable()
	if err != nil {
		run.Inconclusive("cannot find own executable: %v", err)
	}
	for k := 1; k < 40; k++ {
		ce := *ev
		ce.E, ce.SID = "Write", IDRef(sid)
		ce.Dels, ce.Wrs = normTuples(ce.Dels), normTuples(ce.Wrs)
		ce.OnDup, ce.OnMiss = optStr(ce.OnDup), optStr(ce.OnMiss)
		payload, _ := json.Marshal(map[string]any{"db": env.DBPath, "store": sid, "at": k, "dels": ce.Dels, "wrs": ce.Wrs, "onDup": ce.OnDup, "onMiss": ce.OnMiss})
		cmd := exec.Command(self, "crash-child")
		cmd.Stdin = strings.NewReader(string(payload))
		cmd.Env = append(os.Environ(), "VERIF_CHILD=1")
		out, err := cmd.CombinedOutput()
		status := strings.TrimSpace(string(out))
		killed := err != nil && !strings.HasPrefix(status, "DONE")
		if !killed {
			// the child finished the write without reaching boundary k
			if strings.HasPrefix(status, "DONE ok") {
				ce.Got = "ok"
			} else {
				ce.Got, ce.Err = "fail", status
			}
			rec.Add(&ce)
			d, derr := env.Dump(ctx, sid)
			if derr != nil {
				run.Inconclusive("dump after crash child: %v", derr)
			}
			rec.Add(d)
			return n
		}
		ce.Got, ce.Fault, ce.At = "fail", "crash", k
		boundaries["crash"]++
		rec.Add(&ce)
		n++
		run.Evals++
		d, derr := env.Dump(ctx, sid)
		if derr != nil {
			run.Inconclusive("dump after crash: %v", derr)
		}
		rec.Add(d)
	}
	return n
}

// CrashChild is the body of the child process: open the database file with the
// fault driver armed to SIGKILL the process at boundary k, and perform the write
// directly on the datastore.
func CrashChild() {
	var p struct {
		DB     string  `json:"db"`
		Store  string  `json:"store"`
		At     int     `json:"at"`
		Dels   []Tuple `json:"dels"`
		Wrs    []Tuple `json:"wrs"`
		OnDup  string  `json:"onDup"`
		OnMiss string  `json:"onMiss"`
	}
	if err := json.NewDecoder(os.Stdin).Decode(&p); err != nil {
		fmt.Println("DONE decode error", err)
		os.Exit(3)
	}
	ds, err := openSqlite(p.DB, true)
	if err != nil {
		fmt.Println("DONE open error", err)
		os.Exit(3)
	}
	var dels storage.Deletes
	var wrs storage.Writes
	for _, t := range p.Dels {
		dels = append(dels, &openfgav1.TupleKeyWithoutCondition{Object: t.O.String(), Relation: t.R, User: t.U.String()})
	}
	for _, t := range p.Wrs {
		wrs = append(wrs, t.ToProto())
	}
	var opts []storage.TupleWriteOption
	if p.OnDup == "ignore" {
		opts = append(opts, storage.WithOnDuplicateInsert(storage.OnDuplicateInsertIgnore))
	}
	if p.OnMiss == "ignore" {
		opts = append(opts, storage.WithOnMissingDelete(storage.OnMissingDeleteIgnore))
	}
	Inj.Arm("kill", p.At)
	err = ds.Write(context.Background(), p.Store, dels, wrs, opts...)
	Inj.Disarm()
	if err != nil {
		fmt.Println("DONE fail", err)
		os.Exit(0)
	}
	fmt.Println("DONE ok")
	os.Exit(0)
}
