package h

import (
	"context"
	"fmt"
	"math/rand"
	"strings"
	"sync"
	"time"

	openfgav1 "github.com/openfga/api/proto/openfga/v1"

	"github.com/openfga/openfga/internal/verifhook"
	"github.com/openfga/openfga/pkg/storage/memory"
)

// ---------------------------------------------------------------- hook tracer

type hookEvent struct {
	Seq  uint64
	Name string
	Args []any
	At   time.Time
}

type HookTracer struct {
	mu     sync.Mutex
	events []hookEvent
}

func (t *HookTracer) Event(seq uint64, name string, args []any) {
	t.mu.Lock()
	t.events = append(t.events, hookEvent{Seq: seq, Name: name, Args: args, At: time.Now()})
	t.mu.Unlock()
}

// Mark returns the number of events recorded so far.
func (t *HookTracer) Mark() int {
	t.mu.Lock()
	defer t.mu.Unlock()
	return len(t.events)
}

// RunCompletedAfter reports whether, among the events after mark, some cache
// controller run for the store began and (the same or a later) run ended after it.
func (t *HookTracer) RunCompletedAfter(mark int, store string) bool {
	t.mu.Lock()
	defer t.mu.Unlock()
	began := false
	for _, e := range t.events[mark:] {
		if len(e.Args) == 0 || fmt.Sprint(e.Args[0]) != store {
			continue
		}
		if e.Name == "cc.run.begin" {
			began = true
		}
		if e.Name == "cc.run.end" && began {
			return true
		}
	}
	return false
}

// Idle reports whether every run that began has ended.
func (t *HookTracer) Idle(store string) bool {
	t.mu.Lock()
	defer t.mu.Unlock()
	open := 0
	for _, e := range t.events {
		if len(e.Args) == 0 || fmt.Sprint(e.Args[0]) != store {
			continue
		}
		switch e.Name {
		case "cc.run.begin":
			open++
		case "cc.run.end":
			open--
		}
	}
	return open == 0
}

// ---------------------------------------------------------------- helpers

// apiWriteEv performs a valid write through the API and returns the ApiWrite event.
func (e *Env) apiWriteEv(ctx context.Context, dels, wrs []Tuple) (map[string]any, error) {
	req := &openfgav1.WriteRequest{StoreId: e.StoreID, AuthorizationModelId: e.ModelID}
	if len(wrs) > 0 {
		w := &openfgav1.WriteRequestWrites{}
		for _, t := range wrs {
			w.TupleKeys = append(w.TupleKeys, t.ToProto())
		}
		req.Writes = w
	}
	if len(dels) > 0 {
		d := &openfgav1.WriteRequestDeletes{}
		for _, t := range dels {
			d.TupleKeys = append(d.TupleKeys, &openfgav1.TupleKeyWithoutCondition{Object: t.O.String(), Relation: t.R, User: t.U.String()})
		}
		req.Deletes = d
	}
	if _, err := e.S.Write(ctx, req); err != nil {
		return nil, err
	}
	return map[string]any{"e": "ApiWrite", "dels": normTuples(dels), "wrs": normTuples(wrs)}, nil
}

// flipWrite chooses a write that changes the store: delete some stored writable
// tuples and add some absent writable ones. cur is updated.
func flipWrite(r *rand.Rand, cs *Case, cur map[string]Tuple, pool []Tuple) (dels, wrs []Tuple) {
	for _, k := range SortedKeys(cur) {
		if chance(r, 0.25) && len(dels) < 3 && Writable(cs.Model, cur[k]) {
			dels = append(dels, cur[k])
		}
	}
	r.Shuffle(len(pool), func(i, j int) { pool[i], pool[j] = pool[j], pool[i] })
	picked := map[string]bool{}
	for _, t := range pool {
		if _, ok := cur[t.Key()]; !ok && !picked[t.Key()] && len(wrs) < 3 && Writable(cs.Model, t) && !(t.U.IsUserset() && t.U.Obj() == t.O && t.U.Rel == t.R) {
			wrs = append(wrs, t)
			picked[t.Key()] = true
		}
	}
	for _, t := range dels {
		delete(cur, t.Key())
	}
	for _, t := range wrs {
		cur[t.Key()] = t
	}
	return
}

// validPool lists every writable tuple of the model over the id universe (no conditions mistyped).
func validPool(r *rand.Rand, m *Model) []Tuple {
	var out []Tuple
	for _, def := range m.Rels {
		for _, x := range def.Restr {
			for _, oid := range IDs[def.T][:2] {
				var users []Subj
				if x.WC {
					users = []Subj{{x.T, "*", ""}}
				} else {
					for _, uid := range IDs[x.T][:2] {
						users = append(users, Subj{x.T, uid, x.Rel})
					}
				}
				for _, u := range users {
					t := Tuple{O: Obj{def.T, oid}, R: def.R, U: u, C: x.Cond, Cctx: Ctx{}}
					if x.Cond != "" {
						t.Cctx = CtxFor(r, m.Cond(x.Cond), pick(r, []string{"T", "T", "F", "none"}))
					}
					out = append(out, t)
				}
			}
		}
	}
	return out
}

// onlyWritable keeps the tuples the Write API accepts (cache histories write through the API).
func onlyWritable(cs *Case) {
	var keep []Tuple
	for _, t := range cs.Tuples {
		if Writable(cs.Model, t) && !(t.U.IsUserset() && t.U.Obj() == t.O && t.U.Rel == t.R) {
			keep = append(keep, t)
		}
	}
	cs.Tuples = keep
}

// ---------------------------------------------------------------- C08

func C08(run *Run) {
	ctx := context.Background()
	if run.Replay != "" {
		if replayKind(run.Replay) == "reduce" {
			reducerConformance(run)
			return
		}
		replayCore(run)
		return
	}
	// what may be cached at all: definitive results only, whatever the completion order (spec/reduce)
	reducerConformance(run)
	r := rand.New(rand.NewSource(run.Seed))
	// reads complete after small pseudo-random delays, so that the order in which
	// concurrent sub-problems finish (and what gets cached first) varies between passes
	jr := rand.New(rand.NewSource(run.Seed + 7))
	ds := NewCancelDS(memory.New())
	ds.Jitter = func() time.Duration {
		if jr.Intn(3) == 0 {
			return time.Duration(jr.Intn(300)) * time.Microsecond
		}
		return 0
	}
	v := NewVariantsDS(ds)
	defer v.Close()
	nCases := run.Pick(40, 1000)
	rec := &Recorder{}
	cmdEngines := []string{"v1c:default", "v1c:weight2", "v1c:recursive", "v2c:default", "v2c:weight2", "v2c:recursive"}
	srvEngines := []string{"server:qc", "server:v2:qc"}
	for c := 0; c < nCases; c++ {
		cs, _ := GenCase(r, c, GenOpts{MinTuples: 10, MaxTuples: 20, ForceCycles: c%2 == 1})
		// part of the tuples travel as contextual tuples of some requests: the same sub-problem
		// is then asked with different contextual tuples within one cache lifetime
		stored, ctxt := splitTuples(r, cs)
		if len(ctxt) > 3 {
			stored = append(stored, ctxt[3:]...)
			ctxt = ctxt[:3]
		}
		if err := v.Base.Setup(ctx, cs.Model, stored); err != nil {
			run.Inconclusive("setup failed: %v", err)
		}
		ts, mg, err := v.Base.Typesystem(ctx, cs.Model)
		if err != nil {
			run.Inconclusive("typesystem: %v", err)
		}
		se := cs.SetupEv()
		se.Tuples = normTuples(stored)
		rec.Setup(se)
		ctOf := func(i int) []Tuple {
			switch i % 3 {
			case 1:
				return ctxt
			case 2:
				if len(ctxt) > 1 {
					return ctxt[:1]
				}
			}
			return nil
		}
		// requests with overlapping sub-problems: few subjects, all relations of two objects
		reqs := GenRequests(r, cs, 60)
		subj := reqs[0].U
		var seq []Req
		for _, q := range reqs {
			if (q.U == subj || chance(r, 0.25)) && len(seq) < 8 {
				q.Ctx = reqs[0].Ctx
				seq = append(seq, q)
			}
		}
		// the sub-problems behind userset tuples, asked as requests of their own after the outer
		// ones: an entry cached while resolving an outer request is then hit as a root
		for _, t := range stored {
			if t.U.Rel != "" && len(seq) < 12 && cs.Model.Rel(t.U.T, t.U.Rel) != nil && chance(r, 0.6) {
				seq = append(seq, Req{O: Obj{t.U.T, t.U.ID}, R: t.U.Rel, U: subj, Ctx: reqs[0].Ctx})
				if len(seq) < 12 {
					seq = append(seq, Req{O: t.O, R: t.R, U: subj, Ctx: reqs[0].Ctx})
				}
			}
		}
		order := func(pass int) []Req {
			out := append([]Req{}, seq...)
			if pass == 1 {
				for i, j := 0, len(out)-1; i < j; i, j = i+1, j-1 {
					out[i], out[j] = out[j], out[i]
				}
			}
			return out
		}
		for _, eng := range append(append([]string{}, cmdEngines...), srvEngines...) {
			if strings.HasPrefix(eng, "v2") && mg == nil {
				continue
			}
			env := v.Base
			if strings.HasPrefix(eng, "server") {
				env = v.Get(eng)
			} else if v.Base.caseCache != nil { // fresh cache per engine so that a wrong entry is attributed to it
				v.Base.caseCache.Stop()
				v.Base.caseCache = nil
			}
			for pass := 0; pass < 4; pass++ {
				for qi, q := range order(pass) {
					ct := ctOf(qi + pass)
					ev := &CheckEv{Eng: eng, O: q.O, R: q.R, U: q.U, Ctx: q.Ctx, Ctxt: ct}
					if strings.HasPrefix(eng, "server:v2") || strings.HasPrefix(eng, "v2c") {
						// the v2 engine is judged as in C03 (userset/wildcard subjects against v1)
						v1 := &CheckEv{Eng: "v1:default", O: q.O, R: q.R, U: q.U, Ctx: q.Ctx, Ctxt: ct}
						v.Base.RunCheck(ctx, v1, ts, mg)
						vev := &V2Ev{CheckEv: *ev}
						env.RunCheck(ctx, &vev.CheckEv, ts, mg)
						fillV2(vev, v1, cs, ts, q)
						rec.Add(vev)
					} else {
						env.RunCheck(ctx, ev, ts, mg)
						rec.Add(ev)
					}
					run.Evals++
				}
			}
			if strings.HasPrefix(eng, "server:qc") {
				q := seq[0]
				lo := &ListObjectsEv{Eng: "classic:qc", T: q.O.T, R: q.R, U: q.U, Ctx: q.Ctx}
				if v.RunLO(ctx, lo) {
					rec.Add(lo)
					run.Evals++
				}
			}
		}
		run.Nontrivial(hashOf([]any{cs.Model, cs.Tuples, seq}))
		if c < 2 {
			run.AddSample(map[string]any{"model": cs.Model.String(), "tuples": tupleStrings(cs.Tuples), "sequence": seq})
		}
	}
	sum := rec.Validate(run, 16)
	run.Coverage["rule"] = "C01 cases on an unchanged store; sequences of up to 8 Check requests with overlapping sub-problems (same subject, several relations/objects) issued three times in forward and reverse order with the query cache on: production server (default and weighted-graph engine) and command-level engines with the planner forced to default / weight2 / recursive (v1 CachedCheckResolver, v2 edge cache), fresh cache per engine and case; plus ListObjects with the query cache; every answer judged by TLC against Chk (v2 judged as in C03); non-trivial = distinct (case, sequence)"
	run.Coverage["cases"] = nCases
	run.Coverage["judged_by_tlc"] = sum.Judged
	run.Coverage["verdict_classes"] = sum.Counts
	run.Assumptions = []string{"reference = FGACore.Chk", "the per-entry check 'stored value = reference value of that sub-problem' (SpSound) is not evaluated at each cache Set; wrong entries are observed through later answers of the same sequence"}
}

// ---------------------------------------------------------------- C10

func C10(run *Run) {
	ctx := context.Background()
	if run.Replay != "" {
		replayCore(run)
		return
	}
	r := rand.New(rand.NewSource(run.Seed))
	v := NewVariants()
	defer v.Close()
	flags := []string{"qc", "ic", "lic", "shi", "cc", "v2"}
	var combos []string
	for mask := 0; mask < 64; mask++ {
		name := "server"
		for i, f := range flags {
			if mask&(1<<i) != 0 {
				name += ":" + f
			}
		}
		combos = append(combos, name)
	}
	if !run.Thorough() { // a seeded sample of the 64 combinations, always including all-on
		r.Shuffle(len(combos), func(i, j int) { combos[i], combos[j] = combos[j], combos[i] })
		combos = append(combos[:10], "server:qc:ic:lic:shi:cc:v2", "server:qc:ic:lic:shi:cc")
	}
	nCases := run.Pick(20, 150)
	rec := &Recorder{}
	for c := 0; c < nCases; c++ {
		cs, _ := GenCase(r, c, GenOpts{MinTuples: 10, MaxTuples: 18, NoInvalid: true})
		onlyWritable(cs)
		if err := v.Base.Setup(ctx, cs.Model, nil); err != nil {
			run.Inconclusive("setup failed: %v", err)
		}
		ts, mg, err := v.Base.Typesystem(ctx, cs.Model)
		if err != nil {
			run.Inconclusive("typesystem: %v", err)
		}
		se := cs.SetupEv()
		se.Tuples = []Tuple{}
		rec.Setup(se)
		cur := map[string]Tuple{}
		ev0, err := v.Base.apiWriteEv(ctx, nil, cs.Tuples)
		if err != nil {
			run.Note("initial write refused (%v); case skipped", err)
			continue
		}
		rec.Add(ev0)
		for _, t := range cs.Tuples {
			cur[t.Key()] = t
		}
		pool := validPool(r, cs.Model)
		reqs := GenRequests(r, cs, 6)
		for round := 0; round < 3; round++ {
			for _, combo := range combos {
				env := v.Get(combo)
				// warm the caches with ordinary requests (may be stale after the first write)
				for _, q := range reqs {
					ev := &CheckEv{Eng: combo, O: q.O, R: q.R, U: q.U, Ctx: q.Ctx}
					env.RunCheck(ctx, ev, ts, mg)
					stale := struct {
						*CheckEv
						Stale string `json:"stale"`
					}{ev, "ok"}
					rec.Add(stale)
					run.Evals++
				}
				// ... and the list iterator caches with ordinary ListObjects requests (every hop gets cached)
				for _, q := range reqs[:2] {
					lo := &ListObjectsEv{Eng: combo, T: q.O.T, R: q.R, U: q.U, Ctx: q.Ctx}
					env.RunListObjects(ctx, lo)
					if IsPlainSubj(q.U) || !strings.Contains(combo, ":v2") {
						rec.Add(struct {
							*ListObjectsEv
							Stale string `json:"stale"`
						}{lo, "ok"})
						run.Evals++
					}
				}
			}
			dels, wrs := flipWrite(r, cs, cur, pool)
			if len(dels)+len(wrs) == 0 {
				continue
			}
			wev, err := v.Base.apiWriteEv(ctx, dels, wrs)
			if err != nil {
				run.Inconclusive("write refused: %v (dels %v wrs %v)", err, dels, wrs)
			}
			rec.Add(wev)
			for _, combo := range combos {
				env := v.Get(combo)
				for _, q := range reqs {
					ev := &CheckEv{Eng: combo + ":HC", O: q.O, R: q.R, U: q.U, Ctx: q.Ctx, HC: true}
					env.RunCheck(ctx, ev, ts, mg)
					if strings.Contains(combo, ":v2") && !IsPlainSubj(q.U) {
						continue // userset/wildcard subjects on the v2 engine are C03's business
					}
					rec.Add(ev)
					run.Evals++
					run.Nontrivial(hashOf([]any{cs.Model, SortedKeys(cur), q, combo}))
				}
				for _, q := range reqs[:2] {
					lo := &ListObjectsEv{Eng: combo, T: q.O.T, R: q.R, U: q.U, Ctx: q.Ctx, HC: true}
					env.RunListObjects(ctx, lo)
					if IsPlainSubj(q.U) || !strings.Contains(combo, ":v2") {
						rec.Add(lo)
						run.Evals++
					}
				}
				// BatchCheck carries one preference for all its items
				for _, bev := range batchHC(ctx, env, combo, reqs) {
					if strings.Contains(combo, ":v2") && !IsPlainSubj(bev.U) {
						continue
					}
					rec.Add(bev)
					run.Evals++
				}
				q := reqs[0]
				lu := &ListUsersEv{Eng: combo, O: q.O, R: q.R, FT: "user", Ctx: q.Ctx, HC: true}
				env.RunListUsers(ctx, lu)
				rec.Add(lu)
				run.Evals++
			}
		}
		if c < 2 {
			run.AddSample(map[string]any{"model": cs.Model.String(), "combos": combos, "requests": reqs})
		}
	}
	sum := rec.Validate(run, 16)
	run.Coverage["rule"] = "cache-flag combinations over {query cache, check iterator cache, list-objects iterator cache, shared iterator, cache controller, weighted-graph engine} (quick: seeded sample of 12 incl. all-on; thorough: all 64); histories warm -> write through the API -> HIGHER_CONSISTENCY Check / ListObjects / ListUsers, three rounds; TLC tracks the store through ApiWrite events and requires every higher-consistency answer to equal Chk on the store at request time (ordinary warm-up answers may be stale: must be the reference value of some version); non-trivial = distinct (model, store version, request, combination)"
	run.Coverage["cases"] = nCases
	run.Coverage["combinations"] = combos
	run.Coverage["judged_by_tlc"] = sum.Judged
	run.Coverage["verdict_classes"] = sum.Counts
	run.Assumptions = []string{"histories are sequential, so 'the store state at the time of the request' is unambiguous", "whether a cache lookup happened during a higher-consistency request is not observed; only answers are judged"}
}

func IsPlainSubj(u Subj) bool { return !u.IsUserset() && !u.IsWild() }

// ---------------------------------------------------------------- C11

func C11(run *Run) {
	ctx := context.Background()
	if run.Replay != "" {
		if replayKind(run.Replay) == "itercache" {
			iterCacheConformance(run)
			return
		}
		if replayKind(run.Replay) == "checkcache" {
			checkCacheConformance(run)
			return
		}
		replayCore(run)
		return
	}
	iterCacheConformance(run)  // the iterator cache and its invalidation markers as a sequential object (IterCache*.tla)
	checkCacheConformance(run) // the check query cache under a scripted controller, against CheckCache's own actions
	r := rand.New(rand.NewSource(run.Seed))
	tr := &HookTracer{}
	verifhook.InstallTracer(tr)
	defer verifhook.InstallTracer(nil)
	v := NewVariants()
	defer v.Close()
	cacheDesignModel(run) // design level: CheckCache.tla (exhaustive TLC)
	combos := []string{"server:qc:cc", "server:ic:lic:cc", "server:ic:lic:cc:t300"}
	nCases := run.Pick(18, 210)
	rec := &Recorder{}
	waits, notRun := 0, 0
	for c := 0; c < nCases; c++ {
		cs, _ := GenCase(r, c, GenOpts{MinTuples: 10, MaxTuples: 18, NoInvalid: true})
		onlyWritable(cs)
		combo := combos[c%len(combos)]
		env := v.Get(combo)
		if err := v.Base.Setup(ctx, cs.Model, nil); err != nil {
			run.Inconclusive("setup failed: %v", err)
		}
		env.StoreID, env.ModelID = v.Base.StoreID, v.Base.ModelID
		ts, mg, err := v.Base.Typesystem(ctx, cs.Model)
		if err != nil {
			run.Inconclusive("typesystem: %v", err)
		}
		se := cs.SetupEv()
		se.Tuples = []Tuple{}
		rec.Setup(se)
		cur := map[string]Tuple{}
		ev0, err := env.apiWriteEv(ctx, nil, cs.Tuples)
		if err != nil {
			run.Note("initial write refused (%v); case skipped", err)
			continue
		}
		rec.Add(ev0)
		for _, t := range cs.Tuples {
			cur[t.Key()] = t
		}
		pool := validPool(r, cs.Model)
		reqs := GenRequests(r, cs, 6)
		// prewarmed: the same requests were also issued in the window between the last write and the
		// completion of the invalidation run (only meaningful for must-be-fresh requests on the query cache)
		prewarmed := false
		ask := func(stale string) {
			// KF-19 call site: a ListObjects request served with the check query cache on (its follow-up
			// checks consult that cache without the controller's invalidation time)
			pw := stale == "" && strings.Contains(combo, "qc")
			_ = prewarmed
			for _, q := range reqs {
				ev := &CheckEv{Eng: combo, O: q.O, R: q.R, U: q.U, Ctx: q.Ctx}
				env.RunCheck(ctx, ev, ts, mg)
				// KF-27 call site: a must-be-fresh Check on the query cache in a round in which requests were
				// also issued inside the invalidation window (they may have stored a parent entry computed
				// from a stale child entry; CheckCache_dispatch.cfg)
				rec.Add(struct {
					*CheckEv
					Stale     string `json:"stale"`
					Prewarmed bool   `json:"prewarmed"`
					InWindow  bool   `json:"inwindow"`
				}{ev, stale, false, pw && prewarmed})
				run.Evals++
			}
			q := reqs[0]
			lo := &ListObjectsEv{Eng: combo, T: q.O.T, R: q.R, U: q.U, Ctx: q.Ctx}
			env.RunListObjects(ctx, lo)
			rec.Add(struct {
				*ListObjectsEv
				Stale     string `json:"stale"`
				Prewarmed bool   `json:"prewarmed"`
			}{lo, stale, pw})
			run.Evals++
		}
		// the very first requests populate the caches from a store nobody has written since: fresh
		ask("ok")
		for round := 0; round < 4; round++ {
			var dels, wrs []Tuple
			if round == 2 { // a burst of more changes than one changelog page (50) holds
				for i := 0; i < 30; i++ {
					d, w := flipWrite(r, cs, cur, pool)
					wev, err := env.apiWriteEv(ctx, d, w)
					if err != nil {
						run.Inconclusive("write refused: %v", err)
					}
					if len(d)+len(w) > 0 {
						rec.Add(wev)
					}
				}
			}
			if strings.Contains(combo, "t300") {
				// push every earlier change out of the 300 ms iterator-cache TTL window, re-warm the
				// caches, then make two separate in-window changes: the changelog page then straddles
				// the window and the controller takes its partial-invalidation path
				time.Sleep(350 * time.Millisecond)
				ask("ok")
				d, w := flipWrite(r, cs, cur, pool)
				if len(d)+len(w) > 0 {
					wev, err := env.apiWriteEv(ctx, d, w)
					if err != nil {
						run.Inconclusive("write refused: %v", err)
					}
					rec.Add(wev)
				}
			}
			dels, wrs = flipWrite(r, cs, cur, pool)
			if len(dels)+len(wrs) == 0 {
				continue
			}
			wev, err := env.apiWriteEv(ctx, dels, wrs)
			if err != nil {
				run.Inconclusive("write refused: %v", err)
			}
			rec.Add(wev)
			time.Sleep(3 * time.Millisecond) // let the controller's 1 ms interval and the write timestamp pass
			mark := tr.Mark()
			prewarmed = round%2 == 0
			if prewarmed {
				ask("ok") // may be stale; triggers the asynchronous invalidation
			} else {
				// quiet window: trigger the invalidation with a request about an object and a user that no
				// earlier request mentioned, so that no cached entry is read (and re-stored) before the run
				q := reqs[0]
				trig := &CheckEv{Eng: combo, O: Obj{q.O.T, "zz"}, R: q.R, U: Subj{"user", "zz", ""}, Ctx: q.Ctx}
				env.RunCheck(ctx, trig, ts, mg)
			}
			// wait until a run that began after the write has completed
			deadline := time.Now().Add(3 * time.Second)
			ok := false
			for time.Now().Before(deadline) {
				if tr.RunCompletedAfter(mark, env.StoreID) && tr.Idle(env.StoreID) {
					ok = true
					break
				}
				time.Sleep(time.Millisecond)
			}
			waits++
			if !ok {
				notRun++
				continue // no completed run observed: nothing is required of the following requests
			}
			ask("") // must be fresh
			run.Nontrivial(hashOf([]any{cs.Model, SortedKeys(cur), combo, round}))
		}
		if c < 2 {
			run.AddSample(map[string]any{"model": cs.Model.String(), "combo": combo, "requests": reqs})
		}
	}
	sum := rec.Validate(run, 16)
	run.Coverage["rule"] = "{cache controller + query cache} and {cache controller + iterator caches} (controller interval 1 ms, cache TTLs 2 min); histories: warm requests, write through the API (one round writes a burst of more changes than a changelog page), request (may be stale, triggers the asynchronous run), wait until the hook events cc.run.begin/end show a run that began after the write has ended, request again: TLC requires the latter answers to equal Chk on the current store and every earlier answer to equal Chk on some version since Setup; non-trivial = distinct (model, store version, configuration, round)"
	run.Coverage["cases"] = nCases
	run.Coverage["rounds_waited"] = waits
	run.Coverage["rounds_without_observed_run"] = notRun
	run.Coverage["judged_by_tlc"] = sum.Judged
	run.Coverage["verdict_classes"] = sum.Counts
	run.Assumptions = []string{"TTL expiry windows (iterator-cache TTL straddling) are not exercised: TTLs are 2 minutes and runs are short", "time is real wall-clock time; judgement uses only the order of hook events and requests, which are sequential"}
}
