package h

import (
	"context"
	"fmt"
	"math/rand"
	"sync"
	"time"

	"github.com/openfga/openfga/pkg/storage/memory"
)

// DebugC09X: the cold concurrent phase of C09 repeated on fresh stores; prints errors seen by
// goroutines whose context nobody cancelled, per engine combination.
func DebugC09X(run *Run) {
	r := rand.New(rand.NewSource(run.Seed))
	ds := NewCancelDS(memory.New())
	v := NewVariantsDS(ds)
	defer v.Close()
	bg := context.Background()
	bad := map[string]int{}
	total := 0
	for it := 0; it < 1200; it++ {
		cs, _ := GenCase(r, it, GenOpts{MinTuples: 10, MaxTuples: 20})
		if err := v.Base.Setup(bg, cs.Model, cs.Tuples); err != nil {
			continue
		}
		ts, mg, _ := v.Base.Typesystem(bg, cs.Model)
		combo := []string{"server:ic:lic:shi", "server:ic:lic", "server:shi", "server"}[it%4]
		env := v.Get(combo)
		reqs := GenRequests(r, cs, 8)
		jr := rand.New(rand.NewSource(int64(it)))
		var jmu sync.Mutex
		ds.StrictCtx = true
		ds.Jitter = func() time.Duration {
			jmu.Lock()
			defer jmu.Unlock()
			return time.Duration(jr.Intn(120)) * time.Microsecond
		}
		var wg sync.WaitGroup
		var mu sync.Mutex
		for g := 0; g < 6; g++ {
			wg.Add(1)
			order := r.Perm(len(reqs))
			ca := time.Duration(50+r.Intn(600)) * time.Microsecond
			go func(g int, order []int, ca time.Duration) {
				defer wg.Done()
				gctx := bg
				if g%2 == 1 {
					c2, cancel := context.WithTimeout(bg, ca)
					defer cancel()
					gctx = c2
				}
				for _, i := range order {
					q := reqs[i]
					ev := &CheckEv{Eng: combo, O: q.O, R: q.R, U: q.U, Ctx: q.Ctx}
					env.RunCheck(gctx, ev, ts, mg)
					if g%2 == 0 {
						mu.Lock()
						total++
						if ev.Got == "ERR" && (ev.Errk == "deadline" || ev.Errk == "cancel") {
							bad[combo+" "+ev.Errk]++
							if bad[combo+" "+ev.Errk] <= 2 {
								fmt.Printf("uncancelled request failed: %s %s#%s@%s: %s\n", combo, q.O, q.R, q.U, ev.Err)
							}
						}
						mu.Unlock()
					}
				}
			}(g, order, ca)
		}
		wg.Wait()
		ds.StrictCtx, ds.Jitter = false, nil
	}
	fmt.Printf("uncancelled requests: %d, failed with somebody else's cancellation: %v\n", total, bad)
}
