package h

import (
	"context"
	"fmt"
	"time"
)

// DebugLaunder: does a Check issued between a write and the invalidation run store a result derived
// from a pre-write entry with a post-write time stamp (and keep serving it after the run)?
func DebugLaunder(run *Run) {
	ctx := context.Background()
	v := NewVariants()
	m := &Model{Types: []string{"user", "group", "folder", "doc"}, Conds: []CondDef{}, Rels: []RelDef{
		{T: "doc", R: "editor", Rw: &Rewrite{K: "this"}, Restr: []Restr{{T: "user"}}},
		{T: "doc", R: "viewer", Rw: &Rewrite{K: "union", Ch: []*Rewrite{{K: "computed", Rel: "editor"}, {K: "computed", Rel: "editor"}}}, Restr: []Restr{}},
	}}
	tuples := []Tuple{tp("doc:1", "editor", "user:a")}
	if err := v.Base.Setup(ctx, m, nil); err != nil {
		panic(err)
	}
	env := v.Get("server:qc:cc")
	ts, mg, _ := v.Base.Typesystem(ctx, m)
	if _, err := env.apiWriteEv(ctx, nil, tuples); err != nil {
		panic(err)
	}
	chk := func(o, r, u string) string {
		ev := &CheckEv{Eng: "server:qc:cc", O: ParseObj(o), R: r, U: ParseSubj(u), Ctx: Ctx{}}
		env.RunCheck(ctx, ev, ts, mg)
		return ev.Got
	}
	fmt.Println("1 child  ", chk("doc:1", "editor", "user:a"))
	time.Sleep(20 * time.Millisecond)
	if _, err := env.apiWriteEv(ctx, []Tuple{tp("doc:1", "editor", "user:a")}, nil); err != nil {
		panic(err)
	}
	fmt.Println("2 parent in the window (derived from the cached child):", chk("doc:1", "viewer", "user:a"))
	time.Sleep(300 * time.Millisecond)
	fmt.Println("3 trigger ", chk("doc:9", "viewer", "user:z"))
	time.Sleep(300 * time.Millisecond)
	fmt.Println("4 parent after the invalidation run (reference: F):", chk("doc:1", "viewer", "user:a"))
	fmt.Println("5 child after the run (reference: F):", chk("doc:1", "editor", "user:a"))
}
