package h

import (
	"context"
	"fmt"
	"math/rand"
	"sort"
	"strings"
	"sync/atomic"
	"time"

	"github.com/openfga/openfga/internal/listobjects/pipeline"
	"github.com/openfga/openfga/pkg/storage/memory"
)

// C21, failure path: a read of the pipeline's object store panics while a worker processes a
// message (the worker recovers and reports the pipeline's error).  The design model
// (CycleGroup.tla, CycFail) says the message's in-flight unit must still be released; on the real
// pipeline this shows as: Recv ends, Close returns and the error surfaces - for a panic at every
// read position of requests over recursive data.

type panicStore struct {
	inner pipeline.ObjectStore
	at    int32
	n     atomic.Int32
	fired atomic.Bool
}

func (s *panicStore) Read(ctx context.Context, q pipeline.ObjectQuery) pipeline.Receiver[pipeline.Item] {
	if s.n.Add(1) == s.at {
		s.fired.Store(true)
		panic("verif: injected storage failure")
	}
	return s.inner.Read(ctx, q)
}

type plOutcome struct {
	values []string
	err    error
	closed bool
}

// runPipelineDirect drives one pipeline (as list_objects.go does) over store ps; closed=false means Close did not
// return within the limit.
func runPipelineDirect(env *Env, cs *Case, ps *panicStore, spec pipeline.Spec, limit time.Duration) (plOutcome, error) {
	ctx := context.Background()
	ts, _, err := env.Typesystem(ctx, cs.Model)
	if err != nil {
		return plOutcome{}, err
	}
	validator := pipeline.NewValidator(ctx, ts, nil)
	ps.inner = pipeline.NewValidatingStore(env.DS, env.StoreID, pipeline.WithStoreValidator(validator))
	builder, err := pipeline.NewBuilder(ps)
	if err != nil {
		return plOutcome{}, err
	}
	var p interface {
		Recv(context.Context) (string, bool)
		Close()
		Err() error
	}
	var buildErr error
	built := Watchdog(limit, func() {
		pp, e := builder.Build(ctx, ts.GetWeightedGraph(), spec)
		if e != nil {
			buildErr = e
			return
		}
		p = pp
	})
	if !built {
		return plOutcome{closed: false}, nil
	}
	if buildErr != nil {
		return plOutcome{closed: true, err: buildErr}, nil
	}
	done := make(chan plOutcome, 1)
	go func() {
		var out plOutcome
		rctx, cancel := context.WithTimeout(ctx, 2*time.Second) // the consumer gives up like a request deadline would
		defer cancel()
		for {
			v, ok := p.Recv(rctx)
			if !ok {
				break
			}
			out.values = append(out.values, v)
		}
		p.Close()
		out.err, out.closed = p.Err(), true
		done <- out
	}()
	select {
	case out := <-done:
		return out, nil
	case <-time.After(limit):
		return plOutcome{closed: false}, nil
	}
}

func pipelinePanicScenario(run *Run) []any {
	ctx := context.Background()
	r := rand.New(rand.NewSource(run.Seed + 2100))
	env := NewEnv(memory.New())
	defer env.Close()
	var events []any
	skippedHang := 0
	scripted := func(i int) *Case { // a recursive tuple-to-userset chain (the shape every cycle group starts from)
		this := &Rewrite{K: "this"}
		m := &Model{Types: []string{"user", "folder"}, Conds: []CondDef{}, Rels: []RelDef{
			{T: "folder", R: "parent", Rw: this, Restr: []Restr{{T: "folder"}}},
			{T: "folder", R: "viewer", Rw: &Rewrite{K: "union", Ch: []*Rewrite{this, {K: "ttu", TS: "parent", Rel: "viewer"}}}, Restr: []Restr{{T: "user"}}},
		}}
		ts := []Tuple{tp("folder:0", "viewer", "user:a")}
		for k := 0; k < 4+i%4; k++ {
			ts = append(ts, tp(fmt.Sprintf("folder:%d", k+1), "parent", fmt.Sprintf("folder:%d", k)))
		}
		return &Case{N: -7000 - i, Model: m, Tuples: ts}
	}
	nCases := run.Pick(10, 80)
	for c := 0; c < nCases; c++ {
		var cs *Case
		if c%2 == 0 {
			cs = scripted(c)
		} else {
			cs, _ = GenCase(r, c, GenOpts{MinTuples: 10, ForceCycles: true})
		}
		if err := env.Setup(ctx, cs.Model, cs.Tuples); err != nil {
			continue
		}
		var specs []pipeline.Spec
		if c%2 == 0 {
			specs = []pipeline.Spec{{ObjectType: "folder", ObjectRelation: "viewer", SubjectType: "user", SubjectID: "a"}}
		} else {
			for _, q := range GenRequests(r, cs, 12) {
				if IsPlainSubj(q.U) && len(specs) < 2 {
					specs = append(specs, pipeline.Spec{ObjectType: q.O.T, ObjectRelation: q.R, SubjectType: q.U.T, SubjectID: q.U.ID})
				}
			}
		}
		for _, spec := range specs {
			base := &panicStore{}
			out, err := runPipelineDirect(env, cs, base, spec, 6*time.Second)
			if err != nil || !out.closed || out.err != nil {
				skippedHang++ // KF-6 topologies and requests the pipeline refuses are not failure-path cases
				continue
			}
			reads := int(base.n.Load())
			want := append([]string{}, out.values...)
			sort.Strings(want)
			for k := 1; k <= reads && k <= 10; k++ {
				ps := &panicStore{at: int32(k)}
				o, err := runPipelineDirect(env, cs, ps, spec, 8*time.Second)
				if err != nil {
					continue
				}
				extra := 0
				for _, v := range o.values {
					if i := sort.SearchStrings(want, v); i >= len(want) || want[i] != v {
						extra++
					}
				}
				ev := map[string]any{"e": "PanicRun", "k": k, "reads": reads, "fired": ps.fired.Load(), "closed": o.closed, "err": o.err != nil, "errmsg": "", "extra": extra,
					"spec": fmt.Sprintf("%s#%s@%s:%s", spec.ObjectType, spec.ObjectRelation, spec.SubjectType, spec.SubjectID), "model": cs.Model.String(), "tuples": strings.Join(tupleStrings(cs.Tuples), ", ")}
				if o.err != nil {
					ev["errmsg"] = o.err.Error()
				}
				events = append(events, ev)
				run.Evals++
				run.Nontrivial(fmt.Sprintf("panic %d %v %d", c, spec, k))
				if !o.closed {
					break // the pipeline is stuck: its goroutines stay behind, do not pile up more
				}
			}
		}
	}
	run.Coverage["panic_runs_skipped_baseline_not_clean"] = skippedHang
	return events
}
