package h

import (
	"context"
	"encoding/json"
	"errors"
	"fmt"
	"math/rand"
	"os"
	"time"

	openfgav1 "github.com/openfga/api/proto/openfga/v1"

	"github.com/openfga/openfga/pkg/server"
	"github.com/openfga/openfga/pkg/storage"
	"github.com/openfga/openfga/pkg/tuple"
)

// C15, horizon and descending order (spec/store/ChangesTrace.tla).  The driver writes batches of
// effective changes separated by pauses, remembering the wall-clock bracket of every batch, and
// walks ReadChanges with horizons between and beyond the batch ages, ascending and descending,
// with and without a type filter and with random page sizes.  TLC judges every walk.

type chBatch struct {
	t0, t1 time.Time
	n      int
}

type chLogEntry struct {
	id string // key|op|timestamp of the change as the datastore reports it
	t  string
	b  int // batch
}

const chSlackMs = 25

func chID(c *openfgav1.TupleChange) string {
	return fmt.Sprintf("%s|%s|%d", tuple.TupleKeyToString(c.GetTupleKey()), c.GetOperation(), c.GetTimestamp().AsTime().UnixNano())
}

// chFull reads the whole changelog oldest first with horizon 0.
func chFull(ctx context.Context, ds storage.OpenFGADatastore, sid string) ([]*openfgav1.TupleChange, error) {
	var all []*openfgav1.TupleChange
	from := ""
	for i := 0; i < 1000; i++ {
		page, tok, err := ds.ReadChanges(ctx, sid, storage.ReadChangesFilter{}, storage.ReadChangesOptions{Pagination: storage.NewPaginationOptions(50, from)})
		if errors.Is(err, storage.ErrNotFound) || (err == nil && len(page) == 0) {
			return all, nil
		}
		if err != nil {
			return nil, err
		}
		all = append(all, page...)
		from = tok
	}
	return all, nil
}

func chEvent(backend, level string, horizon time.Duration, desc bool, typ string, batches []chBatch, full []*openfgav1.TupleChange, got []*openfgav1.TupleChange, q0, q1 time.Time) map[string]any {
	idx := map[string]int{}
	log := make([]any, 0, len(full))
	k := 0
	for b, bt := range batches {
		for j := 0; j < bt.n && k < len(full); j++ {
			c := full[k]
			k++
			idx[chID(c)] = k
			lo, hi := q0.Sub(bt.t1).Milliseconds(), q1.Sub(bt.t0).Milliseconds()+1
			if lo < 0 {
				lo = 0
			}
			_ = b
			log = append(log, map[string]any{"t": tuple.GetType(c.GetTupleKey().GetObject()), "lo": lo, "hi": hi})
		}
	}
	g := make([]int, 0, len(got))
	for _, c := range got {
		g = append(g, idx[chID(c)]) // 0 = not an entry of the log
	}
	if k != len(full) || k == 0 {
		g = append(g, 0) // the log itself is not what was written: other C15 checks say why, this one just refuses it
	}
	return map[string]any{"e": "Changes", "backend": backend, "level": level, "horizon": horizon.Milliseconds(), "desc": desc, "typ": typ, "log": log, "got": g, "slack": chSlackMs}
}

func chWalkDS(ctx context.Context, ds storage.OpenFGADatastore, sid string, horizon time.Duration, desc bool, typ string, size int) ([]*openfgav1.TupleChange, time.Time, time.Time, error) {
	q0 := time.Now()
	var all []*openfgav1.TupleChange
	from := ""
	for i := 0; i < 1000; i++ {
		page, tok, err := ds.ReadChanges(ctx, sid, storage.ReadChangesFilter{ObjectType: typ, HorizonOffset: horizon}, storage.ReadChangesOptions{SortDesc: desc, Pagination: storage.NewPaginationOptions(int32(size), from)})
		if errors.Is(err, storage.ErrNotFound) || (err == nil && len(page) == 0) {
			break
		}
		if err != nil {
			return nil, q0, time.Now(), err
		}
		all = append(all, page...)
		from = tok
	}
	return all, q0, time.Now(), nil
}

func chWalkAPI(ctx context.Context, s *server.Server, sid, typ string, size int) ([]*openfgav1.TupleChange, time.Time, time.Time, error) {
	q0 := time.Now()
	var all []*openfgav1.TupleChange
	tok := ""
	for i := 0; i < 1000; i++ {
		resp, err := s.ReadChanges(ctx, &openfgav1.ReadChangesRequest{StoreId: sid, Type: typ, PageSize: pageSize(size), ContinuationToken: tok})
		if err != nil {
			return nil, q0, time.Now(), err
		}
		if len(resp.GetChanges()) == 0 {
			break
		}
		all = append(all, resp.GetChanges()...)
		tok = resp.GetContinuationToken()
	}
	return all, q0, time.Now(), nil
}

// chWriteBatches writes nb batches of effective changes (writes of fresh keys, deletes of present ones).
func chWriteBatches(ctx context.Context, r *rand.Rand, ds storage.OpenFGADatastore, sid string, nb int, gap func(int) time.Duration, batches []chBatch, present map[string]*openfgav1.TupleKey, serial *int) ([]chBatch, error) {
	types := []string{"doc", "do", "folder"}
	for b := 0; b < nb; b++ {
		var dels []*openfgav1.TupleKeyWithoutCondition
		var wrs []*openfgav1.TupleKey
		if len(present) > 1 && r.Intn(2) == 0 {
			for k, tk := range present {
				dels = append(dels, tuple.TupleKeyToTupleKeyWithoutCondition(tk))
				delete(present, k)
				break
			}
		}
		for j, n := 0, 1+r.Intn(3); j < n; j++ {
			*serial++
			tk := tuple.NewTupleKey(fmt.Sprintf("%s:%d", types[r.Intn(len(types))], *serial), "viewer", "user:a")
			wrs = append(wrs, tk)
		}
		t0 := time.Now()
		if err := ds.Write(ctx, sid, dels, wrs); err != nil {
			return batches, err
		}
		t1 := time.Now()
		for _, tk := range wrs {
			present[tuple.TupleKeyToString(tk)] = tk
		}
		batches = append(batches, chBatch{t0, t1, len(dels) + len(wrs)})
		time.Sleep(gap(b))
	}
	return batches, nil
}

// changesProbe runs the datastore-level scenarios and starts the API-level one (a server configured
// with a one-minute horizon, which needs a minute of waiting) in the background; join returns its events.
func changesProbe(run *Run) (events []any, join func() []any) {
	ctx := context.Background()
	r := rand.New(rand.NewSource(run.Seed + 1500))

	// API level, background
	done := make(chan []any, 1)
	go func() {
		var evs []any
		rr := rand.New(rand.NewSource(run.Seed + 1501))
		for _, backend := range []string{"memory", "sqlite"} {
			se, err := NewStoreEnv(backend, server.WithChangelogHorizonOffset(1))
			if err != nil {
				continue
			}
			st, err := se.S.CreateStore(ctx, &openfgav1.CreateStoreRequest{Name: "horizon"})
			if err != nil {
				se.Close()
				continue
			}
			sid := st.GetId()
			present := map[string]*openfgav1.TupleKey{}
			serial := 0
			batches, err := chWriteBatches(ctx, rr, se.DS, sid, 2, func(int) time.Duration { return 700 * time.Millisecond }, nil, present, &serial)
			if err != nil {
				se.Close()
				continue
			}
			probe := func() {
				full, err := chFull(ctx, se.DS, sid)
				if err != nil {
					return
				}
				for _, typ := range []string{"", "doc"} {
					got, q0, q1, err := chWalkAPI(ctx, se.S, sid, typ, 1+rr.Intn(4))
					if err != nil {
						continue
					}
					evs = append(evs, chEvent(backend, "api", time.Minute, false, typ, batches, full, got, q0, q1))
				}
			}
			probe() // everything is younger than a minute (a horizon taken in another unit shows entries older than a second)
			if backend == "sqlite" || run.Thorough() {
				// one backend waits out the minute in the quick tier (both in the thorough tier)
				time.Sleep(time.Until(batches[len(batches)-1].t1.Add(time.Minute + 300*time.Millisecond)))
				batches, err = chWriteBatches(ctx, rr, se.DS, sid, 1, func(int) time.Duration { return 0 }, batches, present, &serial)
				if err == nil {
					probe() // the first two batches are older than the minute, the third is not
				}
			}
			se.Close()
		}
		done <- evs
	}()

	horizons := []time.Duration{0, 150 * time.Millisecond, 450 * time.Millisecond, 800 * time.Millisecond, 1200 * time.Millisecond, 1700 * time.Millisecond, 3 * time.Second, time.Minute, 2 * time.Minute, time.Hour}
	for _, backend := range []string{"memory", "sqlite"} {
		se, err := NewStoreEnv(backend)
		if err != nil {
			run.Inconclusive("backend %s: %v", backend, err)
		}
		for sc := 0; sc < run.Pick(2, 12); sc++ {
			st, err := se.S.CreateStore(ctx, &openfgav1.CreateStoreRequest{Name: "changes"})
			if err != nil {
				run.Inconclusive("create store: %v", err)
			}
			sid := st.GetId()
			present := map[string]*openfgav1.TupleKey{}
			serial := 0
			batches, err := chWriteBatches(ctx, r, se.DS, sid, 4, func(int) time.Duration { return time.Duration(250+r.Intn(300)) * time.Millisecond }, nil, present, &serial)
			if err != nil {
				run.Inconclusive("changes probe write: %v", err)
			}
			full, err := chFull(ctx, se.DS, sid)
			if err != nil {
				run.Inconclusive("changes probe read: %v", err)
			}
			for _, hz := range horizons {
				for _, desc := range []bool{false, true} {
					typ := []string{"", "", "doc", "do", "folder"}[r.Intn(5)]
					size := 1 + r.Intn(len(full)+1)
					got, q0, q1, err := chWalkDS(ctx, se.DS, sid, hz, desc, typ, size)
					if err != nil {
						run.Inconclusive("changes probe walk: %v", err)
					}
					events = append(events, chEvent(backend, "ds", hz, desc, typ, batches, full, got, q0, q1))
					run.Nontrivial(fmt.Sprintf("changes %s %d %v %v %s %d", backend, sc, hz, desc, typ, size))
				}
			}
		}
		se.Close()
	}
	return events, func() []any { return <-done }
}

func judgeChanges(run *Run, events []any) {
	if len(events) == 0 {
		run.Inconclusive("changes probe produced no events")
	}
	sum, err := ValidateTrace(StoreSpecDirs(), "ChangesTrace", events, 4, func(int) bool { return true }, 10*time.Minute)
	if err != nil {
		run.Inconclusive("ChangesTrace validation failed: %v", err)
	}
	for _, b := range sum.Bad {
		run.Classified(b.Cls, map[string]any{"prop": run.Prop, "class": b.Cls, "event": events[b.L], "kind": "changes"}, fmt.Sprintf("%s %s %s", b.Cls, b.Note, jsonOf(events[b.L])))
	}
	run.Evals += sum.Judged
	run.Coverage["changes_walks_judged"] = sum.Judged
	run.Coverage["changes_classes"] = sum.Counts
}

// replayKind returns the "kind" field of a replay file ("" when absent).
func replayKind(path string) string {
	b, err := os.ReadFile(path)
	if err != nil {
		return ""
	}
	var m struct {
		Kind string `json:"kind"`
	}
	json.Unmarshal(b, &m)
	return m.Kind
}

// replayHasHistory reports whether a replay file carries a recorded store history (the form
// replayStore re-executes); other replays of the store properties re-run the exploration.
func replayHasHistory(path string) bool {
	b, err := os.ReadFile(path)
	if err != nil {
		return false
	}
	var m struct {
		History []json.RawMessage `json:"history"`
	}
	json.Unmarshal(b, &m)
	return len(m.History) > 0
}
