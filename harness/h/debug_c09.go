package h

import (
	"context"
	"encoding/json"
	"fmt"
	"time"

	"github.com/openfga/openfga/pkg/storage/memory"
)

// DebugC09 replays a C09 replay file: for every cancel position k, on a fresh server,
// cancel the request at read k, then ask it again (3 times) and print the answers.
func DebugC09(run *Run) {
	rf := LoadReplay(run.Replay)
	var ev CheckEv
	json.Unmarshal(rf.Event, &ev)
	for k := 1; k <= 40; k++ {
		ctx := context.Background()
		ds := NewCancelDS(memory.New())
		v := NewVariantsDS(ds)
		if err := v.Base.Setup(ctx, rf.Setup.Model, rf.Setup.Tuples); err != nil {
			panic(err)
		}
		ts, mg, _ := v.Base.Typesystem(ctx, rf.Setup.Model)
		env := v.Get(ev.Eng)
		cctx, cancel := context.WithCancel(ctx)
		ds.Arm(k, cancel)
		e1 := ev
		env.RunCheck(cctx, &e1, ts, mg)
		trig, seen := ds.Disarm()
		cancel()
		time.Sleep(3 * time.Millisecond)
		var answers []string
		for i := 0; i < 3; i++ {
			e2 := ev
			env.RunCheck(ctx, &e2, ts, mg)
			answers = append(answers, e2.Got)
		}
		fmt.Printf("k=%d triggered=%v reads=%d cancelled-answer=%s then %v\n", k, trig, seen, e1.Got, answers)
		v.Close()
		if !trig {
			break
		}
	}
}
