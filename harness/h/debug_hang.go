package h

import (
	"bytes"
	"context"
	"encoding/json"
	"fmt"
	"regexp"
	"runtime/pprof"
	"sort"
	"strings"
	"time"
)

// DebugHang runs the ListObjects event of a replay file on the pipeline engine and, if it has not
// returned after 4 s, prints the pipeline goroutines grouped by their innermost pipeline frames.
func DebugHang(run *Run) {
	ctx := context.Background()
	rf := LoadReplay(run.Replay)
	v := NewVariants()
	if err := v.Base.Setup(ctx, rf.Setup.Model, rf.Setup.Tuples); err != nil {
		panic(err)
	}
	var ev ListObjectsEv
	json.Unmarshal(rf.Event, &ev)
	ev.Eng = "pipeline"
	done := make(chan struct{})
	go func() { v.Get("pipeline").RunListObjects(ctx, &ev); close(done) }()
	select {
	case <-done:
		fmt.Printf("returned: %v err=%v %s\n", ev.Got, ev.IsErr, ev.Err)
		return
	case <-time.After(4 * time.Second):
	}
	var buf bytes.Buffer
	pprof.Lookup("goroutine").WriteTo(&buf, 2)
	re := regexp.MustCompile(`(?m)^(github.com/openfga/openfga/[^\n(]+)(\([^\n]*\))?\n\t[^\n]*/([a-z_]+\.go:\d+)`)
	groups := map[string]int{}
	for _, g := range strings.Split(buf.String(), "\n\n") {
		if !strings.Contains(g, "listobjects/pipeline") {
			continue
		}
		ms := re.FindAllStringSubmatch(g, -1)
		var fr []string
		for _, m := range ms {
			fn := m[1][strings.LastIndex(m[1], "/")+1:]
			fr = append(fr, fn+"@"+m[3])
			if len(fr) == 4 {
				break
			}
		}
		groups[strings.Join(fr, " <- ")]++
	}
	keys := []string{}
	for k := range groups {
		keys = append(keys, k)
	}
	sort.Strings(keys)
	for _, k := range keys {
		fmt.Printf("%3d  %s\n", groups[k], k)
	}
}
