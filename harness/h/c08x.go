package h

import (
	"context"
	"errors"
	"fmt"
	"path/filepath"
	"strings"
	"sync"
	"time"

	"github.com/openfga/openfga/internal/graph"
	"github.com/openfga/openfga/pkg/server/commands"
	"github.com/openfga/openfga/pkg/storage/memory"
	"github.com/openfga/openfga/pkg/tuple"
)

// Reducer conformance (spec/reduce): the design model Reducers.tla is checked exhaustively by TLC
// (every outcome vector and completion order of up to three children), and every one of its
// behaviours is replayed on the real LocalChecker: the operands of a union / intersection /
// exclusion and the children of a userset fan-out are answered by a scripted resolver installed
// as the checker's dispatch delegate, which reports the scripted outcome of each child and lets
// the children complete in the scripted order.  ReducerTrace.tla judges allowed / failed and the
// CycleDetected flag of the result (the flag decides whether the sub-problem cache may keep it).

var ReduceSpecDirs = func() []string { return []string{filepath.Join(VerifRoot(), "spec", "reduce")} }

type scriptResolver struct {
	mu       sync.Mutex
	out      map[string]string        // group id -> "T" | "F" | "Fc" | "E"
	gate     map[string]chan struct{} // closed when the child may complete
	returned chan string              // ids in the order in which their calls returned
}

var errInjectedChild = errors.New("verif: injected child failure")

func (s *scriptResolver) ResolveCheck(ctx context.Context, req *graph.ResolveCheckRequest) (*graph.ResolveCheckResponse, error) {
	id := strings.TrimPrefix(req.GetTupleKey().GetObject(), "group:")
	s.mu.Lock()
	g, o := s.gate[id], s.out[id]
	s.mu.Unlock()
	if g == nil {
		return nil, fmt.Errorf("verif: unexpected sub-problem %s", tuple.TupleKeyToString(req.GetTupleKey()))
	}
	select {
	case <-g:
	case <-ctx.Done():
		return nil, ctx.Err()
	}
	defer func() { s.returned <- id }()
	switch o {
	case "T":
		return &graph.ResolveCheckResponse{Allowed: true}, nil
	case "F":
		return &graph.ResolveCheckResponse{Allowed: false}, nil
	case "Fc":
		return &graph.ResolveCheckResponse{Allowed: false, ResolutionMetadata: graph.ResolveCheckResponseMetadata{CycleDetected: true}}, nil
	}
	return nil, errInjectedChild
}
func (s *scriptResolver) Close()                           {}
func (s *scriptResolver) SetDelegate(graph.CheckResolver)  {}
func (s *scriptResolver) GetDelegate() graph.CheckResolver { return s }

func reducerModel() (*Model, []Tuple) {
	this := &Rewrite{K: "this"}
	comp := func(r string) *Rewrite { return &Rewrite{K: "computed", Rel: r} }
	gm := []Restr{{T: "group", Rel: "member"}}
	m := &Model{
		Types: []string{"user", "group", "doc"},
		Conds: []CondDef{},
		Rels: []RelDef{
			{T: "group", R: "member", Rw: this, Restr: []Restr{{T: "user"}}},
			{T: "doc", R: "a", Rw: this, Restr: gm}, {T: "doc", R: "b", Rw: this, Restr: gm}, {T: "doc", R: "c", Rw: this, Restr: gm},
			{T: "doc", R: "fan", Rw: this, Restr: gm},
			{T: "doc", R: "u2", Rw: &Rewrite{K: "union", Ch: []*Rewrite{comp("a"), comp("b")}}, Restr: []Restr{}},
			{T: "doc", R: "u3", Rw: &Rewrite{K: "union", Ch: []*Rewrite{comp("a"), comp("b"), comp("c")}}, Restr: []Restr{}},
			{T: "doc", R: "i2", Rw: &Rewrite{K: "inter", Ch: []*Rewrite{comp("a"), comp("b")}}, Restr: []Restr{}},
			{T: "doc", R: "i3", Rw: &Rewrite{K: "inter", Ch: []*Rewrite{comp("a"), comp("b"), comp("c")}}, Restr: []Restr{}},
			{T: "doc", R: "x2", Rw: &Rewrite{K: "diff", Base: comp("a"), Sub: comp("b")}, Restr: []Restr{}},
		},
	}
	ts := []Tuple{tp("doc:1", "a", "group:a#member"), tp("doc:1", "b", "group:b#member"), tp("doc:1", "c", "group:c#member"),
		tp("doc:f1", "fan", "group:a#member"),
		tp("doc:f2", "fan", "group:a#member"), tp("doc:f2", "fan", "group:b#member"),
		tp("doc:f3", "fan", "group:a#member"), tp("doc:f3", "fan", "group:b#member"), tp("doc:f3", "fan", "group:c#member")}
	return m, ts
}

func permutations(n int) [][]int {
	if n == 1 {
		return [][]int{{1}}
	}
	var out [][]int
	for _, p := range permutations(n - 1) {
		for i := 0; i <= len(p); i++ {
			q := append(append(append([]int{}, p[:i]...), n), p[i:]...)
			out = append(out, q)
		}
	}
	return out
}

// reducerConformance returns nothing: it records violations on run.
func reducerConformance(run *Run) {
	for _, c := range []struct {
		cfg     string
		violate bool
	}{{"Reducers.cfg", false}, {"Reducers_bad.cfg", true}} {
		out, err := TLCRun{SpecDirs: ReduceSpecDirs(), Module: "Reducers", Config: c.cfg, Workers: 4, Timeout: 10 * time.Minute}.Run()
		if err != nil || out.TimedOut {
			run.Inconclusive("TLC on %s: %v\n%s", c.cfg, err, tail(out))
		}
		switch {
		case c.violate && !strings.Contains(out.Violated, "Sound"):
			run.Inconclusive("Reducers_bad.cfg (the 'last outcome decides' variant) no longer violates Sound: the design check would be vacuous\n%s", tail(out))
		case !c.violate && out.Violated != "":
			run.Violation(map[string]any{"prop": run.Prop, "class": "DESIGN_MODEL_VIOLATION", "cfg": c.cfg, "violated": out.Violated, "tlc": tail(out)}, "Reducers design model violates "+out.Violated)
		case !c.violate && !strings.Contains(out.Stdout, "No error has been found"):
			run.Inconclusive("TLC on %s did not complete:\n%s", c.cfg, tail(out))
		}
		run.Coverage["tlc:"+c.cfg] = fmt.Sprintf("%d states generated, %d distinct (%s)", out.Generated, out.Distinct, map[bool]string{false: "holds", true: "violated as intended"}[c.violate])
	}

	ctx := context.Background()
	env := NewEnv(memory.New())
	defer env.Close()
	m, tuples := reducerModel()
	if err := env.Setup(ctx, m, tuples); err != nil {
		run.Inconclusive("reducer model setup: %v", err)
	}
	ts, _, err := env.Typesystem(ctx, m)
	if err != nil {
		run.Inconclusive("reducer typesystem: %v", err)
	}
	ids := []string{"a", "b", "c"}
	outcomes := []string{"T", "F", "Fc", "E"}
	type shape struct {
		kind, obj, rel string
		n              int
	}
	shapes := []shape{{"union", "doc:1", "u2", 2}, {"union", "doc:1", "u3", 3}, {"inter", "doc:1", "i2", 2}, {"inter", "doc:1", "i3", 3}, {"excl", "doc:1", "x2", 2},
		{"fan", "doc:f1", "fan", 1}, {"fan", "doc:f2", "fan", 2}, {"fan", "doc:f3", "fan", 3}}
	runOnce := func(sh shape, outv []string, ord []int) (dec string, cyc bool, note string) {
		stub := &scriptResolver{out: map[string]string{}, gate: map[string]chan struct{}{}, returned: make(chan string, 8)}
		for i := 0; i < sh.n; i++ {
			stub.out[ids[i]], stub.gate[ids[i]] = outv[i], make(chan struct{})
		}
		checker := graph.NewLocalChecker(graph.WithPlanner(&Forced{"default"}))
		checker.SetDelegate(stub)
		defer checker.Close()
		cmd := commands.NewCheckCommand(env.DS, checker, ts)
		rctx, cancel := context.WithTimeout(ctx, 20*time.Second)
		defer cancel()
		finished := make(chan struct{})
		go func() { // the children complete one at a time, in the scripted order
			for _, c := range ord {
				close(stub.gate[ids[c-1]])
				select {
				case <-stub.returned:
					time.Sleep(1500 * time.Microsecond) // let the reducer take the outcome before the next child completes
				case <-finished:
					for _, c2 := range ord { // release everything that is still parked
						select {
						case <-stub.gate[ids[c2-1]]:
						default:
							close(stub.gate[ids[c2-1]])
						}
					}
					return
				case <-time.After(3 * time.Second):
					// the child was never asked (short-circuit before it was dispatched): go on
				}
			}
		}()
		res, err := cmd.Execute(rctx, &commands.CheckCommandParams{StoreID: env.StoreID, TupleKey: tuple.NewCheckRequestTupleKey(sh.obj, sh.rel, "user:a")})
		close(finished)
		switch {
		case err != nil && errors.Is(err, errInjectedChild):
			return "E", false, ""
		case err != nil:
			return "E", false, err.Error()
		case res.Allowed:
			return "T", res.CycleDetected, ""
		}
		return "F", res.CycleDetected, ""
	}
	var events []any
	var vec func(n int, acc []string, f func([]string))
	vec = func(n int, acc []string, f func([]string)) {
		if n == 0 {
			f(append([]string{}, acc...))
			return
		}
		for _, o := range outcomes {
			vec(n-1, append(acc, o), f)
		}
	}
	for _, sh := range shapes {
		vec(sh.n, nil, func(outv []string) {
			for _, ord := range permutations(sh.n) {
				ev := map[string]any{"e": "Reduce", "kind": sh.kind, "out": outv, "ord": ord, "rel": sh.rel}
				dec, cyc, note := runOnce(sh, outv, ord)
				ev["dec"], ev["cyc"], ev["note"] = dec, cyc, note
				events = append(events, ev)
				run.Evals++
				run.Nontrivial(fmt.Sprintf("reduce %s %v %v", sh.rel, outv, ord))
			}
		})
	}
	judge := func(evs []any) *TraceSummary {
		sum, err := ValidateTrace(ReduceSpecDirs(), "ReducerTrace", evs, 4, func(int) bool { return true }, 10*time.Minute)
		if err != nil {
			run.Inconclusive("ReducerTrace validation failed: %v", err)
		}
		return sum
	}
	sum := judge(events)
	// a mismatch may come from the scheduler letting two outcomes overtake each other; a defect is
	// deterministic for a given order, so a line counts only if it repeats in two more executions
	for _, b := range sum.Bad {
		ev := events[b.L].(map[string]any)
		repeats := 0
		for try := 0; try < 2; try++ {
			var sh shape
			for _, s := range shapes {
				if s.rel == ev["rel"] && s.n == len(ev["out"].([]string)) {
					sh = s
				}
			}
			dec, cyc, _ := runOnce(sh, ev["out"].([]string), ev["ord"].([]int))
			e2 := map[string]any{"e": "Reduce", "kind": ev["kind"], "out": ev["out"], "ord": ev["ord"], "rel": ev["rel"], "dec": dec, "cyc": cyc, "note": "retry"}
			if s2 := judge([]any{e2}); len(s2.Bad) > 0 {
				repeats++
			}
		}
		if repeats == 2 {
			run.Classified(b.Cls, map[string]any{"prop": run.Prop, "class": b.Cls, "kind": "reduce", "event": ev, "want": b.Ref}, fmt.Sprintf("%s want %s", jsonOf(ev), b.Ref))
		} else {
			run.Note("reducer run %s did not repeat its mismatch (scheduling): not counted", jsonOf(ev))
		}
	}
	run.Coverage["reducer_runs_judged"] = sum.Judged
	run.Coverage["reducer_classes"] = sum.Counts
}

// DebugReduce runs the reducer conformance alone (./check dbg-reduce).
func DebugReduce(run *Run) {
	reducerConformance(run)
	fmt.Println("reducer classes:", run.Coverage["reducer_classes"], "violations:", run.Violations())
}
