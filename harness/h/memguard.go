package h

import (
	"fmt"
	"os"
	"path/filepath"
	"runtime"
	"sync/atomic"
	"time"
)

// Activity is what the driver is doing right now (set before every engine call); the memory guard
// reports it when the process is about to exhaust memory.
var Activity atomic.Value

// MemoryGuardLimit is the heap size (bytes) beyond which the run is stopped.
var MemoryGuardLimit uint64 = 40 << 30

// StartMemoryGuard stops the process with exit 2 (inconclusive, never a violation) before the
// operating system has to kill it, and says what was running.
func StartMemoryGuard(prop string) {
	go func() {
		for {
			time.Sleep(200 * time.Millisecond)
			rss := residentBytes() // resident set: heap and goroutine stacks alike, and no stop-the-world
			if rss > MemoryGuardLimit {
				var ms runtime.MemStats
				ms.HeapAlloc = rss
				act, _ := Activity.Load().(string)
				os.MkdirAll(filepath.Join(VerifRoot(), "replays"), 0o755)
				p := filepath.Join(VerifRoot(), "replays", "runaway-"+prop+".txt")
				os.WriteFile(p, []byte(act), 0o644)
				fmt.Printf("INCONCLUSIVE property=%s: memory runaway (heap %d MB) while running: %.600s (full text in %s)\n", prop, ms.HeapAlloc>>20, act, p)
				os.Exit(ExitInconclusive)
			}
		}
	}()
}

// residentBytes reads the resident set size of this process from /proc/self/statm (0 if unavailable).
func residentBytes() uint64 {
	b, err := os.ReadFile("/proc/self/statm")
	if err != nil {
		return 0
	}
	var size, resident uint64
	if _, err := fmt.Sscanf(string(b), "%d %d", &size, &resident); err != nil {
		return 0
	}
	return resident * uint64(os.Getpagesize())
}
