package h

import (
	"context"
	"encoding/json"
	"fmt"
	"os"

	openfgav1 "github.com/openfga/api/proto/openfga/v1"
)

// replayStore re-executes a stored history (events from Reset to the offending one)
// on a fresh backend and validates the new trace.
func replayStore(run *Run) {
	ctx := context.Background()
	b, err := os.ReadFile(run.Replay)
	if err != nil {
		run.Inconclusive("cannot read replay: %v", err)
	}
	var rf struct {
		Backend string            `json:"backend"`
		History []json.RawMessage `json:"history"`
	}
	if err := json.Unmarshal(b, &rf); err != nil {
		run.Inconclusive("cannot decode replay: %v", err)
	}
	env, err := NewStoreEnv(rf.Backend)
	if err != nil {
		run.Inconclusive("backend: %v", err)
	}
	defer env.Close()
	rec := &StoreRec{Backend: rf.Backend}
	rec.Reset()
	sidOf := map[int]string{}   // recorded rank -> new store id
	midOf := map[string]string{} // new sid -> latest model id
	for _, raw := range rf.History {
		var head struct {
			E   string `json:"e"`
			SID int    `json:"sid"`
		}
		json.Unmarshal(raw, &head)
		switch head.E {
		case "CreateStore":
			var ev struct {
				Name string `json:"name"`
			}
			json.Unmarshal(raw, &ev)
			// the model follows in the next WriteModel event; create the store now
			st, err := env.S.CreateStore(ctx, createStoreReq(ev.Name))
			if err != nil {
				run.Inconclusive("create store: %v", err)
			}
			sidOf[head.SID] = st.GetId()
			rec.Add(map[string]any{"e": "CreateStore", "sid": IDRef(st.GetId()), "name": ev.Name})
		case "WriteModel":
			var ev struct {
				Model *Model `json:"model"`
				OK    bool   `json:"ok"`
			}
			json.Unmarshal(raw, &ev)
			sid := sidOf[head.SID]
			mid, err := env.writeModel(ctx, sid, ev.Model)
			if err != nil {
				run.Inconclusive("write model: %v", err)
			}
			midOf[sid] = mid
			rec.Add(map[string]any{"e": "WriteModel", "sid": IDRef(sid), "mid": IDRef(mid), "ok": true, "model": ev.Model})
		case "Write":
			var ev WriteEv
			json.Unmarshal(raw, &ev)
			sid := sidOf[head.SID]
			was := ev.Got
			fault, at := ev.Fault, ev.At
			ev.Fault, ev.At, ev.Bound = "", 0, ""
			if ev.OnDup == "error" {
				ev.OnDup = ""
			}
			if ev.OnMiss == "error" {
				ev.OnMiss = ""
			}
			if fault == "fail-pre" || fault == "fail-post" {
				Inj.Arm(fault, at)
			}
			if fault == "crash" {
				fmt.Println("replay: crash steps are not re-executed (skipped)")
				continue
			}
			env.apiWrite(ctx, sid, midOf[sid], &ev)
			if fault != "" {
				trig, _, log := Inj.Disarm()
				if trig {
					ev.Fault, ev.At, ev.Bound = fault, at, log[len(log)-1]
				}
			}
			fmt.Printf("replay Write dels=%d wrs=%d onDup=%s onMiss=%s fault=%s@%d: recorded %s, now %s %s\n", len(ev.Dels), len(ev.Wrs), ev.OnDup, ev.OnMiss, fault, at, was, ev.Got, ev.Err)
			rec.Add(&ev)
		case "Dump":
			sid := sidOf[head.SID]
			d, err := env.Dump(ctx, sid)
			if err != nil {
				run.Inconclusive("dump: %v", err)
			}
			rec.Add(d)
		}
	}
	validateStoreTrace(run, rec)
}

func createStoreReq(name string) *openfgav1.CreateStoreRequest {
	return &openfgav1.CreateStoreRequest{Name: name}
}

func (e *StoreEnv) writeModel(ctx context.Context, sid string, m *Model) (string, error) {
	pm := m.ToProto()
	wm, err := e.S.WriteAuthorizationModel(ctx, &openfgav1.WriteAuthorizationModelRequest{StoreId: sid, SchemaVersion: "1.1",
		TypeDefinitions: pm.GetTypeDefinitions(), Conditions: pm.GetConditions()})
	if err != nil {
		return "", err
	}
	return wm.GetAuthorizationModelId(), nil
}

// wellFormed reports whether no tuple key occurs twice in the request.
func wellFormed(ev *WriteEv) bool {
	seen := map[string]bool{}
	for _, t := range append(append([]Tuple{}, ev.Dels...), ev.Wrs...) {
		if seen[t.Key()] {
			return false
		}
		seen[t.Key()] = true
	}
	return true
}
