package h

import (
	"context"
	"crypto/sha1"
	"encoding/hex"
	"encoding/json"
	"fmt"
	"math/rand"
	"os"
	"path/filepath"
	"time"
)

var CoreSpecDirs = func() []string { return []string{filepath.Join(VerifRoot(), "spec", "core")} }

// Case is one generated model + tuple set.
type Case struct {
	N      int
	Model  *Model
	Tuples []Tuple
}

func (c *Case) SetupEv() *SetupEv {
	return &SetupEv{E: "Setup", Case: c.N, Model: c.Model, Tuples: normTuples(c.Tuples)}
}

// Recorder accumulates trace events and remembers which Setup each belongs to.
type Recorder struct {
	Events  []any
	setupAt []int // for each event index, the index of its Setup event
	cur     int
}

func (r *Recorder) Setup(ev *SetupEv) {
	if os.Getenv("VERIF_DEBUG") != "" {
		b, _ := json.Marshal(ev)
		fmt.Fprintf(os.Stderr, "SETUP %s\n", b)
	}
	r.cur = len(r.Events)
	r.Events = append(r.Events, ev)
	r.setupAt = append(r.setupAt, r.cur)
}
func (r *Recorder) Add(ev any) {
	if os.Getenv("VERIF_DEBUG") == "events" {
		b, _ := json.Marshal(ev)
		fmt.Fprintf(os.Stderr, "EVENT %s\n", b)
	}
	r.Events = append(r.Events, ev)
	r.setupAt = append(r.setupAt, r.cur)
}
func (r *Recorder) IsSetup(i int) bool { return r.setupAt[i] == i }

// ReplayFile is the on-disk form of one offending case.
type ReplayFile struct {
	Prop    string          `json:"prop"`
	Class   string          `json:"class"`
	Ref     string          `json:"ref"`
	Kind    string          `json:"kind"` // event kind
	Setup   *SetupEv        `json:"setup"`
	Event   json.RawMessage `json:"event"`
	Extra   map[string]any  `json:"extra,omitempty"`
	Summary string          `json:"summary"`
}

func eventKind(ev any) string {
	switch ev.(type) {
	case *CheckEv:
		return "Check"
	case *V2Ev:
		return "V2Check"
	case *ListObjectsEv:
		return "ListObjects"
	case *ListUsersEv:
		return "ListUsers"
	case *ExpandEv:
		return "Expand"
	}
	return "?"
}

func summarize(setup *SetupEv, ev any) string {
	b, _ := json.Marshal(ev)
	s := string(b)
	if len(s) > 600 {
		s = s[:600] + "…"
	}
	return fmt.Sprintf("%s || model: %s", s, setup.Model.String())
}

// Validate runs ApiTrace over the recorded events and routes every non-OK verdict.
func (rec *Recorder) Validate(run *Run, shards int) *TraceSummary {
	if len(rec.Events) == 0 {
		run.Inconclusive("driver produced no events")
	}
	t0 := time.Now()
	fmt.Printf("driver: %d events recorded in %.1fs; validating with TLC…\n", len(rec.Events), t0.Sub(run.Start).Seconds())
	sum, err := ValidateTrace(CoreSpecDirs(), "ApiTrace", rec.Events, shards, rec.IsSetup, 20*time.Minute)
	if err != nil {
		run.Inconclusive("trace validation failed: %v", err)
	}
	fmt.Printf("tlc: %d events judged in %.1fs (%d skipped)\n", sum.Judged, time.Since(t0).Seconds(), sum.Skipped)
	if len(run.Samples) == 0 && len(rec.Events) >= 2 { // always show what a case looks like
		run.AddSample(map[string]any{"setup": rec.Events[0], "first_event": rec.Events[1]})
	}
	run.Coverage["traces_validated_against_impl"] = sum.Lines
	run.Coverage["tlc_wall_s"] = time.Since(t0).Seconds()
	for _, b := range sum.Bad {
		setup := rec.Events[rec.setupAt[b.L]].(*SetupEv)
		ev := rec.Events[b.L]
		raw, _ := json.Marshal(ev)
		rf := &ReplayFile{Prop: run.Prop, Class: b.Cls, Ref: b.Ref, Kind: eventKind(ev), Setup: setup, Event: raw, Summary: summarize(setup, ev)}
		run.Classified(b.Cls, rf, fmt.Sprintf("ref=%s %s", b.Ref, rf.Summary))
	}
	return sum
}

func hashOf(v any) string {
	b, _ := json.Marshal(v)
	h := sha1.Sum(b)
	return hex.EncodeToString(h[:8])
}

// nontrivialCheck: the relation's rewrite is not a bare direct assignment, or the
// direct tuples on (o, r) include a userset, wildcard or conditional tuple.
func nontrivialCheck(c *Case, o Obj, r string) bool {
	def := c.Model.Rel(o.T, r)
	if def == nil {
		return false
	}
	if def.Rw.K != "this" {
		return true
	}
	for _, t := range c.Tuples {
		if t.O == o && t.R == r && (t.U.IsUserset() || t.U.IsWild() || t.C != "") {
			return true
		}
	}
	return false
}

// GenCase draws one case.
func GenCase(r *rand.Rand, n int, opts GenOpts) (*Case, int) {
	m, rej := GenModel(r, opts)
	return &Case{N: n, Model: m, Tuples: GenTuples(r, m, opts)}, rej
}

// GenRequests samples k check requests (object, relation, subject, ctx) of a case.
func GenRequests(r *rand.Rand, c *Case, k int) []Req {
	var all []Req
	ctxs := GenReqCtxs(r, c.Model)
	subs := GenSubjects(c.Model)
	for _, t := range []string{"doc", "folder", "group"} {
		for _, id := range IDs[t] {
			for _, rel := range c.Model.RelsOf(t) {
				for _, u := range subs {
					all = append(all, Req{O: Obj{t, id}, R: rel, U: u})
				}
			}
		}
	}
	r.Shuffle(len(all), func(i, j int) { all[i], all[j] = all[j], all[i] })
	if len(all) > k {
		all = all[:k]
	}
	for i := range all {
		all[i].Ctx = ctxs[r.Intn(len(ctxs))]
	}
	return all
}

// LoadReplay reads a replay file.
func LoadReplay(path string) *ReplayFile {
	b, err := os.ReadFile(path)
	if err != nil {
		fmt.Println("cannot read replay:", err)
		os.Exit(ExitInconclusive)
	}
	var rf ReplayFile
	if err := json.Unmarshal(b, &rf); err != nil {
		fmt.Println("cannot decode replay:", err)
		os.Exit(ExitInconclusive)
	}
	return &rf
}

// ---------------------------------------------------------------- C01

func C01(run *Run) {
	ctx := context.Background()
	if run.Replay != "" {
		replayCore(run)
		return
	}
	r := rand.New(rand.NewSource(run.Seed))
	env := NewEnv(nil)
	defer env.Close()
	nCases := run.Pick(120, 2500)
	perCase := run.Pick(40, 60)
	rec := &Recorder{}
	rejected := 0
	engines := []string{"server"}
	if run.Thorough() {
		engines = []string{"server", "v1:default", "v1:weight2", "v1:recursive"}
	}
	for c := 0; c < nCases; c++ {
		cs, rej := GenCase(r, c, GenOpts{MinTuples: 8, MaxTuples: 20})
		rejected += rej
		if err := env.Setup(ctx, cs.Model, cs.Tuples); err != nil {
			run.Inconclusive("setup failed: %v (model %s)", err, cs.Model)
		}
		ts, mg, err := env.Typesystem(ctx, cs.Model)
		if err != nil {
			run.Inconclusive("typesystem: %v", err)
		}
		rec.Setup(cs.SetupEv())
		for _, q := range GenRequests(r, cs, perCase) {
			for _, eng := range engines {
				ev := &CheckEv{Eng: eng, O: q.O, R: q.R, U: q.U, Ctx: q.Ctx}
				env.RunCheck(ctx, ev, ts, mg)
				rec.Add(ev)
				run.Evals++
			}
			if nontrivialCheck(cs, q.O, q.R) {
				run.Nontrivial(hashOf([]any{cs.Model, cs.Tuples, q}))
			}
		}
		if c < 2 {
			run.AddSample(map[string]any{"model": cs.Model.String(), "tuples": tupleStrings(cs.Tuples), "first_request": rec.Events[len(rec.Events)-1]})
		}
	}
	// scripted shapes the random generator does not reach (subject types that cannot reach a userset's
	// relation), on the production planner and on every forced strategy
	for _, sc := range recursiveOtherUsersetCases() {
		if err := env.Setup(ctx, sc.cs.Model, sc.cs.Tuples); err != nil {
			run.Inconclusive("setup failed: %v (model %s)", err, sc.cs.Model)
		}
		ts, mg, err := env.Typesystem(ctx, sc.cs.Model)
		if err != nil {
			run.Inconclusive("typesystem: %v", err)
		}
		rec.Setup(sc.cs.SetupEv())
		for _, q := range sc.reqs {
			for _, eng := range []string{"server", "v1:default", "v1:weight2", "v1:recursive"} {
				ev := &CheckEv{Eng: eng, O: q.O, R: q.R, U: q.U, Ctx: q.Ctx}
				env.RunCheck(ctx, ev, ts, mg)
				rec.Add(ev)
				run.Evals++
			}
		}
	}
	sum := rec.Validate(run, 16)
	run.Coverage["rule"] = "random stratified models over 4 types/≤5 relations/≤2 conditions validated by the real model validator; 5-16 tuples incl. wildcards, usersets, conditional tuples (full/partial/mistyped stored context) and leftover tuples invalid for the model; requests = sampled (object, relation, subject∈{objects, wildcard, usersets}, context); non-trivial = relation rewrite is not a bare direct assignment or its direct tuples include userset/wildcard/conditional tuples; distinct by hash(model, tuples, request)"
	run.Coverage["cases"] = nCases
	run.Coverage["models_rejected_by_real_validator"] = rejected
	run.Coverage["engines"] = engines
	run.Coverage["judged_by_tlc"] = sum.Judged
	run.Coverage["skipped_depth_margin"] = sum.Skipped
	run.Coverage["verdict_classes"] = sum.Counts
	run.Coverage["tlc_states"] = sum.Distinct
	run.Assumptions = []string{"reference semantics = spec/core/FGACore.tla Chk (Kleene least fixpoint, path cut)", "memory datastore", "requests whose reachable-goal count exceeds 18 are not judged (depth margin)"}
}

func tupleStrings(ts []Tuple) []string {
	var out []string
	for _, t := range ts {
		out = append(out, t.String())
	}
	return out
}

// replayCore re-executes one stored case on the real code and re-validates it.
func replayCore(run *Run) {
	ctx := context.Background()
	rf := LoadReplay(run.Replay)
	if rf.Kind == "V2Check" {
		replayC03(run) // weighted-graph answers are re-executed next to the default engine's
		return
	}
	env := NewEnv(nil)
	defer env.Close()
	cs := &Case{Model: rf.Setup.Model, Tuples: rf.Setup.Tuples}
	if err := env.Setup(ctx, cs.Model, cs.Tuples); err != nil {
		run.Inconclusive("setup failed: %v", err)
	}
	ts, mg, err := env.Typesystem(ctx, cs.Model)
	if err != nil {
		run.Inconclusive("typesystem: %v", err)
	}
	rec := &Recorder{}
	rec.Setup(rf.Setup)
	switch rf.Kind {
	case "Check":
		var ev CheckEv
		json.Unmarshal(rf.Event, &ev)
		was := ev.Got
		env.RunCheck(ctx, &ev, ts, mg)
		fmt.Printf("replay Check %s#%s@%s eng=%s: recorded %s, now %s (%s)\n", ev.O, ev.R, ev.U, ev.Eng, was, ev.Got, ev.Err)
		rec.Add(&ev)
	case "ListObjects":
		var ev ListObjectsEv
		json.Unmarshal(rf.Event, &ev)
		RunListObjectsEng(ctx, env, &ev)
		fmt.Printf("replay ListObjects %s#%s@%s eng=%s: now %v err=%v\n", ev.T, ev.R, ev.U, ev.Eng, ev.Got, ev.Err)
		rec.Add(&ev)
	case "ListUsers":
		var ev ListUsersEv
		json.Unmarshal(rf.Event, &ev)
		env.RunListUsers(ctx, &ev)
		fmt.Printf("replay ListUsers %s#%s filter %s#%s: now %v err=%v\n", ev.O, ev.R, ev.FT, ev.FRel, ev.Got, ev.Err)
		rec.Add(&ev)
	case "Expand":
		var ev ExpandEv
		json.Unmarshal(rf.Event, &ev)
		env.RunExpand(ctx, &ev)
		rec.Add(&ev)
	default:
		run.Inconclusive("unknown replay kind %q", rf.Kind)
	}
	rec.Validate(run, 1)
}

// RunListObjectsEng runs a ListObjects event on the engine named in ev.Eng using
// a server built for that engine over env's datastore.
func RunListObjectsEng(ctx context.Context, env *Env, ev *ListObjectsEv) {
	e2 := ListObjectsEnv(env, ev.Eng)
	if e2 != env {
		defer e2.Close()
	}
	e2.RunListObjects(ctx, ev)
}
