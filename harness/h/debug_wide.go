package h

import (
	"context"
	"fmt"
	"os"
	"strings"
	"time"
)

// DebugWide prints, per engine, how many objects ListObjects returns on the wide case and how long it takes.
func DebugWide(run *Run) {
	ctx := context.Background()
	v := NewVariants()
	cs := wideCase(130)
	if err := v.Base.Setup(ctx, cs.Model, cs.Tuples); err != nil {
		panic(err)
	}
	engs := strings.Split(os.Getenv("VERIF_ENGINES"), ",")
	for _, eng := range engs {
		for _, rel := range []string{"viewer", "editor"} {
			ev := &ListObjectsEv{Eng: eng, T: "doc", R: rel, U: Subj{"user", "a", ""}, Ctx: Ctx{}}
			st := time.Now()
			v.RunLO(ctx, ev)
			fmt.Printf("%-18s %-7s n=%3d err=%v %s %v\n", eng, rel, len(ev.Got), ev.IsErr, ev.Errk, time.Since(st).Round(time.Millisecond))
		}
	}
}
