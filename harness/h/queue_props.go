package h

import (
	"encoding/json"
	"fmt"
	"math/rand"
	"os"
	"path/filepath"
	"strings"
	"time"
)

// scriptFromTLCTrace derives the schedule (sequence of process names) from a TLC
// JSON trace dump (-dumpTrace json): the process whose pc changed in each step.
func scriptFromTLCTrace(path string) ([]string, error) {
	b, err := os.ReadFile(path)
	if err != nil {
		return nil, err
	}
	var d struct {
		Counterexample struct {
			State []json.RawMessage `json:"state"`
		} `json:"counterexample"`
	}
	if err := json.Unmarshal(b, &d); err != nil {
		return nil, err
	}
	var prev map[string]string
	var script []string
	for _, raw := range d.Counterexample.State {
		var pair []json.RawMessage
		if err := json.Unmarshal(raw, &pair); err != nil || len(pair) != 2 {
			return nil, fmt.Errorf("unexpected trace state shape")
		}
		var st struct {
			PC map[string]string `json:"pc"`
		}
		if err := json.Unmarshal(pair[1], &st); err != nil {
			return nil, err
		}
		if prev != nil {
			for p, l := range st.PC {
				if prev[p] != l {
					script = append(script, p)
				}
			}
		}
		prev = st.PC
	}
	return script, nil
}

// tlcQueueModel runs an exhaustive design-level configuration of MPMC.tla. When
// wantTrace is set the run is expected to end with a counterexample, which is
// dumped as JSON and returned as a schedule.
func tlcQueueModel(run *Run, cfg string, wantTrace bool) (*TLCOut, []string) {
	dir := Scratch("mpmc")
	defer os.RemoveAll(dir)
	tr := filepath.Join(dir, "cex.json")
	args := []string{}
	workers := 8
	if wantTrace {
		args = append(args, "-dumpTrace", "json", tr)
		workers = 1
	}
	out, err := TLCRun{SpecDirs: []string{QueueSpecDir()}, Module: "MPMC", Config: cfg, Workers: workers, HeapMB: 8000,
		Timeout: 20 * time.Minute, Args: args}.Run()
	if err != nil || out.TimedOut {
		run.Inconclusive("TLC on %s failed: %v\n%s", cfg, err, tail(out))
	}
	if !wantTrace {
		return out, nil
	}
	script, err := scriptFromTLCTrace(tr)
	if err != nil {
		run.Inconclusive("cannot read TLC counterexample of %s: %v\n%s", cfg, err, tail(out))
	}
	return out, script
}

// C22: the bounded MPMC queue (the MPSC accumulator is handled in mpscPart).
func C22(run *Run) {
	if run.Replay != "" {
		replayQueue(run)
		return
	}
	r := rand.New(rand.NewSource(run.Seed))
	cfgA := qCfg{Name: "2p-1c", Producers: []string{"p1", "p2"}, Consumers: []string{"c1"}, Cap: 2, Ext: 0, ItemsPer: 2, RecvPer: 4}
	cfgB := qCfg{Name: "2p-2c", Producers: []string{"p1", "p2"}, Consumers: []string{"c1", "c2"}, Cap: 2, Ext: 0, ItemsPer: 1, RecvPer: 1}
	cfgC := qCfg{Name: "ext-close", Producers: []string{"p1", "p2"}, Consumers: []string{"c1"}, Closers: []string{"x1"}, Cap: 2, Ext: 1, ItemsPer: 2, RecvPer: 3}
	var states, transitions int64
	// (1) design level: exhaustive TLC
	for _, c := range []string{"MPMC_2x1.cfg", "MPMC_ext.cfg"} {
		out, _ := tlcQueueModel(run, c, false)
		if out.Violated != "" {
			run.Inconclusive("design-level model %s violates %s; the model must be replayed/fixed before it says anything about the code\n%s", c, out.Violated, tail(out))
		}
		if !strings.Contains(out.Stdout, "No error has been found") {
			run.Inconclusive("TLC did not complete %s\n%s", c, tail(out))
		}
		states += out.Distinct
		transitions += out.Generated
	}
	// (2) the two-receiver configuration: TLC is expected to find the lost wake-up; its
	// counterexample is replayed on the real queue
	outB, script := tlcQueueModel(run, "MPMC_2x2.cfg", true)
	states += outB.Distinct
	transitions += outB.Generated
	nRuns := run.Pick(150, 3000)
	traces := 0
	abandoned := 0
	defer func() { run.Coverage["schedules_abandoned_by_harness"] = abandoned }()
	classes := map[string]int{}
	doCfg := func(cfg qCfg, n int, scripts [][]string) {
		var events []any
		var runs []*qRun
		for i := 0; i < n+len(scripts); i++ {
			var qr *qRun
			if !Watchdog(90*time.Second, func() {
				if i < len(scripts) {
					qr = runQueueSchedule(cfg, r, scripts[i])
				} else {
					qr = runQueueSchedule(cfg, r, nil)
				}
			}) {
				// the harness' own scheduler did not finish this schedule (seen once under heavy machine load):
				// the run is abandoned and counted; only a pattern of such runs makes the check inconclusive
				abandoned++
				if abandoned > 3 {
					run.Inconclusive("the gate scheduler got stuck %d times (last: config %s run %d)", abandoned, cfg.Name, i)
				}
				continue
			}
			runs = append(runs, qr)
			events = append(events, qr.Events...)
			run.Evals++
			traces++
			run.Nontrivial(hashOf(qr.Events))
		}
		if len(run.Samples) < 2 && len(runs) > 0 {
			ev := runs[0].Events
			if len(ev) > 12 {
				ev = ev[:12]
			}
			run.AddSample(map[string]any{"config": cfg.Name, "first_steps": ev})
		}
		sum := validateQueueRuns(run, cfg, events)
		for k, v := range sum.Counts {
			classes[cfg.Name+":"+k] += v
		}
		// map verdicts back to runs
		idx := 0
		bounds := []int{}
		for _, qr := range runs {
			bounds = append(bounds, idx)
			idx += len(qr.Events)
		}
		for _, b := range sum.Bad {
			ri := 0
			for i, s := range bounds {
				if s <= b.L {
					ri = i
				}
			}
			qr := runs[ri]
			rep := map[string]any{"prop": "C22", "class": b.Cls, "config": cfg, "events": qr.Events, "ref": b.Ref, "hang": qr.Hang}
			switch b.Cls {
			case "DIVERGED":
				// the real queue left the model: judge the run by its observable outcome
				if why := queueOutcomeViolation(cfg, qr); why != "" {
					run.Violation(rep, "real queue diverged from MPMC.tla at "+b.Ref+" and the run's outcome breaks the FIFO-channel contract: "+why)
				} else {
					run.divergences = append(run.divergences, fmt.Sprintf("%s run %d at %s", cfg.Name, ri, b.Ref))
				}
			default:
				run.Classified(b.Cls, rep, fmt.Sprintf("config %s: %s %s", cfg.Name, b.Ref, qr.Hang))
			}
		}
		// runs the harness could not schedule to the end are judged too
		for ri, qr := range runs {
			if qr.Hang != "" && !strings.HasPrefix(qr.Hang, "script") {
				rep := map[string]any{"prop": "C22", "class": "HANG", "config": cfg, "events": qr.Events, "hang": qr.Hang}
				if cfg.Name == "2p-2c" && strings.Contains(qr.Hang, "should have been woken") {
					run.Classified("KF_LostWakeupTwoReceivers", rep, qr.Hang)
				} else {
					run.Violation(rep, fmt.Sprintf("config %s run %d: %s", cfg.Name, ri, qr.Hang))
				}
			}
		}
	}
	doCfg(cfgA, nRuns, nil)
	doCfg(cfgC, nRuns, nil)
	var scripts [][]string
	if len(script) > 0 {
		scripts = append(scripts, script)
	} else {
		run.Note("TLC found no lost wake-up in MPMC_2x2.cfg (violated=%q)", outB.Violated)
	}
	doCfg(cfgB, nRuns/3, scripts)
	mpscPart(run, r, classes, &traces)
	if len(run.divergences) > 0 {
		fmt.Printf("INCONCLUSIVE property=C22: %d run(s) of the real queue cannot be followed by MPMC.tla although their outcome is a valid FIFO-channel outcome (the model no longer matches the code), e.g. %s\n", len(run.divergences), run.divergences[0])
		if run.Violations() == 0 {
			os.Exit(ExitInconclusive)
		}
	}
	run.Coverage["states"] = states
	run.Coverage["transitions"] = transitions
	run.Coverage["traces_validated_against_impl"] = traces
	run.Coverage["verdict_classes"] = classes
	run.Coverage["model_configs"] = "MPMC_2x1.cfg (2 producers x 2 items, 1 consumer, capacity 2), MPMC_ext.cfg (same + one buffer doubling + concurrent Close), MPMC_2x2.cfg (2 producers, 2 consumers; counterexample replayed on the real queue); invariants FifoData DrainBeforeClosed RingOK NoSendAfterClose NoLostWakeup + TLC deadlock check"
	run.Coverage["rule"] = "seeded random schedules (one registered goroutine runs at a time, released from one verifhook.Yield to the next) of the real mpmc.Queue in three configurations, each step logged with the queue's internal state and validated by TLC against the PlusCal model (same labels as the hooks); TLC counterexamples replayed as scripted schedules; the MPSC accumulator likewise (MPSC.tla); non-trivial = distinct schedules (hash of the step sequence)"
	run.Assumptions = []string{"sync.RWMutex and channel operations are atomic steps with Go's documented semantics", "schedules never leave a goroutine waiting inside the mutex (the scheduler only releases a goroutine into a lock that is free), which loses no behaviour of the model", "context cancellation inside Send/Recv is not exercised"}
}

// queueOutcomeViolation judges a finished or stuck run by what the callers observed:
// every received item was sent, none twice, per-producer order preserved, and nobody
// is stuck while items are buffered. Returns "" if the outcome is a valid FIFO-channel outcome.
func queueOutcomeViolation(cfg qCfg, qr *qRun) string {
	seen := map[qItem]bool{}
	for _, c := range cfg.Consumers {
		last := map[string]int{}
		for _, it := range qr.Recv[c] {
			if seen[it] {
				return fmt.Sprintf("item %v received twice", it)
			}
			seen[it] = true
			sent := false
			for _, s := range qr.SentOK[it.P] {
				sent = sent || s == it
			}
			if !sent && it.K > cfg.ItemsPer || it.P == "" {
				return fmt.Sprintf("item %v was never sent", it)
			}
			if it.K <= last[it.P] {
				return fmt.Sprintf("items of producer %s received out of order by %s", it.P, c)
			}
			last[it.P] = it.K
		}
	}
	if qr.Hang != "" {
		return "a goroutine is stuck: " + qr.Hang
	}
	// nothing is lost: once every consumer has been told "closed and drained", every item whose Send
	// reported success must have been received by somebody
	drained := qr.Finished && len(cfg.Consumers) > 0
	for _, c := range cfg.Consumers {
		drained = drained && qr.Closed[c] > 0
	}
	if drained {
		for p, items := range qr.SentOK {
			for _, it := range items {
				if !seen[it] {
					return fmt.Sprintf("item %v of producer %s was sent successfully but never received although the consumers drained the queue", it, p)
				}
			}
		}
	}
	return ""
}

func replayQueue(run *Run) {
	b, err := os.ReadFile(run.Replay)
	if err != nil {
		run.Inconclusive("cannot read replay: %v", err)
	}
	var rf struct {
		Config qCfg              `json:"config"`
		Events []json.RawMessage `json:"events"`
	}
	if err := json.Unmarshal(b, &rf); err != nil {
		run.Inconclusive("cannot decode replay: %v", err)
	}
	var script []string
	for _, raw := range rf.Events {
		var st qStep
		json.Unmarshal(raw, &st)
		if st.E == "Step" {
			script = append(script, st.P)
		}
	}
	qr := runQueueSchedule(rf.Config, rand.New(rand.NewSource(1)), script)
	fmt.Printf("replay: %d steps re-executed, finished=%v hang=%q\n", len(qr.Events), qr.Finished, qr.Hang)
	sum := validateQueueRuns(run, rf.Config, qr.Events)
	for _, bd := range sum.Bad {
		rep := map[string]any{"prop": "C22", "class": bd.Cls, "config": rf.Config, "events": qr.Events}
		if bd.Cls == "DIVERGED" {
			if why := queueOutcomeViolation(rf.Config, qr); why != "" {
				run.Violation(rep, why)
			}
			continue
		}
		run.Classified(bd.Cls, rep, bd.Ref)
	}
}
