module github.com/openfga/openfga/internal/listobjects/pipeline/verifharness

go 1.25.7

require (
	github.com/golang-jwt/jwt/v5 v5.3.1
	github.com/oklog/ulid/v2 v2.1.1
	github.com/openfga/api/proto v0.0.0-20260319214821-f153694bfc20
	github.com/openfga/language/pkg/go v0.3.1
	github.com/openfga/openfga v0.0.0
	golang.org/x/sync v0.22.0
	google.golang.org/grpc v1.82.1
	google.golang.org/protobuf v1.36.11
	modernc.org/sqlite v1.54.0
)

require (
	cel.dev/expr v0.25.1 // indirect
	filippo.io/edwards25519 v1.2.0 // indirect
	github.com/Masterminds/squirrel v1.5.4 // indirect
	github.com/MicahParks/keyfunc/v2 v2.1.0 // indirect
	github.com/Yiling-J/theine-go v0.6.2 // indirect
	github.com/antlr4-go/antlr/v4 v4.13.1 // indirect
	github.com/beorn7/perks v1.0.1 // indirect
	github.com/cenkalti/backoff/v4 v4.3.0 // indirect
	github.com/cenkalti/backoff/v5 v5.0.3 // indirect
	github.com/cespare/xxhash/v2 v2.3.0 // indirect
	github.com/davecgh/go-spew v1.1.2-0.20180830191138-d8f796af33cc // indirect
	github.com/dustin/go-humanize v1.0.1 // indirect
	github.com/emirpasic/gods v1.18.1 // indirect
	github.com/envoyproxy/protoc-gen-validate v1.3.3 // indirect
	github.com/fsnotify/fsnotify v1.9.0 // indirect
	github.com/go-logr/logr v1.4.4 // indirect
	github.com/go-logr/stdr v1.2.2 // indirect
	github.com/go-sql-driver/mysql v1.10.0 // indirect
	github.com/go-viper/mapstructure/v2 v2.4.0 // indirect
	github.com/google/cel-go v0.29.2 // indirect
	github.com/google/uuid v1.6.0 // indirect
	github.com/grpc-ecosystem/go-grpc-middleware v1.4.0 // indirect
	github.com/grpc-ecosystem/go-grpc-middleware/v2 v2.3.3 // indirect
	github.com/grpc-ecosystem/grpc-gateway/v2 v2.29.0 // indirect
	github.com/hashicorp/go-cleanhttp v0.5.2 // indirect
	github.com/hashicorp/go-retryablehttp v0.7.8 // indirect
	github.com/klauspost/cpuid/v2 v2.0.9 // indirect
	github.com/lann/builder v0.0.0-20180802200727-47ae307949d0 // indirect
	github.com/lann/ps v0.0.0-20150810152359-62de8c46ede0 // indirect
	github.com/mfridman/interpolate v0.0.2 // indirect
	github.com/munnerz/goautoneg v0.0.0-20191010083416-a7dc8b61c822 // indirect
	github.com/natefinch/wrap v0.2.0 // indirect
	github.com/pelletier/go-toml/v2 v2.2.4 // indirect
	github.com/pmezard/go-difflib v1.0.1-0.20181226105442-5d4384ee4fb2 // indirect
	github.com/pressly/goose/v3 v3.27.3 // indirect
	github.com/prometheus/client_golang v1.24.0 // indirect
	github.com/prometheus/client_model v0.6.2 // indirect
	github.com/prometheus/common v0.70.0 // indirect
	github.com/prometheus/procfs v0.21.1 // indirect
	github.com/remyoudompheng/bigfft v0.0.0-20230129092748-24d4a6f8daec // indirect
	github.com/sagikazarmark/locafero v0.9.0 // indirect
	github.com/sethvargo/go-retry v0.4.0 // indirect
	github.com/sourcegraph/conc v0.3.0 // indirect
	github.com/spf13/afero v1.15.0 // indirect
	github.com/spf13/cast v1.10.0 // indirect
	github.com/spf13/pflag v1.0.10 // indirect
	github.com/spf13/viper v1.20.1 // indirect
	github.com/stretchr/testify v1.11.1 // indirect
	github.com/subosito/gotenv v1.6.0 // indirect
	github.com/zeebo/xxh3 v1.0.2 // indirect
	go.opentelemetry.io/auto/sdk v1.2.1 // indirect
	go.opentelemetry.io/otel v1.44.0 // indirect
	go.opentelemetry.io/otel/exporters/otlp/otlptrace v1.44.0 // indirect
	go.opentelemetry.io/otel/exporters/otlp/otlptrace/otlptracegrpc v1.44.0 // indirect
	go.opentelemetry.io/otel/metric v1.44.0 // indirect
	go.opentelemetry.io/otel/sdk v1.44.0 // indirect
	go.opentelemetry.io/otel/trace v1.44.0 // indirect
	go.opentelemetry.io/proto/otlp v1.10.0 // indirect
	go.uber.org/mock v0.6.0 // indirect
	go.uber.org/multierr v1.11.0 // indirect
	go.uber.org/zap v1.28.0 // indirect
	go.yaml.in/yaml/v3 v3.0.4 // indirect
	golang.org/x/exp v0.0.0-20260718201538-764159d718ef // indirect
	golang.org/x/net v0.57.0 // indirect
	golang.org/x/sys v0.47.0 // indirect
	golang.org/x/text v0.40.0 // indirect
	gonum.org/v1/gonum v0.17.0 // indirect
	google.golang.org/genproto/googleapis/api v0.0.0-20260526163538-3dc84a4a5aaa // indirect
	google.golang.org/genproto/googleapis/rpc v0.0.0-20260720211330-0afa2a65878a // indirect
	gopkg.in/yaml.v3 v3.0.1 // indirect
	modernc.org/libc v1.74.3 // indirect
	modernc.org/mathutil v1.7.1 // indirect
	modernc.org/memory v1.11.0 // indirect
)

replace github.com/openfga/openfga => /repo
