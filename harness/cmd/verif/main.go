// verif <property> [--replay path]   (tier and seed from VERIF_TIER / VERIF_SEED)
package main

import (
	"encoding/json"
	"fmt"
	"os"

	"github.com/openfga/openfga/internal/listobjects/pipeline/verifharness/h"
)

var props = map[string]struct {
	level string
	fn    func(*h.Run)
}{
	"dbg-c09x": {"other", h.DebugC09X},
	"dbg-conc2": {"other", h.DebugConc2},
	"dbg-conc": {"other", h.DebugConc},
	"dbg-c20w": {"other", h.DebugC20W},
	"dbg-checkcache": {"other", h.DebugCheckCache},
	"dbg-itercache": {"other", h.DebugIterCache},
	"dbg-reduce": {"other", h.DebugReduce},
	"dbg-lo": {"other", h.DebugLO},
	"dbg-launder": {"other", h.DebugLaunder},
	"dbg-wide": {"other", h.DebugWide},
	"dbg-hang": {"other", h.DebugHang},
	"dbg-rep": {"other", h.DebugRepeat},
	"dbg-c09": {"other", h.DebugC09},
	"C01":    {"exploration", h.C01},
	"C02":    {"exploration", h.C02},
	"C03":    {"exploration", h.C03},
	"C04":    {"exploration", h.C04},
	"C05":    {"exploration", h.C05},
	"C06":    {"exploration", h.C06},
	"C07":    {"exploration", h.C07},
	"C08":    {"exploration", h.C08},
	"C09":    {"fault_enumeration", h.C09},
	"C10":    {"exploration", h.C10},
	"C11":    {"exploration", h.C11},
	"C12":    {"model_checking", h.C12},
	"C18":    {"exploration", h.C18},
	"C19":    {"exploration", h.C19},
	"C20":    {"exploration", h.C20},
	"C21":    {"model_checking", h.C21},
	"C22":    {"model_checking", h.C22},
	"C13":    {"exploration", h.C13},
	"C14":    {"model_checking", h.C14},
	"C15":    {"model_checking", h.C15},
	"C16":    {"model_checking", h.C16},
	"C17":    {"model_checking", h.C17},
	"C31":    {"model_checking", h.C31},
	"C32":    {"exploration", h.C32},
	"C23":    {"exploration", h.C23},
	"C24":    {"exploration", h.C24},
	"C25":    {"exploration", h.C25},
	"C26":    {"exploration", h.C26},
	"C27":    {"exploration", h.C27},
	"C28":    {"exploration", h.C28},
	"C29":    {"exploration", h.C29},
	"C30":    {"exploration", h.C30},
}

func main() {
	if len(os.Args) >= 5 && os.Args[1] == "hostile-child" {
		h.HostileChild()
		return
	}
	if len(os.Args) >= 2 && os.Args[1] == "crash-child" {
		h.CrashChild()
		return
	}
	if len(os.Args) < 2 {
		fmt.Println("usage: verif <property> [--replay path]")
		os.Exit(2)
	}
	p, ok := props[os.Args[1]]
	if !ok {
		fmt.Println("unknown property", os.Args[1])
		os.Exit(2)
	}
	run := h.NewRun(os.Args[1], p.level)
	h.StartMemoryGuard(os.Args[1])
	for i := 2; i < len(os.Args); i++ {
		if os.Args[i] == "--replay" && i+1 < len(os.Args) {
			run.Replay = os.Args[i+1]
			i++
			// replays of drivers without a dedicated replay path re-run the recorded exploration
			if b, err := os.ReadFile(run.Replay); err == nil {
				var m struct {
					Seed *int64 `json:"verif_seed"`
					Tier string `json:"verif_tier"`
				}
				if json.Unmarshal(b, &m) == nil && m.Seed != nil {
					run.Seed, run.Tier = *m.Seed, m.Tier
				}
			}
		}
	}
	defer func() {
		if r := recover(); r != nil {
			fmt.Printf("INCONCLUSIVE property=%s: harness panic: %v\n", os.Args[1], r)
			panic(r)
		}
	}()
	p.fn(run)
	os.Exit(run.Finish())
}
