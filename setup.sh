#!/bin/bash
# Offline setup: build the harness against /repo and syntax-check every spec.
set -u
ROOT="$(cd "$(dirname "$0")" && pwd)"
export GOFLAGS=-mod=mod GOPROXY=off GOSUMDB=off GOTOOLCHAIN=local
mkdir -p "$ROOT/.bin" "$ROOT/evidence"
cd "$ROOT/harness" && cp /repo/go.sum go.sum && go1.26 build -tags verif -o "$ROOT/.bin/verif" ./cmd/verif || { echo "harness build failed"; exit 1; }
rc=0
for d in "$ROOT"/spec/*/; do
  T="$(mktemp -d /var/tmp/verif-sany-XXXXXX)"
  cp "$ROOT"/spec/core/*.tla "$T"/ 2>/dev/null   # modules of other directories may extend the core modules
  cp "$d"/*.tla "$T"/ 2>/dev/null
  for g in "$d"/*.tla; do
    f="$T/$(basename "$g")"
    out="$(cd "$T" && timeout 120 tla-sany "$(basename "$f")" 2>&1)"
    if echo "$out" | grep -q "Fatal errors\|\*\*\* Errors\|Could not parse\|Lexical error\|Parse Error"; then echo "SANY failed: $f"; echo "$out" | tail -20; rc=1; fi
  done
  rm -rf "$T"
done
[ $rc -eq 0 ] && echo "setup ok"
exit $rc
